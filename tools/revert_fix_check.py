#!/usr/bin/env python3
"""For every 'fix:' commit of /repo: re-introduce the original defect (reverse patch on the working tree),
run the quick check of the property it was recorded under (+ extra ones), expect exit 1, restore /repo.
Writes /verif/seeded/revert-<sha>/{patch.diff,meta.json}."""
import json, os, subprocess, sys
k = json.load(open('/verif/known_findings.json'))
extra = {"C20": [], "C07": ["C20"], "C04": ["C20"], "C06": ["C20", "C19"], "C10": ["C20"], "C09": ["C20"], "C16": ["C09"], "C13": [], "C19": ["C20"], "C11": []}
only = sys.argv[1:]
for f in k["fixed"]:
    sha, prop = f["commit"], f["property"]
    if only and sha not in only:
        continue
    d = f"/verif/seeded/revert-{sha}"
    os.makedirs(d, exist_ok=True)
    patch = subprocess.run(["git", "-C", "/repo", "show", "-R", "--format=", sha], capture_output=True).stdout
    open(f"{d}/patch.diff", "wb").write(patch)
    props = [prop] + extra.get(prop, [])
    r = subprocess.run(["/verif/tools/try_seed.sh", f"{d}/patch.diff", "quick"] + props, capture_output=True, text=True)
    lines = r.stdout.strip().splitlines()
    meta = {"property": prop, "origin": "reverse of the repository 'fix:' commit " + sha + " (re-introduces the original defect)",
            "what": f["what"], "check_results_quick": lines,
            "detected_by": [l.split()[0] for l in lines if " exit=1 " in l]}
    json.dump(meta, open(f"{d}/meta.json", "w"), indent=1)
    print(sha, prop, "|", " ; ".join(l[:110] for l in lines))
