#!/usr/bin/env python3
"""Regenerates the seeded-change table of DESIGN.md section 9 from seeded/*/notes.md and seeded/REEVAL.quick.txt
(written by tools/reeval_seeds.sh: every seed applied to /repo, the property's OWN quick check run, /repo restored).
Prints markdown to stdout."""
import os, re, json, sys
root = '/verif/seeded'
res = {}
for l in open(os.path.join(root, 'REEVAL.quick.txt')):
    m = re.match(r'(\S+) (C\d\d) exit=(\d+) ?(.*)', l.strip())
    if m:
        res[m.group(1)] = (m.group(2), int(m.group(3)), m.group(4))
print('| seed | change (first line of the author\'s notes) | own check (quick) | first violation signature |')
print('|------|---------------------------------------------|-------------------|---------------------------|')
for s in sorted(os.listdir(root)):
    if not re.match(r'C\d\d-', s):
        continue
    notes = ''
    p = os.path.join(root, s, 'notes.md')
    if os.path.exists(p):
        for l in open(p):
            l = l.strip().lstrip('#').strip()
            if l:
                notes = l
                break
    notes = notes.replace('|', '/')[:130]
    prop, rc, sig = res.get(s, ('?', -1, ''))
    first = sig.split('|')[0].split('  (x')[0].strip()[:80]
    others = []
    mp = os.path.join(root, s, 'meta.json')
    if os.path.exists(mp):
        try:
            others = [x for x in json.load(open(mp)).get('detected_by', []) if x != prop]
        except Exception:
            pass
    verdict = {1: prop, 0: 'MISSED', -1: 'not run'}.get(rc, 'exit=%d' % rc)
    if others:
        verdict += ' (also ' + ', '.join(sorted(set(others))) + ')'
    print('| %s | %s | %s | `%s` |' % (s, notes, verdict, first))
