#!/bin/bash
# usage: tools/all_checks.sh <tier> [seed...]   runs every property's check at each seed; prints the verdict lines
tier=${1:-quick}; shift || true
seeds=${@:-1}
cd "$(dirname "$0")/.."
for s in $seeds; do
  for i in 01 02 03 04 05 06 07 08 09 10 11 12 13 14 15 16 17 18 19 20; do
    VERIF_SEED=$s ./check C$i $tier 2>&1 | grep -E "^(C[0-9][0-9] |VIOLATION|INCONCLUSIVE)" | cut -c1-300
  done
done
