#!/bin/bash
# usage: tools/confirm_seed.sh <Cxx> <mN> <crate>
# Confirms, in the scratch worktree /tmp/seed/<Cxx>/wt, that the seeded change (a) applies, (b) keeps the
# repository's own test suite green, (c) makes the demonstration fail, and that (d) the demonstration passes
# without the change. Leaves the worktree clean. Prints one CONFIRM line.
set -u
id="$1"; m="$2"; crate="$3"
root=${SEEDROOT:-/tmp/seed}; wt=$root/$id/wt; out=$root/$id/out/$m
cd "$wt" || exit 9
git checkout -q -- . ; rm -rf $crate/tests/seed_demo.rs
git apply --whitespace=nowarn "$out/patch.diff" || { echo "CONFIRM $id/$m apply=FAIL"; exit 1; }
suite=$(cargo test --workspace --offline --lib 2>&1 | grep -E "^test result" | grep -vc "0 failed")
mkdir -p $crate/tests; cp "$out/demo.rs" $crate/tests/seed_demo.rs
with=$(cargo test -p $crate --offline --test seed_demo 2>&1 | grep -E "^test result|error(\[|:)" | head -3 | tr '\n' ' ')
git checkout -q -- .
without=$(cargo test -p $crate --offline --test seed_demo 2>&1 | grep -E "^test result|error(\[|:)" | head -3 | tr '\n' ' ')
rm -rf $crate/tests/seed_demo.rs; rmdir $crate/tests 2>/dev/null
echo "CONFIRM $id/$m suite_failures=$suite | with-change: $with | without: $without"
