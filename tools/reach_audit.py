#!/usr/bin/env python3
"""Reach audit (auxiliary, non-deciding): runs the quick workload of the given properties from a
`-C instrument-coverage` build (nightly toolchain + its llvm-profdata / llvm-cov) and reports, per property and per
source file of /repo, which library functions and lines the monitored workload executed.
Writes /verif/evidence/reach/<id>.json and prints the functions of the property's anchor files that were NOT reached.
usage: tools/reach_audit.py [C01 C02 ...]"""
import json, os, subprocess, sys, glob, shutil
ROOT = os.path.dirname(os.path.dirname(os.path.abspath(__file__)))
H = os.path.join(ROOT, "harness")
TD = os.path.join(H, "target-cov")
sysroot = subprocess.run(["rustc", "+nightly", "--print", "sysroot"], capture_output=True, text=True).stdout.strip()
BIN = os.path.join(sysroot, "lib/rustlib/x86_64-unknown-linux-gnu/bin")
env = dict(os.environ, RUSTFLAGS="--cfg gm_rs_verif -C instrument-coverage", CARGO_NET_OFFLINE="true", CARGO_TARGET_DIR=TD)
r = subprocess.run(["cargo", "+nightly", "build", "--offline", "--profile", "checked"], cwd=H, env=env, capture_output=True, text=True)
if r.returncode != 0:
    print("coverage build failed (skipped):", r.stderr[-500:]); sys.exit(0)
exe = os.path.join(TD, "checked", "gmverif")
props = sys.argv[1:] or ["C%02d" % i for i in range(1, 21)]
anchors = {}
for line in open(os.path.join(ROOT, "properties.jsonl")):
    p = json.loads(line); anchors[p["id"]] = p["anchors"]["files"]
os.makedirs(os.path.join(ROOT, "evidence", "reach"), exist_ok=True)
for pid in props:
    pd = os.path.join(TD, "prof", pid); shutil.rmtree(pd, ignore_errors=True); os.makedirs(pd)
    procs = []
    n = 8
    for i in range(n):
        e = dict(os.environ, LLVM_PROFILE_FILE=os.path.join(pd, "s%d.profraw" % i))
        procs.append(subprocess.Popen([exe, pid, "--tier", "quick", "--seed", "1", "--shard", f"{i}/{n}", "--profile", "cov", "--out", os.path.join(pd, f"o{i}.json")], env=e, stdout=subprocess.DEVNULL, stderr=subprocess.DEVNULL))
    for p in procs: p.wait()
    merged = os.path.join(pd, "m.profdata")
    subprocess.run([os.path.join(BIN, "llvm-profdata"), "merge", "-sparse", "-o", merged] + glob.glob(os.path.join(pd, "*.profraw")), check=True)
    ex = subprocess.run([os.path.join(BIN, "llvm-cov"), "export", "-format=text", "-instr-profile", merged, exe, "-ignore-filename-regex", r"(\.cargo|rustc|harness/src)"], capture_output=True, text=True)
    data = json.loads(ex.stdout)["data"][0]
    files = {}
    for f in data["files"]:
        fn = f["filename"]
        if "/repo/" not in fn: continue
        s = f["summary"]
        files[fn.split("/repo/")[1]] = {"lines": s["lines"]["count"], "lines_hit": s["lines"]["covered"], "functions": s["functions"]["count"], "functions_hit": s["functions"]["covered"]}
    unhit = {}
    for fu in data["functions"]:
        fns = [x for x in fu["filenames"] if "/repo/" in x]
        if not fns: continue
        rel = fns[0].split("/repo/")[1]
        name = fu["name"]
        # demangle lightly: keep the readable tail
        if fu["count"] == 0 and rel in anchors[pid] and "verif_hooks" not in rel and "test" not in name:
            unhit.setdefault(rel, set()).add(name)
    out = {"property": pid, "note": "auxiliary reach audit of the quick workload (non-deciding); instrumented nightly build",
           "anchor_files": {k: files.get(k) for k in anchors[pid]},
           "anchor_functions_not_reached": {k: sorted(v)[:60] for k, v in unhit.items()}}
    json.dump(out, open(os.path.join(ROOT, "evidence", "reach", pid + ".json"), "w"), indent=1)
    print(pid, {k: (v["functions_hit"], v["functions"], v["lines_hit"], v["lines"]) if v else None for k, v in out["anchor_files"].items()})
    for k, v in unhit.items():
        print("   not reached in", k, ":", len(v))
    shutil.rmtree(pd, ignore_errors=True)
