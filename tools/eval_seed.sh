#!/bin/bash
# usage: tools/eval_seed.sh <Cxx> <mN> <crate> [extra props to run...]
# confirm (scratch worktree) + run the property's quick check on /repo with the change applied + store under /verif/seeded
id="$1"; m="$2"; crate="$3"; shift 3
root=${SEEDROOT:-/tmp/seed}; tag=${SEEDTAG:-}; out=$root/$id/out/$m
c=$(/verif/tools/confirm_seed.sh $id $m $crate)
echo "$c"
r=$(/verif/tools/try_seed.sh $out/patch.diff quick $id "$@")
echo "$r"
dst=/verif/seeded/$id-$tag$m; mkdir -p $dst
cp $out/patch.diff $dst/patch.diff; cp $out/demo.rs $dst/demo.rs; cp $out/notes.md $dst/notes.md 2>/dev/null
python3 - "$id" "$tag$m" "$crate" "$c" "$r" <<'PY'
import json,sys,re
id,m,crate,c,r=sys.argv[1:6]
notes=open(f'/verif/seeded/{id}-{m}/notes.md').read() if True else ''
meta={
 "property": id, "mutant": m, "origin": "independent sub-agent given only the property text and a scratch worktree",
 "demo_crate": crate,
 "needs_to_manifest": notes.strip().split('\n')[0:12],
 "confirmed_in_scratch_worktree": c,
 "confirm_cmd": f"tools/confirm_seed.sh {id} {m} {crate}  (git apply; cargo test --workspace --offline --lib; demo as {crate}/tests/seed_demo.rs with and without the change)",
 "check_results_quick": r.strip().split('\n'),
 "detected_by": [l.split()[0] for l in r.strip().split('\n') if ' exit=1 ' in l],
}
json.dump(meta,open(f'/verif/seeded/{id}-{m}/meta.json','w'),indent=1)
PY
