#!/usr/bin/env python3
"""One-time generator of the frozen OpenSSL corpus for SM3 and SM4 (needs an `openssl` with SM3/SM4,
e.g. /root/miniconda/bin/openssl 3.5). Never run by a check: the JSON it writes is committed."""
import hashlib, json, os, random, subprocess, sys
OPENSSL = os.environ.get("OPENSSL", "/root/miniconda/bin/openssl")
rnd = random.Random(20261003)
def run(args, data=b""):
    return subprocess.run([OPENSSL] + args, input=data, capture_output=True, check=True).stdout
ver = run(["version"]).decode().strip()
# ---- SM3
sm3 = {"generator": ver, "vectors": []}
for n in range(0, 301):
    m = bytes(rnd.getrandbits(8) for _ in range(n))
    d = run(["dgst", "-sm3", "-binary"], m)
    assert d == hashlib.new("sm3", m).digest()
    sm3["vectors"].append({"msg": m.hex(), "digest": d.hex()})
for n in (511, 512, 513, 1000, 4095, 4096, 4097, 65535, 65536, 65537):
    m = bytes(rnd.getrandbits(8) for _ in range(n))
    sm3["vectors"].append({"msg": m.hex(), "digest": run(["dgst", "-sm3", "-binary"], m).hex()})
# big all-zero messages, hashed by streaming (no 512 MiB buffer in python)
big = {}
for name, n in (("2^29", 1 << 29), ("2^29+1", (1 << 29) + 1), ("2^30", 1 << 30), ("2^31", 1 << 31), ("2^32", 1 << 32)):
    h = hashlib.new("sm3"); chunk = bytes(1 << 24); left = n
    while left:
        k = min(left, len(chunk)); h.update(chunk[:k]); left -= k
    big[name] = {"len": n, "fill": 0, "digest": h.hexdigest()}
    print(name, h.hexdigest(), file=sys.stderr)
# cross-check the smallest one with the openssl CLI
p = subprocess.Popen([OPENSSL, "dgst", "-sm3", "-binary"], stdin=subprocess.PIPE, stdout=subprocess.PIPE)
chunk = bytes(1 << 24)
for _ in range((1 << 29) >> 24): p.stdin.write(chunk)
p.stdin.close(); assert p.stdout.read().hex() == big["2^29"]["digest"]
sm3["big_zero"] = big
json.dump(sm3, open("../corpus/sm3_openssl.json", "w"), indent=0)
# ---- SM4
sm4 = {"generator": ver, "ecb": [], "modes": []}
for i in range(400):
    key = bytes(rnd.getrandbits(8) for _ in range(16)); blk = bytes(rnd.getrandbits(8) for _ in range(16))
    if i < 8:
        key = bytes([0x00, 0xff][i & 1] for _ in range(16)); blk = bytes([0x00, 0xff][(i >> 1) & 1] for _ in range(16))
        if i >= 4: key = bytes(range(16)) if i & 1 else bytes(range(240, 256))
    ct = run(["enc", "-sm4-ecb", "-nopad", "-K", key.hex()], blk)
    assert len(ct) == 16
    sm4["ecb"].append({"key": key.hex(), "pt": blk.hex(), "ct": ct.hex()})
for mode in ("cbc", "cfb", "ofb", "ctr"):
    lens = list(range(0, 50)) + [63, 64, 65, 127, 128, 129, 255, 256, 257, 1000, 4096, 4099]
    for j, n in enumerate(lens):
        key = bytes(rnd.getrandbits(8) for _ in range(16)); iv = bytes(rnd.getrandbits(8) for _ in range(16))
        if mode == "ctr" and j % 5 == 0:
            k = 1 + (j // 5) % 16
            iv = iv[:16 - k] + b"\xff" * k      # carries through k bytes
        data = bytes(rnd.getrandbits(8) for _ in range(n))
        ct = run(["enc", "-sm4-" + mode, "-K", key.hex(), "-iv", iv.hex()], data)
        sm4["modes"].append({"mode": mode, "key": key.hex(), "iv": iv.hex(), "pt": data.hex(), "ct": ct.hex()})
json.dump(sm4, open("../corpus/sm4_openssl.json", "w"), indent=0)
print("done", len(sm3["vectors"]), len(sm4["ecb"]), len(sm4["modes"]), file=sys.stderr)
