#!/bin/bash
# usage: tools/try_seed.sh <patch.diff> <tier> <prop> [<prop>...]
# Applies a seeded change to the repository's working tree (/repo, or $GMRS_REPO inside an isolated copy made by
# tools/reeval_isolated.sh), runs the given checks, and ALWAYS restores the tree.
# Prints one line per check:  <prop> exit=<code>  [first VIOLATION signatures]
set -u
patch="$(readlink -f "$1")"; tier="$2"; shift 2
REPO=${GMRS_REPO:-/repo}
VROOT="$(cd "$(dirname "$0")/.." && pwd)"
cd "$REPO" || exit 9
if ! git diff --quiet; then echo "REFUSING: $REPO has uncommitted changes"; exit 9; fi
restore() { git -C "$REPO" checkout -- . ; }
trap restore EXIT
if ! git apply --whitespace=nowarn "$patch"; then echo "PATCH DOES NOT APPLY: $patch"; exit 8; fi
cd "$VROOT"
for p in "$@"; do
  out=$(./check "$p" "$tier" 2>&1); rc=$?
  sig=$(echo "$out" | grep -m3 "signature:" | sed 's/^ *signature: //' | tr '\n' '|' | cut -c1-300)
  inc=$(echo "$out" | grep -m1 "^INCONCLUSIVE" | cut -c1-200)
  echo "$p exit=$rc $sig $inc"
done
