#!/bin/bash
# usage: tools/try_seed.sh <patch.diff> <tier> <prop> [<prop>...]
# Applies a seeded change to /repo's working tree, runs the given checks, and ALWAYS restores /repo.
# Prints one line per check:  <prop> exit=<code>  [first VIOLATION signature]
set -u
patch="$1"; tier="$2"; shift 2
cd /repo || exit 9
if ! git diff --quiet; then echo "REFUSING: /repo has uncommitted changes"; exit 9; fi
restore() { git -C /repo checkout -- . ; }
trap restore EXIT
if ! git apply --whitespace=nowarn "$patch"; then echo "PATCH DOES NOT APPLY: $patch"; exit 8; fi
cd /verif
for p in "$@"; do
  out=$(./check "$p" "$tier" 2>&1); rc=$?
  sig=$(echo "$out" | grep -m3 "signature:" | sed 's/^ *signature: //' | tr '\n' '|' | cut -c1-300)
  inc=$(echo "$out" | grep -m1 "^INCONCLUSIVE" | cut -c1-200)
  echo "$p exit=$rc $sig $inc"
done
