#!/bin/bash
# usage: tools/try_seed.sh <patch.diff> <tier> <prop> [<prop>...]
# Applies a seeded change to the repository's working tree (/repo, or $GMRS_REPO inside an isolated copy made by
# tools/reeval_isolated.sh), runs the given checks, and ALWAYS restores the tree.
# Prints one line per check:  <prop> exit=<code>  [first VIOLATION signatures]
set -u
patch="$(readlink -f "$1")"; tier="$2"; shift 2
REPO=${GMRS_REPO:-/repo}
VROOT="$(cd "$(dirname "$0")/.." && pwd)"
cd "$REPO" || exit 9
if ! git diff --quiet; then echo "REFUSING: $REPO has uncommitted changes"; exit 9; fi
restore() { git -C "$REPO" checkout -- . ; }
trap restore EXIT
if ! git apply --whitespace=nowarn "$patch"; then echo "PATCH DOES NOT APPLY: $patch"; exit 8; fi
cd "$VROOT"
for p in "$@"; do
  # evidence written while a seeded change is applied must not replace the evidence of the unchanged tree
  sav=$(mktemp -d); cp -a evidence/$p.json $sav/ 2>/dev/null; [ -d evidence/replay/$p ] && cp -a evidence/replay/$p $sav/replay
  out=$(./check "$p" "$tier" 2>&1); rc=$?
  rm -rf evidence/replay/$p; [ -d $sav/replay ] && cp -a $sav/replay evidence/replay/$p
  [ -f $sav/$p.json ] && cp -a $sav/$p.json evidence/$p.json; rm -rf $sav
  sig=$(echo "$out" | grep -m3 "signature:" | sed 's/^ *signature: //' | tr '\n' '|' | cut -c1-300)
  inc=$(echo "$out" | grep -m1 "^INCONCLUSIVE" | cut -c1-200)
  echo "$p exit=$rc $sig $inc"
done
