#!/bin/bash
# usage (from a snapshot of /verif made by `vp run --with-repo -- tools/isolated.sh <command...>`):
# points THIS copy of /verif at the repository copy $VP_RUN_REPO (harness path dependencies and Cargo.lock source are
# rewritten in this copy only), builds, and runs <command...> with GMRS_REPO set. /repo and /verif are not touched,
# so seeds can be applied to /repo meanwhile. Output of such runs is a report, never evidence.
set -eu
VROOT="$(cd "$(dirname "$0")/.." && pwd)"
REPO=${VP_RUN_REPO:?needs a scratch copy of the repository in VP_RUN_REPO}
case "$VROOT" in /verif) echo "refusing to rewrite /verif itself"; exit 9;; esac
sed -i "s#\"/repo/#\"$REPO/#" $VROOT/harness/Cargo.toml
sed -i "s#\"/repo/Cargo.lock\"#\"$REPO/Cargo.lock\"#g" $VROOT/check
export GMRS_REPO=$REPO
cd $VROOT
./check build
exec "$@"
