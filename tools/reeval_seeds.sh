#!/bin/bash
# usage: tools/reeval_seeds.sh [tier] [glob]   (default: quick, all C??-* seeds)
# Applies every stored seeded change in turn to the repository's working tree, runs the OWN property's check,
# restores the tree (VERIF_SEED is honoured and then appended to the file name). Writes seeded/REEVAL.<tier>[.s<seed>].txt : one line per seed "<seed> <prop> exit=<rc> <first signatures>".
tier=${1:-quick}; glob=${2:-C??-*}
VROOT="$(cd "$(dirname "$0")/.." && pwd)"
out=$VROOT/seeded/REEVAL.$tier${VERIF_SEED:+.s$VERIF_SEED}.txt; : > $out
for d in $VROOT/seeded/$glob; do
  s=$(basename $d); prop=${s%%-*}
  r=$($VROOT/tools/try_seed.sh $d/patch.diff $tier $prop 2>&1 | tail -1)
  echo "$s $r" | cut -c1-260 | tee -a $out
done
echo "# missed: $(grep -c 'exit=0' $out)  other: $(grep -vc 'exit=[01] ' $out)" | tee -a $out
