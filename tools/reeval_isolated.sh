#!/bin/bash
# usage: vp run --with-repo -- tools/reeval_isolated.sh [tier] [glob]
# Re-evaluates the stored seeded changes WITHOUT touching /repo (see tools/isolated.sh).
# Results: seeded/REEVAL.<tier>.txt inside the snapshot (copy it back by hand; it is a report, not evidence).
exec "$(dirname "$0")/isolated.sh" tools/reeval_seeds.sh "${1:-quick}" "${2:-C??-*}"
