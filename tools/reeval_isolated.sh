#!/bin/bash
# usage (from a snapshot of /verif, e.g. `vp run --with-repo -- tools/reeval_isolated.sh quick`):
#   tools/reeval_isolated.sh [tier] [glob]
# Re-evaluates the stored seeded changes WITHOUT touching /repo: the copy of /verif this script lives in is pointed at
# the repository copy $VP_RUN_REPO (harness path dependencies and Cargo.lock source rewritten in this copy only).
# Results: seeded/REEVAL.<tier>.txt inside this copy (copy it back by hand; it is a report, not evidence).
set -eu
VROOT="$(cd "$(dirname "$0")/.." && pwd)"
REPO=${VP_RUN_REPO:?needs a scratch copy of the repository in VP_RUN_REPO}
case "$VROOT" in /verif) echo "refusing to rewrite /verif itself"; exit 9;; esac
sed -i "s#\"/repo/#\"$REPO/#" $VROOT/harness/Cargo.toml
sed -i "s#\"/repo/Cargo.lock\"#\"$REPO/Cargo.lock\"#g" $VROOT/check
export GMRS_REPO=$REPO
cd $VROOT
./check build
exec tools/reeval_seeds.sh "${1:-quick}" "${2:-C??-*}"
