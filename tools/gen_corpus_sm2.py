#!/usr/bin/env python3
"""One-time generator of the frozen OpenSSL SM2 corpus (keys, signatures, ciphertexts, PEM/DER documents).
Needs an `openssl` with SM2 (e.g. /root/miniconda/bin/openssl 3.5). Never run by a check."""
import base64, json, os, random, re, subprocess, sys, tempfile
OPENSSL = os.environ.get("OPENSSL", "/root/miniconda/bin/openssl")
rnd = random.Random(20261004)
T = tempfile.mkdtemp(prefix="gmcorpus")
def run(args, data=b""):
    p = subprocess.run([OPENSSL] + args, input=data, capture_output=True)
    if p.returncode != 0:
        raise RuntimeError(" ".join(args) + "\n" + p.stderr.decode())
    return p.stdout
def der_items(b):
    """parse one level of DER TLVs -> list of (tag, value)"""
    out = []; i = 0
    while i < len(b):
        tag = b[i]; l = b[i + 1]; i += 2
        if l & 0x80:
            n = l & 0x7f; l = int.from_bytes(b[i:i + n], "big"); i += n
        out.append((tag, b[i:i + l])); i += l
    return out
def pem_body(pem):
    return base64.b64decode(b"".join(l for l in pem.splitlines() if not l.startswith(b"-----")))
ver = run(["version"]).decode().strip()
out = {"generator": ver, "keys": [], "signatures": [], "ciphertexts": []}
nkeys = 24
for i in range(nkeys):
    kf = os.path.join(T, f"k{i}.pem")
    run(["genpkey", "-algorithm", "SM2", "-out", kf])
    p8_pem = run(["pkcs8", "-topk8", "-nocrypt", "-in", kf])
    p8_der = run(["pkcs8", "-topk8", "-nocrypt", "-in", kf, "-outform", "DER"])
    pub_pem = run(["pkey", "-in", kf, "-pubout"])
    pub_der = run(["pkey", "-in", kf, "-pubout", "-outform", "DER"])
    txt = run(["pkey", "-in", kf, "-text", "-noout"]).decode()
    priv = re.search(r"priv:\s*((?:[0-9a-f]{2}:?\s*)+)", txt).group(1)
    pub = re.search(r"pub:\s*((?:[0-9a-f]{2}:?\s*)+)", txt).group(1)
    d = bytes.fromhex(re.sub(r"[^0-9a-f]", "", priv)); d = d[-32:].rjust(32, b"\0")
    q = bytes.fromhex(re.sub(r"[^0-9a-f]", "", pub))
    assert len(q) == 65 and q[0] == 4
    pubf = os.path.join(T, f"p{i}.pem"); open(pubf, "wb").write(pub_pem)
    out["keys"].append({"d": d.hex(), "pub": q.hex(), "pkcs8_pem": p8_pem.decode(), "pkcs8_der": p8_der.hex(),
                        "spki_pem": pub_pem.decode(), "spki_der": pub_der.hex()})
    # signatures: default distid and explicit ones
    for j in range(6):
        n = rnd.choice([0, 1, 13, 32, 55, 64, 100, 1000]) if j else 14
        msg = bytes(rnd.getrandbits(8) for _ in range(n)) if j else b"message digest"
        idv = "1234567812345678" if j % 2 == 0 else "".join(rnd.choice("abcdefghijklmnopqrstuvwxyz0123456789@.") for _ in range(rnd.choice([1, 5, 16, 31, 64])))
        mf = os.path.join(T, "m"); open(mf, "wb").write(msg)
        sig = run(["pkeyutl", "-sign", "-rawin", "-digest", "sm3", "-inkey", kf, "-in", mf, "-pkeyopt", "distid:" + idv])
        seq = der_items(sig); assert seq[0][0] == 0x30
        r, s = [int.from_bytes(v, "big") for _, v in der_items(seq[0][1])]
        rs = r.to_bytes(32, "big") + s.to_bytes(32, "big")
        # OpenSSL must accept its own
        sf = os.path.join(T, "s"); open(sf, "wb").write(sig)
        run(["pkeyutl", "-verify", "-rawin", "-digest", "sm3", "-pubin", "-inkey", pubf, "-in", mf, "-sigfile", sf, "-pkeyopt", "distid:" + idv])
        out["signatures"].append({"d": d.hex(), "id": idv, "msg": msg.hex(), "sig_der": sig.hex(), "sig_rs": rs.hex()})
    # ciphertexts (GM/T 0009 SM2Cipher DER)
    for j in range(6):
        n = rnd.choice([1, 2, 16, 31, 32, 33, 64, 100, 255, 1000])
        msg = bytes(rnd.getrandbits(8) for _ in range(n))
        if j == 0: msg = b"encryption standard"
        if j == 1: msg = bytes(n)
        mf = os.path.join(T, "m"); open(mf, "wb").write(msg)
        ct = run(["pkeyutl", "-encrypt", "-pubin", "-inkey", pubf, "-in", mf])
        seq = der_items(ct); items = der_items(seq[0][1])
        assert [t for t, _ in items] == [2, 2, 4, 4]
        x = int.from_bytes(items[0][1], "big"); y = int.from_bytes(items[1][1], "big")
        c3 = items[2][1]; c2 = items[3][1]; assert len(c3) == 32 and len(c2) == len(msg)
        out["ciphertexts"].append({"d": d.hex(), "msg": msg.hex(), "der": ct.hex(), "c1x": "%064x" % x, "c1y": "%064x" % y,
                                   "c3": c3.hex(), "c2": c2.hex()})
json.dump(out, open("../corpus/sm2_openssl.json", "w"), indent=0)
print(len(out["keys"]), len(out["signatures"]), len(out["ciphertexts"]), file=sys.stderr)
