HOOK_COMMITS = ["5725d8a", "72fc8af", "02a3b0a", "612d0fb", "b86372f", "85d33e5"]

TEXT = {
    "C01": {
        "level_text": "Held on every monitored sm3_hash call of a sweep that covers every length 0..=4096 in four content classes, every single-bit message over three blocks, random multi-block messages, lengths 2^k + r for every r in 0..=64 at k = 16, 20, 24 (thorough: also 13, 22, 26, 28), a 2^29-byte message (thorough: up to 2^32 bytes) each followed at once by short messages of every padding shape, and purity re-hashes; each digest compared with an independent streaming SM3 and frozen OpenSSL digests. Exploration is the right level: the input space is unbounded and the function has no state to model.",
        "design_ref": "DESIGN.md section 6 C01",
        "level_note": "Trusted: reference SM3 (anchored by standard KATs + OpenSSL corpus on every run). Not covered: messages >= 128 GiB.",
        "technique": "runtime differential monitor against reference SM3 + frozen OpenSSL corpus",
    },
    "C02": {
        "level_text": "Held on every monitored block encrypt/decrypt of structured and random (key, block) pairs, an OpenSSL ECB corpus, all 256 S-box indices per byte lane, and long interleaved encrypt/decrypt histories on single cipher objects and their clones with failing calls of either direction in between, each compared with an independent SM4 (algebraically derived S-box).",
        "design_ref": "DESIGN.md section 6 C02",
        "level_note": "Trusted: reference SM4 (standard example, 10^6 iterate, 400 OpenSSL vectors re-checked on every run).",
        "technique": "runtime differential monitor + call-history monitor on shared cipher objects",
    },
    "C07": {
        "level_text": "Held on every monitored mode encrypt/decrypt: every data length 0..=200 in each mode, counter-carry IVs through 1..16 bytes and wrap-around, random data up to 64 KiB, OpenSSL corpus; error cases (IV length != 16, CBC length not a positive multiple of 16, every final plaintext byte 0..=255) must yield Err.",
        "design_ref": "DESIGN.md section 6 C07",
        "level_note": "Trusted: reference modes over the reference block cipher, anchored by 248 OpenSSL vectors per run.",
        "technique": "runtime differential monitor against reference modes + outcome-class monitor for error cases",
    },
    "C08": {
        "level_text": "Held on every monitored generator history: official vectors, structured and random keys/IVs, all 4095 compositions of <= 12 words (exhaustive) with zero-length requests at every position, random splits of streams up to 2^16 (thorough 2^20) words, single requests at powers of two up to 2^24 + 1 words, and crafted key/IVs that hit the LFSR feedback = 0 rule in initialisation and in work mode.",
        "design_ref": "DESIGN.md section 6 C08",
        "level_note": "Trusted: reference ZUC (official vectors per run); S0 is a frozen table copy validated by those vectors.",
        "technique": "runtime history monitor: request sequences checked word-by-word against a reference stream",
    },
    "C18": {
        "level_text": "Held on every monitored EEA3/EIA3 call: every LENGTH 0..=600 with rotating bearer/direction, all 32 bearers x 2 directions, random lengths to 65504 and beyond, involution check, MAC sensitivity to bits inside LENGTH and insensitivity beyond.",
        "design_ref": "DESIGN.md section 6 C18",
        "level_note": "Trusted: bit-serial reference EIA3 / EEA3 on the reference ZUC, anchored by the 3GPP test sets per run.",
        "technique": "runtime differential monitor against reference EEA3/EIA3",
    },
}

TEXT.update({
    "C03": {
        "level_text": "Held on every monitored sign/verify: byte-exact equality with an independent GB/T 32918.2 signer for injected nonces (incl. the GM/T 0003.5 example and crafted e >= n digests), range + cross-verification + nonce-used==nonce-drawn for free nonces, acceptance of reference-made and OpenSSL-made signatures, ID length limits, messages up to 2^29 bytes (SM3 bit length beyond 32 bits). Histories: opposite keys d and n - d with one ID used alternately, a valid call right after a refused call.",
        "design_ref": "DESIGN.md section 6 C03",
        "level_note": "Trusted: affine BigUint SM2 reference (Annex-anchored), OpenSSL corpus, RNG hook. Retry branches unreachable.",
        "technique": "runtime differential monitor with RNG-hook nonce injection + cross-verification",
    },
    "C04": {
        "level_text": "Fault enumeration over the mutated-signature space of many valid signatures: every bit flip (exhaustive per sample), boundary substitutions, modular aliases (crafted s+n), altered message/ID/key, every encoding length 0..=130, a 2^29-byte message; the library must never accept what the reference verifier rejects and must never panic. A signature made by n - d over the other key's ZA offered under -P right after a verification under P.",
        "design_ref": "DESIGN.md section 6 C04",
        "level_note": "Trusted: reference verifier. One-sided rule except for the untouched signature. t=0 clause undecidable (stated).",
        "technique": "runtime fault-injection monitor on signature bytes with reference-verifier oracle",
    },
    "C05": {
        "level_text": "Held on every monitored encrypt/decrypt/kdf: exact ciphertext equality with the reference for injected k in all four layouts over every length 1..=300, interop both ways with the reference and with OpenSSL ciphertexts, KDF equality for every klen 1..=1100. Histories: opposite recipient keys alternately on one thread; a message of 2^24 + 1 bytes.",
        "design_ref": "DESIGN.md section 6 C05",
        "level_note": "Trusted: reference PKE/KDF (Annex-anchored), OpenSSL corpus, RNG hook.",
        "technique": "runtime differential monitor with RNG-hook k injection + interop corpus",
    },
    "C06": {
        "level_text": "Fault enumeration per sample ciphertext: all bit flips and truncations (exhaustive), all illegal PC bytes, and crafted C1 points with valid tags so that only point validation can reject; Ok is allowed only for the untouched ciphertext.",
        "design_ref": "DESIGN.md section 6 C06",
        "level_note": "Trusted: reference group law (a-only formulas) used to craft tags; rule is 'Ok only for the original'.",
        "technique": "runtime fault-injection monitor on ciphertext bytes incl. key-assisted crafted invalid points",
    },
    "C11": {
        "level_text": "Held on every monitored field/point/scalar-mul call against affine big-integer arithmetic: boundary and crafted operands for all field functions, the complete fixed-base table (exhaustive), all representation classes of the group law, crafted scalars (n+j sweep). Related operands: -P stored as (X, Y, -Z) right after P, two points with the same stored Z.",
        "design_ref": "DESIGN.md section 6 C11",
        "level_note": "Trusted: BigUint arithmetic; library internals reached through cfg(gm_rs_verif) wrappers.",
        "technique": "runtime differential monitor of arithmetic calls against big-integer reference (table part exhaustive)",
    },
})

TEXT.update({
    "C09": {
        "level_text": "Held on every monitored SM9 sign/verify: exact (h,S) equality with an independent pairing-based signer (incl. the Annex example), acceptance both ways, and the forged-signature space of sample signatures (all bit flips, boundary h incl. N-1, N, 2^256-1, off-curve/infinite S) rejected with Err and never a panic.",
        "design_ref": "DESIGN.md section 6 C09",
        "level_note": "Trusted: textbook SM9 reference (Annex-anchored), RNG hook.",
        "technique": "runtime differential monitor with RNG-hook r injection + fault injection on (h,S)",
    },
    "C10": {
        "level_text": "Held on every monitored SM9 encrypt/decrypt for all message lengths 1..=255: exact ciphertext equality with the reference (incl. the Annex example), interop both ways, and tamper evidence over all bit flips/truncations plus crafted invalid C1 with valid tags. Encryption under opposite master keys alternately; C3 tampered with one mask on bytes 4 / 8 / 16 / 24 apart.",
        "design_ref": "DESIGN.md section 6 C10",
        "level_note": "Trusted: textbook SM9 reference; crafted tags use the library's own pairing wrapper (hook) on the invalid input.",
        "technique": "runtime differential monitor with RNG-hook r injection + ciphertext fault injection",
    },
    "C17": {
        "level_text": "Held on every monitored key-exchange history: all exchanged values and both derived keys equal the reference's GM/T 0044.3 values (incl. the Annex example), off-curve R rejected, tampered R makes the keys differ; histories alternate master keys ke and N - ke on one thread.",
        "design_ref": "DESIGN.md section 6 C17",
        "level_note": "Trusted: textbook SM9 reference; RNG hook.",
        "technique": "runtime history monitor of the 3-step protocol against a reference run, with in-transit tampering",
    },
})

TEXT.update({
    "C12": {
        "level_text": "Held on every monitored pairing evaluation: exact 384-byte equality with an independent textbook pairing (generic Miller loop over Fp[w]/(w^12+2), final exponent (p^12-1)/N) incl. the Annex value, inputs with Z != 1 and consecutive calls on opposite points that share stored X, Y (Z negated) against the stored generators, plus bilinearity / non-degeneracy / order identities on many more pairs.",
        "design_ref": "DESIGN.md section 6 C12",
        "level_note": "Trusted: textbook pairing reference anchored by GM/T 0044.5 values and by its own plain-exponent final exponentiation self-test.",
        "technique": "runtime differential monitor of pairing values against a textbook reference + algebraic identity monitors",
    },
    "C13": {
        "level_text": "Held on every monitored tower / mod-N / group operation against polynomial-basis and big-integer arithmetic; zero-component subsets, Booth digits and both fixed-base tables are enumerated exhaustively. One known finding (G2 point_equals ignores y) is recorded, not repaired. Related operands: -P stored as (X, Y, -Z) right after P, two points with the same stored Z, P + (zeta x, y).",
        "design_ref": "DESIGN.md section 6 C13",
        "level_note": "Trusted: Fp[w]/(w^12+2) schoolbook arithmetic and affine group law in BigUint; library internals via cfg(gm_rs_verif) constructors.",
        "technique": "runtime differential monitor of arithmetic calls against polynomial-basis reference (finite sub-spaces exhaustive)",
    },
    "C16": {
        "level_text": "Held on every monitored hash-to-range reduction (crafted quotient-edge inputs), H1/H2 evaluation and key extraction (incl. the failure case H1+k=0 and its neighbours, Annex keys) against big-integer reduction and the reference group law. Consecutive H1 / H2 calls on equal-length inputs that differ in one byte.",
        "design_ref": "DESIGN.md section 6 C16",
        "level_note": "Trusted: BigUint reduction, reference SM3, reference G1/G2.",
        "technique": "runtime differential monitor with crafted boundary inputs",
    },
})

TEXT.update({
    "C15": {
        "level_text": "Held on every monitored four-step key-agreement history: all exchanged and derived values equal an independent GB/T 32918.3 run (incl. the GM/T 0003.5 example), honest runs agree with both confirmations true, and for all 16 tamper subsets x 4 kinds the party predicted by the reference history rejects. Opposite static keys with one identity; replays of steps 3 and 4 with an altered message after an honest run.",
        "design_ref": "DESIGN.md section 6 C15",
        "level_note": "Trusted: affine BigUint SM2 reference; RNG hook; hook accessor for the crate-private derived key.",
        "technique": "runtime history monitor of the 4-step protocol against a reference run, with in-transit tampering of every message subset",
    },
})

TEXT.update({
    "C14": {
        "level_text": "Held on every monitored invocation of the 13 randomised call sites: hook-observed scalars in range, used == drawn (reference recomputation), no repetition across calls, threads (SM2 nonces and SM9 master keys on 8 threads and the spawning thread) and processes, 8-sigma per-bit statistics against the exact uniform expectation, and fault injection of out-of-range candidates at the RNG byte source.",
        "design_ref": "DESIGN.md section 6 C14",
        "level_note": "Trusted: RNG hook placement (after fill_bytes, before the range test), references for recomputation. 'OS-seeded' only observable indirectly.",
        "technique": "runtime monitor on hooked RNG state: range / used==drawn / duplicate / bit-frequency monitors + fault injection at the byte source",
    },
})

TEXT.update({
    "C19": {
        "level_text": "Held on every monitored encoder/decoder call: all key forms round-trip to the reference key, DER output equals an independent DER writer and OpenSSL's bytes, OpenSSL documents decode, the ASN.1 ciphertext is exactly the GM/T 0009 SEQUENCE for injected ephemeral scalars (incl. crafted zero-byte coordinates), and invalid encodings are rejected by every decoder.",
        "design_ref": "DESIGN.md section 6 C19",
        "level_note": "Trusted: own DER reader/writer (cross-checked with OpenSSL), reference SM2, RNG hook.",
        "technique": "runtime differential monitor of codecs against an independent DER implementation + OpenSSL corpus + rejection monitor",
    },
    "C20": {
        "level_text": "Fault enumeration over lengths, truncations, byte corruptions, crafted documents, ciphertext bodies beyond 2^16 / 2^21 / 2^24 bytes and boundary keys at every listed entry point, each call under panic capture, an RNG-draw step limit and a shard watchdog, in both build profiles; one known finding (mod_n_from_hash on < 40 bytes panics, no error channel) is recorded.",
        "design_ref": "DESIGN.md section 6 C20",
        "level_note": "Outcome-class oracle only (Ok/Err vs panic/step-limit/abort); says nothing about the returned values (other properties do).",
        "technique": "runtime outcome-class monitor under panic capture, RNG step counter and watchdog; call/return journal for abort attribution",
    },
})

NOT_APPLICABLE = []
