"""Per-property configuration of the driver: claimed level, generation rule (what makes a case distinct and
non-trivial), trusted base, build profiles per tier."""

# both build profiles in both tiers: debug_assert!/overflow-check differences flip verdicts in either direction
BOTH = {"quick": ["checked", "release"], "thorough": ["checked", "release"]}
BASE_ASSUME = [
    "executions, not proofs: the claim is 'held on the monitored executions listed under coverage'",
    "harness built from /repo's working tree with --cfg gm_rs_verif; profile 'checked' = opt-level 3 + overflow-checks + debug-assertions, 'release' = plain release",
]

PROPS = {
    "C01": {
        "level": "exploration",
        "profiles": BOTH,
        "rule": "every gm_sm3::sm3_hash call of the workload is compared with a streaming reference SM3 (and with frozen OpenSSL digests for the corpus); "
                "a case is distinct by (message bytes) and non-trivial always (each message is a different input of the hash); classes count len mod 64, padding branch, block count, bit length >= 2^32, purity re-hash",
        "assumptions": BASE_ASSUME + [
            "reference SM3 written from GB/T 32905 and anchored per run by the standard's two examples and 311 OpenSSL 3.5.6 digests + big-message digests (frozen corpus)",
            "length-field bytes 5..7 (>= 128 GiB messages) are not exercised",
        ],
    },
    "C02": {
        "level": "exploration",
        "profiles": BOTH,
        "rule": "every Sm4Cipher::new/encrypt/decrypt call is compared with a reference SM4 whose S-box is computed algebraically; a case is distinct by (key, block, direction); "
                "histories drive one cipher object (and clones) through interleaved encrypt/decrypt with chained inputs",
        "assumptions": BASE_ASSUME + [
            "reference SM4 anchored per run by the GB/T 32907 example, its 10^6-fold iterate and 400 OpenSSL ECB vectors",
        ],
    },
    "C07": {
        "level": "exploration",
        "profiles": BOTH,
        "rule": "every Sm4CipherMode encrypt/decrypt call is compared with reference CBC-PKCS7/CFB-128/OFB/CTR over the reference block cipher; distinct by (mode, key, iv, data); "
                "error cases must return Err (not panic, not Ok); CBC unpadding is judged on the final byte only (a stricter decryptor may reject inconsistent padding)",
        "assumptions": BASE_ASSUME + [
            "reference modes anchored per run by 248 OpenSSL vectors (cbc/cfb/ofb/ctr, incl. counter carries)",
        ],
    },
    "C08": {
        "level": "exploration",
        "profiles": BOTH,
        "rule": "each generator history (ZUC::new, then a sequence of generate_keystream(n)) is compared word by word with the reference stream sliced at the same offsets; "
                "distinct by (key, iv, request sequence); all 4095 compositions of totals <= 12 are enumerated, each also with a zero-length request at every position",
        "assumptions": BASE_ASSUME + [
            "reference ZUC anchored by the four official vectors (incl. z2000) ; S0 is a frozen table, S1 is computed algebraically, D from the specification",
            "LFSR feedback = 0 witnesses (init and work mode) come from a one-time search with the reference and are re-confirmed by the reference on every run",
        ],
    },
    "C18": {
        "level": "exploration",
        "profiles": BOTH,
        "rule": "every EEA::encrypt / EIA::gen_mac call is compared with reference EEA3/EIA3 built on the reference ZUC; distinct by (key, count, bearer, direction, length, message); "
                "classes count length mod 32, direction, bearer, flips inside/beyond LENGTH",
        "assumptions": BASE_ASSUME + [
            "reference anchored by EEA3 test set 1 and EIA3 test sets 1, 2, 3 (577-bit) of the 3GPP document",
            "LENGTH within 31 of 2^32 is outside the specified domain and not claimed",
        ],
    },
}

SM2_ASSUME = BASE_ASSUME + [
    "reference SM2 = affine BigUint arithmetic written from GB/T 32918, anchored per run by the GM/T 0003.5 Annex examples (public key, signature r/s, ciphertext C1/C3/C2, key agreement K/S_B/S_A)",
    "random scalars of the library are observed / overridden through the cfg(gm_rs_verif) hook at the RNG byte source",
]

PROPS.update({
    "C03": {
        "level": "exploration",
        "profiles": BOTH,
        "rule": "Sm2PrivateKey::sign / Sm2PublicKey::verify calls over edge and random keys, default/explicit/empty/long IDs, message lengths 0..4096: with an injected nonce the 64 bytes must equal the reference signer's; with a free nonce r,s in [1,n-1], library and reference verifiers accept, and the nonce recovered with d equals the hook-observed draw; reference-made and OpenSSL-made signatures must be accepted. Distinct by (d, id, msg, k) or by signature bytes",
        "assumptions": SM2_ASSUME + ["OpenSSL 3.5.6 signature corpus (144 signatures, default and explicit distid) frozen in /verif/corpus", "retry branches of signing (r=0, r+k=n, s=0) are unreachable without a hash preimage"],
    },
    "C04": {
        "level": "fault_enumeration",
        "profiles": BOTH,
        "rule": "per valid signature (reference-made, OpenSSL-made, crafted small-s): all 512 single-bit flips, r/s substitutions {0,1,n-1,n,n+1,2^256-1}, s=n-r, swap, +n aliases, changed message/ID/key, every length 0..=130, random pairs; verify must return Err whenever the reference verifier rejects (reference consulted only when the library accepts) and for every non-64-byte input; a panic is a violation. Distinct by (fault class, signature bytes, message, id, key)",
        "assumptions": SM2_ASSUME + ["the t = r+s = 0 test and the r >= n test are observationally redundant on constructible inputs (stated in notes)"],
    },
    "C05": {
        "level": "exploration",
        "profiles": BOTH,
        "rule": "Sm2PublicKey::encrypt / Sm2PrivateKey::decrypt / util::kdf over all message lengths 1..=300 x 2 orders x 2 encodings, longer messages to 2^16, zero/leading-zero messages: injected k -> ciphertext equals the reference byte for byte; free k -> reference decrypts, C1 = [k]G for the drawn k; reference-made and OpenSSL-made ciphertexts decrypt; kdf(z,klen) equals reference for klen 1..=1100. Distinct by ciphertext bytes / (z, klen)",
        "assumptions": SM2_ASSUME + ["OpenSSL SM2Cipher corpus (144 documents) re-framed into the four raw layouts by the harness"],
    },
    "C06": {
        "level": "fault_enumeration",
        "profiles": BOTH,
        "rule": "per sample ciphertext (4 layouts): every single-bit flip, every truncation, every illegal point-format byte, C1 replaced by off-curve / invalid-curve / >=p-aliased / non-residue points carrying a tag that a check-less decryptor would accept (crafted with the private key), substituted C1, zeroed C3, other component order; decrypt may return Ok only for the untouched ciphertext. Distinct by (fault class, tampered bytes, key, layout)",
        "assumptions": SM2_ASSUME,
    },
    "C11": {
        "level": "exploration",
        "profiles": BOTH,
        "rule": "field functions (fp/fn add, sub, mul, sqr, double, triple, neg, div2, inv, pow, sqrt, Montgomery conversions, u256/u512 primitives) on boundary-limb, near-modulus, crafted-product and random operands vs BigUint; all 32x255 table entries and single-byte scalars (exhaustive); group law on re-randomised Jacobian representations incl. P=Q same/different Z, P=-Q, infinity forms; scalars 0,1,2,n-1,n,n+1,n+j (j<=300),2^256-1,nibbles,random. Distinct by operand values",
        "assumptions": SM2_ASSUME + ["affine conversion of the point at infinity is unspecified and excluded"],
    },
})

SM9_ASSUME = BASE_ASSUME + [
    "reference SM9 = textbook pairing over Fp[w]/(w^12+2) and affine G1/G2 in BigUint, anchored per run by the GM/T 0044.5 Annex values (Ppub-s, g = e(P1,Ppub-s), (h,S), C1/C3/C2, SK)",
    "random scalars of the library are observed / overridden through the cfg(gm_rs_verif) hook at the RNG byte source",
]

PROPS.update({
    "C09": {
        "level": "exploration",
        "profiles": BOTH,
        "rule": "extract_key / sign / verify_sign over edge and random master keys, identities of 0..64 bytes, messages of 0..1024 bytes: (h,S) must equal the reference's for the scalar that was drawn or injected; library verifier accepts; reference-made signatures accepted; per forged sample all 256+512 bit flips of (h,S), boundary h, substituted / off-curve / infinite S, changed message/identity/master key must give Err (reference consulted only when the library accepts). Distinct by (h, S, id, msg, ks)",
        "assumptions": SM9_ASSUME,
    },
    "C10": {
        "level": "exploration",
        "profiles": BOTH,
        "rule": "encrypt / extract_key / decrypt for every message length 1..=255: C1||C3||C2 must equal the reference's for the drawn/injected r (MAC = SM3(C2||K2)); round trip; reference-made ciphertexts decrypt; per tamper sample every bit flip and truncation, changed identity, crafted C1 ((0,0), off-curve, illegal PC byte) with a tag computed from the library's own pairing on that input, substituted C1, zeroed C3: Ok only for the untouched ciphertext. Distinct by ciphertext bytes",
        "assumptions": SM9_ASSUME + ["non-canonical encodings x+p of a valid C1 are not crafted with a matching tag (an attacker cannot compute w; plain substitutions are covered by the bit flips)"],
    },
    "C17": {
        "level": "exploration",
        "profiles": BOTH,
        "rule": "three-step histories exch_step_1a -> 1b -> 2a with injected rA, rB: R_A, R_B, SK_B, SK_A must equal the reference's for what each side saw; honest runs end with equal keys of klen bytes; off-curve R is rejected by the receiving side; substituted / negated / on-curve-bit-flipped R makes the keys differ. Distinct by (ke, ids, klen, rA, rB, tamper kind)",
        "assumptions": SM9_ASSUME + ["tampering verdicts use klen >= 8 so that a chance collision has probability <= 2^-64"],
    },
})

PROPS.update({
    "C12": {
        "level": "exploration",
        "profiles": BOTH,
        "rule": "sm9_u256_pairing (via hook) on ([a]P1,[b]P2), a,b in {1,2,3,N-2,N-1,random}, inputs affine and re-randomised Jacobian (Z in Fp resp. Fp2 incl. Z=u): the 384-byte value must equal the reference textbook pairing; the Annex value of e(P1,Ppub-s); bilinearity e([a]P1,[b]P2) = e(P1,P2)^(ab), non-degeneracy and order N evaluated in the library on many more pairs. Distinct by (a, b, Z1, Z2)",
        "assumptions": SM9_ASSUME,
    },
    "C13": {
        "level": "exploration",
        "profiles": BOTH,
        "rule": "Fp/Fp2/Fp4/Fp12 trait methods and crate-private helpers (via hook) on elements with every subset of zero components (4, 16, 4096: exhaustive) and boundary/random coefficients, compared after embedding into Fp[w]/(w^12+2); mod-N add/sub/mul/inv/pow vs BigUint; Booth digit for every (window, pattern) of the 5- and 7-bit recodings (exhaustive) + recomposition; all 37x64 table entries and their scalars through Point::g_mul (exhaustive); G1/G2 add (mixed/full), double, neg, sub, mul, equality, curve membership, Frobenius-twist maps on re-randomised Jacobian representations incl. P=Q different Z, P=-Q, infinity forms. Distinct by operand values",
        "assumptions": SM9_ASSUME + ["inverse of zero and affine conversion of infinity are unspecified and excluded"],
    },
    "C16": {
        "level": "exploration",
        "profiles": BOTH,
        "rule": "mod_n_from_hash on Ha = q(N-1)+r for r in {0,1,2,N-3,N-2} and boundary/random q (quotient-estimate edge), top-limb-ones, all-FF, small, random and 64-byte inputs vs (int(Ha[0..40]) mod (N-1)) + 1; H1/H2 wrappers vs reference over identities of 0..300 bytes; the three key extractions vs reference group law incl. master keys crafted so that H1+k = 0 mod N (must fail) and k +- 1 (must succeed); Annex keys. Distinct by Ha / (id, hid) / (k, id, hid)",
        "assumptions": SM9_ASSUME,
    },
})

PROPS.update({
    "C15": {
        "level": "exploration",
        "profiles": BOTH,
        "rule": "four-step histories exchange_1..4 with injected rA, rB between library parties: R_A, R_B, S_B, S_A and both derived keys (hook accessor) must equal the reference GB/T 32918.3 run (w = 127, one-byte tags) on what each side saw; for each of the 16 subsets of {R_A,R_B,S_B,S_A} tampered in transit (other point, negated, off-curve, bit-flipped hash) the reference history says which step must be the first to fail and the library must fail there and never end with both sides accepting. Distinct by (dA, dB, ids, klen, rA, rB, subset, kind)",
        "assumptions": SM2_ASSUME + ["the point at infinity as R is excluded from the must-fail set"],
    },
})

PROPS.update({
    "C14": {
        "level": "exploration",
        "profiles": BOTH,
        "rule": "for each of the 13 randomised call sites: every scalar accepted by the generator during the call (hook) must lie in [1, order-1]; the scalar the output demonstrably depends on (recovered with the reference: k from (r,s) and d, C1=[k]G, R=[r]G, public key=[d]G, SM9 C1=[r]Q, (h,S), R_A, R_B, Ppub) must be the one drawn in that call; no scalar repeats across calls, sites, 8 threads and the separately started shard processes (driver-level merge); per site and bit position the count of ones is within 8 sigma of the exact expectation under the uniform distribution on [1, order-1]; out-of-range candidates (0, order, order+1.., 2^256-1, SM2 [n,p-2]) injected at the byte source are never accepted. Distinct by scalar value / (site, injected candidate)",
        "assumptions": SM2_ASSUME + SM9_ASSUME[2:3] + ["'OS-seeded' is only observable as non-repetition across calls/threads/processes plus bit statistics"],
    },
})

PROPS.update({
    "C19": {
        "level": "exploration",
        "profiles": BOTH,
        "rule": "every encoder/decoder pair of SM2 keys (SEC1 compressed/uncompressed, hex, SPKI DER/PEM, FromStr, bytes, PKCS#8 DER/PEM, SEC1 DER) on edge/random keys incl. public points with leading zero bytes and both parities: decoded key equals the reference (d,[d]G), library DER equals the harness' own DER writer and OpenSSL's bytes, OpenSSL documents decode; encrypt_asn1 with injected k (incl. crafted C1 with 1..3 leading/trailing zero bytes, top bit set/clear) must be exactly SEQUENCE{C1.x, C1.y, C3, C2} of the reference ciphertext and decrypt_asn1 must invert it and accept OpenSSL SM2Cipher documents; off-curve points, coordinates >= p, wrong lengths and wrong point-format bytes must be rejected by every decoder. Distinct by key / (d,k,msg,flags) / rejected bytes",
        "assumptions": SM2_ASSUME + ["own minimal strict DER reader/writer (4 shapes), cross-checked against OpenSSL's bytes on every run", "zero-coordinate ephemeral scalars come from a one-time scan and are re-confirmed by the reference on every run"],
    },
    "C20": {
        "level": "fault_enumeration",
        "profiles": {"quick": ["checked", "release"], "thorough": ["checked", "release"]},
        "watchdog_is_violation": True,
        "rule": "for each byte-consuming entry point (SM2 verify, decrypt x4 layouts, decrypt_asn1, public/private key decoders for bytes, hex, DER, PEM, FromStr, kdf, compute_za; SM4 cipher/mode construction, block and mode encrypt/decrypt, IV lengths; SM9 decrypt, verify_sign with arbitrary h and S, mod_n_from_hash): every input length 0..=200 in three content classes, every truncation and three corruptions of every byte of valid encodings (reference-made and OpenSSL-made), crafted DER/PEM documents, boundary private keys {0,1,2,n-2,n-1,n,n+1,p-1,p,2^256-1} followed by sign/encrypt; outcome class must be Ok or Err; panic (incl. overflow/assert in the checked profile), >64 RNG draws in one call (load-independent hang oracle), abort (journal) are violations. Both build profiles in both tiers. Distinct by (entry point, input bytes)",
        "assumptions": BASE_ASSUME + ["hang oracle = RNG draw counter (every retry loop of the library draws a candidate) plus a wall-clock watchdog per shard", "ZUC/EEA/EIA entry points have no error channel and are not in the property's list"],
    },
})

# classes added while testing against seeded changes (rounds 3-5): appended to the generation rule of each property
RULE_ADD = {
    "C02": "crafted with the reference run backwards: T input in 8 boundary words x 32 rounds x both directions, round key equal to each boundary word x 32 rounds; histories contain out-of-domain calls whose after-effects are judged",
    "C03": "digest-level hook: e solved so that the injected nonce meets r=0, r+k=n, s=0 (the signer must not emit a signature made with that nonce); signatures verified with the key object of the case's provenance and with a key decoded from the reference's compressed encoding; ID lengths 31..8190, messages to 2^20 bytes; keys with carry-chain limbs and Montgomery-boundary values; run-of-ones nonces",
    "C04": "digest-level hook: t=r+s=0 with e solved to satisfy the remaining equation, arbitrary e incl. >= n; near misses made with the private key (r' = R xor mask, s' consistent with k)",
    "C05": "valid points crafted onto the carry/reduction boundaries of the on-curve additions as recipient key (exact ciphertext) and as C1 of reference-made ciphertexts",
    "C06": "crafted-boundary C1 samples with the whole fault space around them; ASN.1 form: 20 component-level tampers with consistent DER lengths on samples searched for leading/trailing zero bytes in C3/C2, every bit flip of the document judged through a strict reader",
    "C07": "data beyond 2^8/2^12/2^16 blocks; histories on one mode object with interleaved encrypt/decrypt, failing calls and data/IV/key aliasing",
    "C08": "state-level hook: one LFSR step, one FSM step and keystream from crafted register states (feedback sum on and next to every multiple of 2^31 and 2^31-1, 7^5 grid of tapped cells)",
    "C09": "identities and messages of 8185..70001 bytes, identity pairs equal on their first 8191/8192 bytes",
    "C10": "valid G1 points crafted onto the boundaries of x^3+5 as C1 of reference-made ciphertexts; messages/identities beyond 8160 bytes / 2^16 bits",
    "C11": "stored-Z boundary words; product shapes (integer product in [m,2^256), at m+j, 2^256-1-j, ...) for fn_mul/fp_mul; scalars n-j and runs of ones; the point with x = 0",
    "C12": "stored-Z boundary words for G1 and both components of G2's Z",
    "C13": "product shapes for mod_n_mul and Fp::fp_mul; scalars j, N-j, N+j (j <= 200, thorough 1200) on both generators; runs of ones",
    "C14": "runs of 17/33/48 injected out-of-range candidates",
    "C15": "crafted-boundary valid R_A at the responder; coincident (doubling) and degenerate (infinity) static keys; honest run with an all-zero 1-byte key; same key / same ID for both parties; repeated steps",
    "C16": "all 81 limb-wise comparison patterns for r and for H1+ks; carry chains in ks; t2 = N-j and j+1 for all hids; identities of 8185..70001 bytes",
    "C17": "crafted-boundary valid R_A at the responder; identities beyond 8186 bytes; same identity for both parties",
    "C18": "the ZUC state-level monitor of C08",
    "C19": "crafted-boundary points and (0, +-sqrt(b)) as public keys in every encoding; PKCS#8 with a foreign public key",
    "C20": "keys 2^k-1 for every k, 2^k, n-2^k under the RNG step limit",
}
for _k, _v in RULE_ADD.items():
    PROPS[_k]["rule"] = PROPS[_k]["rule"] + " || added classes: " + _v
