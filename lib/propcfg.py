"""Per-property configuration of the driver: claimed level, generation rule (what makes a case distinct and
non-trivial), trusted base, build profiles per tier."""

BOTH = {"quick": ["checked"], "thorough": ["checked", "release"]}
BASE_ASSUME = [
    "executions, not proofs: the claim is 'held on the monitored executions listed under coverage'",
    "harness built from /repo's working tree with --cfg gm_rs_verif; profile 'checked' = opt-level 3 + overflow-checks + debug-assertions, 'release' = plain release",
]

PROPS = {
    "C01": {
        "level": "exploration",
        "profiles": BOTH,
        "rule": "every gm_sm3::sm3_hash call of the workload is compared with a streaming reference SM3 (and with frozen OpenSSL digests for the corpus); "
                "a case is distinct by (message bytes) and non-trivial always (each message is a different input of the hash); classes count len mod 64, padding branch, block count, bit length >= 2^32, purity re-hash",
        "assumptions": BASE_ASSUME + [
            "reference SM3 written from GB/T 32905 and anchored per run by the standard's two examples and 311 OpenSSL 3.5.6 digests + big-message digests (frozen corpus)",
            "length-field bytes 5..7 (>= 128 GiB messages) are not exercised",
        ],
    },
    "C02": {
        "level": "exploration",
        "profiles": BOTH,
        "rule": "every Sm4Cipher::new/encrypt/decrypt call is compared with a reference SM4 whose S-box is computed algebraically; a case is distinct by (key, block, direction); "
                "histories drive one cipher object (and clones) through interleaved encrypt/decrypt with chained inputs",
        "assumptions": BASE_ASSUME + [
            "reference SM4 anchored per run by the GB/T 32907 example, its 10^6-fold iterate and 400 OpenSSL ECB vectors",
        ],
    },
    "C07": {
        "level": "exploration",
        "profiles": BOTH,
        "rule": "every Sm4CipherMode encrypt/decrypt call is compared with reference CBC-PKCS7/CFB-128/OFB/CTR over the reference block cipher; distinct by (mode, key, iv, data); "
                "error cases must return Err (not panic, not Ok); CBC unpadding is judged on the final byte only (a stricter decryptor may reject inconsistent padding)",
        "assumptions": BASE_ASSUME + [
            "reference modes anchored per run by 248 OpenSSL vectors (cbc/cfb/ofb/ctr, incl. counter carries)",
        ],
    },
    "C08": {
        "level": "exploration",
        "profiles": BOTH,
        "rule": "each generator history (ZUC::new, then a sequence of generate_keystream(n)) is compared word by word with the reference stream sliced at the same offsets; "
                "distinct by (key, iv, request sequence); all 4095 compositions of totals <= 12 are enumerated, each also with a zero-length request at every position",
        "assumptions": BASE_ASSUME + [
            "reference ZUC anchored by the four official vectors (incl. z2000) ; S0 is a frozen table, S1 is computed algebraically, D from the specification",
            "LFSR feedback = 0 witnesses (init and work mode) come from a one-time search with the reference and are re-confirmed by the reference on every run",
        ],
    },
    "C18": {
        "level": "exploration",
        "profiles": BOTH,
        "rule": "every EEA::encrypt / EIA::gen_mac call is compared with reference EEA3/EIA3 built on the reference ZUC; distinct by (key, count, bearer, direction, length, message); "
                "classes count length mod 32, direction, bearer, flips inside/beyond LENGTH",
        "assumptions": BASE_ASSUME + [
            "reference anchored by EEA3 test set 1 and EIA3 test sets 1, 2, 3 (577-bit) of the 3GPP document",
            "LENGTH within 31 of 2^32 is outside the specified domain and not claimed",
        ],
    },
}
