#!/usr/bin/env python3
"""Regenerates MANIFEST.json from lib/propcfg.py + lib/manifest_text.py (kept valid at all times)."""
import json, os, sys
ROOT = os.path.dirname(os.path.dirname(os.path.abspath(__file__)))
sys.path.insert(0, os.path.join(ROOT, "lib"))
from propcfg import PROPS
from manifest_text import TEXT, NOT_APPLICABLE, HOOK_COMMITS

checks = []
for pid in sorted(PROPS):
    cfg = PROPS[pid]
    t = TEXT[pid]
    checks.append({
        "property_id": pid,
        "quick_cmd": f"./check {pid} quick",
        "thorough_cmd": f"./check {pid} thorough",
        "evidence_file": f"/verif/evidence/{pid}.json",
        "replay_cmd_template": "./check replay {path}",
        "engine": "gmverif",
        "level_claimed": {"category": cfg["level"], "text": t["level_text"], "design_ref": t["design_ref"]},
        "level_note": t["level_note"],
        "technique": t["technique"],
    })
claimed = {c["property_id"] for c in checks}
na = list(NOT_APPLICABLE)
for line in open(os.path.join(ROOT, "properties.jsonl")):
    pid = json.loads(line)["id"]
    if pid not in claimed and not any(x["property_id"] == pid for x in na):
        na.append({"property_id": pid, "reason": "check not built yet in this session (work in progress, not a judgement that the technique cannot apply)"})
man = {
    "version": 1,
    "setup_cmd": "./check build",
    "hooks": {
        "guard": "gm_rs_verif",
        "enable": "RUSTFLAGS=\"--cfg gm_rs_verif\" (set by /verif/check for every harness build; /verif/harness path-depends on /repo/gm-*)",
        "baseline_off_cmd": "cd /repo && cargo test --workspace --no-fail-fast --offline --lib --bins --tests",
        "source_commits": HOOK_COMMITS,
        "add_only": True,
    },
    "engines": [{
        "name": "gmverif",
        "path": "/verif/harness",
        "serves_properties": sorted(PROPS),
        "kind_free_text": "Rust harness linked against /repo's crates: hostile/sweeping workloads, every library call run under panic capture and an RNG-draw step limit, results compared online with independent reference models (oracle monitors); python driver shards, watches, merges, writes evidence",
    }],
    "checks": checks,
    "not_applicable": na,
    "notes": "Technique family: runtime monitoring. The repository has no unsafe/threads/FFI, so memory sanitizers and race detectors decide nothing here (DESIGN.md section 1); the deciding step of every check is an oracle observing executions of the real code. Exit 2 + INCONCLUSIVE is used when the harness cannot build against the tree or a required class was not observed.",
}
json.dump(man, open(os.path.join(ROOT, "MANIFEST.json"), "w"), indent=1)
print("MANIFEST.json:", len(checks), "checks,", len(na), "not applicable")
