# DESIGN-TIME FEASIBILITY PROTOTYPE - not part of the verification machinery, no check runs it.
# Kept as provenance for the Annex known-answer values quoted in DESIGN.md section 4.2:
# run with the system python3 (hashlib provides sm3 through OpenSSL); every printed value
# matched the GM/T 0003.5 / GM/T 0044.5 example it is compared with.
import hashlib, time
p = 0xB640000002A3A6F1D603AB4FF58EC74521F2934B1A7AEEDBE56F9B27E351457D
N = 0xB640000002A3A6F1D603AB4FF58EC74449F2934B18EA8BEEE56EE19CD69ECF25
t = 0x600000000058F98A
assert p == 36*t**4+36*t**3+24*t**2+6*t+1 and N == 36*t**4+36*t**3+18*t**2+6*t+1
P1 = (0x93DE051D62BF718FF5ED0704487D01D6E1E4086909DC3280E8C4E4817C66DDDD, 0x21FE8DDA4F21E607631065125C395BBC1C1C00CBFA6024350C464CD70A3EA616)
# Fp2 element = (c0, c1) = c0 + c1*u, u^2=-2
P2 = ((0x3722755292130B08D2AAB97FD34EC120EE265948D19C17ABF9B7213BAF82D65B, 0x85AEF3D078640C98597B6027B441A01FF1DD2C190F5E93C454806C11D8806141),
      (0xA7CF28D519BE3DA65F3170153D278FF247EFBA98A71A08116215BBA5C999A7C7, 0x17509B092E845C1266BA0D262CBEE6ED0736A96FA347C8BD856DC76B84EBEB96))
def sm3(b): return hashlib.new('sm3', b).digest()
# ---- Fp2
def f2add(a,b): return ((a[0]+b[0])%p,(a[1]+b[1])%p)
def f2sub(a,b): return ((a[0]-b[0])%p,(a[1]-b[1])%p)
def f2mul(a,b): return ((a[0]*b[0]-2*a[1]*b[1])%p,(a[0]*b[1]+a[1]*b[0])%p)
def f2inv(a):
    d = pow(a[0]*a[0]+2*a[1]*a[1], -1, p); return (a[0]*d%p, (-a[1]*d)%p)
def f2conj(a): return (a[0], (-a[1])%p)
def f2scal(a,k): return (a[0]*k%p, a[1]*k%p)
# ---- G1 affine (None = inf)
def g1add(A,B):
    if A is None: return B
    if B is None: return A
    if A[0]==B[0]:
        if (A[1]+B[1])%p==0: return None
        l = 3*A[0]*A[0]*pow(2*A[1],-1,p)%p
    else: l=(B[1]-A[1])*pow(B[0]-A[0],-1,p)%p
    x=(l*l-A[0]-B[0])%p; return (x,(l*(A[0]-x)-A[1])%p)
def g1mul(k,A):
    R=None
    for bit in bin(k)[2:]:
        R=g1add(R,R)
        if bit=='1': R=g1add(R,A)
    return R
# ---- G2 affine on twist y^2=x^3+5u
def g2add(A,B):
    if A is None: return B
    if B is None: return A
    if A[0]==B[0]:
        if f2add(A[1],B[1])==(0,0): return None
        l=f2mul(f2scal(f2mul(A[0],A[0]),3), f2inv(f2scal(A[1],2)))
    else: l=f2mul(f2sub(B[1],A[1]), f2inv(f2sub(B[0],A[0])))
    x=f2sub(f2sub(f2mul(l,l),A[0]),B[0]); return (x, f2sub(f2mul(l,f2sub(A[0],x)),A[1]))
def g2mul(k,A):
    R=None
    for bit in bin(k)[2:]:
        R=g2add(R,R)
        if bit=='1': R=g2add(R,A)
    return R
def g2neg(A): return (A[0], ((-A[1][0])%p, (-A[1][1])%p))
b2=(0,5)
def on_twist(A): return f2mul(A[1],A[1])==f2add(f2mul(f2mul(A[0],A[0]),A[0]),b2)
assert on_twist(P2) and (P1[1]**2-P1[0]**3-5)%p==0
assert g1mul(N,P1) is None and g2mul(N,P2) is None
# ---- Fp12 = Fp[w]/(w^12+2): list of 12
def f12mul(a,b):
    r=[0]*23
    for i,x in enumerate(a):
        if x:
            for j,y in enumerate(b):
                if y: r[i+j]+=x*y
    out=[0]*12
    for i in range(12): out[i]=(r[i]-2*(r[i+12] if i+12<23 else 0))%p
    return out
ONE=[1]+[0]*11
def f12pow(a,e):
    r=ONE
    for bit in bin(e)[2:]:
        r=f12mul(r,r)
        if bit=='1': r=f12mul(r,a)
    return r
c = pow(-2 % p, (p-1)//12, p)   # w^(p-1)
def f12frob(a): return [a[i]*pow(c,i,p)%p for i in range(12)]
# line l*w^3 = yP*w^3 - (lam*xP)*w^2 + (lam*xT - yT), Fp2 elt a0+a1 u -> a0 + a1 w^6
def line(lam,T,P):
    xP,yP=P
    a=f2scal(lam,xP); cc=f2sub(f2mul(lam,T[0]),T[1])
    l=[0]*12
    l[0]=cc[0]; l[6]=cc[1]
    l[2]=(-a[0])%p; l[8]=(-a[1])%p
    l[3]=yP%p
    return l
def dbl_step(T,P):
    lam=f2mul(f2scal(f2mul(T[0],T[0]),3), f2inv(f2scal(T[1],2)))
    return line(lam,T,P), g2add(T,T)
def add_step(T,Q,P):
    lam=f2mul(f2sub(Q[1],T[1]), f2inv(f2sub(Q[0],T[0])))
    return line(lam,T,P), g2add(T,Q)
def pairing(P,Q):
    a=6*t+2
    f=ONE; T=Q
    for bit in bin(a)[3:]:
        l,T=dbl_step(T,P); f=f12mul(f12mul(f,f),l)
        if bit=='1':
            l,T=add_step(T,Q,P); f=f12mul(f,l)
    ci=pow(c,-1,p)
    Q1=(f2scal(f2conj(Q[0]),pow(ci,2,p)), f2scal(f2conj(Q[1]),pow(ci,3,p)))
    Q2n=(f2scal(Q[0],pow(ci,4,p)), Q[1])      # -pi^2(Q)
    assert on_twist(Q1) and on_twist(Q2n)
    l,T=add_step(T,Q1,P); f=f12mul(f,l)
    l,T=add_step(T,Q2n,P); f=f12mul(f,l)
    return f12pow(f,(p**12-1)//N)
def f12bytes(a):
    # order: for k=2,1,0; j=1,0; i=1,0 : coeff of w^(6i+3j+k)
    out=b''
    for k in (2,1,0):
        for j in (1,0):
            for i in (1,0):
                out+=a[6*i+3*j+k].to_bytes(32,'big')
    return out
def Hn(prefix,z):
    ha=sm3(bytes([prefix])+z+b'\x00\x00\x00\x01')+sm3(bytes([prefix])+z+b'\x00\x00\x00\x02')
    return int.from_bytes(ha[:40],'big')%(N-1)+1
if __name__=='__main__':
    ks=0x000130E78459D78545CB54C587E02CF480CE0B66340F319F348A1D5B1F2DC5F4
    Ppub=g2mul(ks,P2)
    print("Ppub x1 %064X"%Ppub[0][1])
    t0=time.time(); g=pairing(P1,Ppub); print("pairing s",time.time()-t0)
    print("g first coeff (w^11) %064X"%g[11])
    assert f12pow(g,N)==ONE and g!=ONE
    # bilinearity sanity
    g2_=pairing(g1mul(3,P1),g2mul(5,P2)); assert g2_==f12pow(pairing(P1,P2),15); print("bilinear ok")
    # sign with annex r
    ida=b'Alice'; M=b'Chinese IBS standard'
    r=0x00033C8616B06704813203DFD00965022ED15975C662337AED648835DC4B1CBE
    w=f12pow(g,r)
    h=Hn(2,M+f12bytes(w)); print("h  %064X"%h)
    print("exp 823C4B21E4BD2DFE1ED92C606653E996668563152FC33F55D7BFBB9BD9705ADB")
    t1=(Hn(1,ida+b'\x01')+ks)%N; t2=ks*pow(t1,-1,N)%N; ds=g1mul(t2,P1)
    print("ds.x %064X"%ds[0])
    S=g1mul((r-h)%N,ds); print("S.x %064X\nS.y %064X"%S)
    # verify
    tt=f12pow(g,h); h1=Hn(1,ida+b'\x01'); Pp=g2add(g2mul(h1,P2),Ppub); u=pairing(S,Pp); w2=f12mul(u,tt)
    print("verify:", Hn(2,M+f12bytes(w2))==h)
