# DESIGN-TIME FEASIBILITY PROTOTYPE - not part of the verification machinery, no check runs it.
# Kept as provenance for the Annex known-answer values quoted in DESIGN.md section 4.2:
# run with the system python3 (hashlib provides sm3 through OpenSSL); every printed value
# matched the GM/T 0003.5 / GM/T 0044.5 example it is compared with.
import hashlib
p=0xFFFFFFFEFFFFFFFFFFFFFFFFFFFFFFFFFFFFFFFF00000000FFFFFFFFFFFFFFFF
a=p-3
b=0x28E9FA9E9D9F5E344D5A9E4BCF6509A7F39789F515AB8F92DDBCBD414D940E93
n=0xFFFFFFFEFFFFFFFFFFFFFFFFFFFFFFFF7203DF6B21C6052B53BBF40939D54123
G=(0x32C4AE2C1F1981195F9904466A39C9948FE30BBFF2660BE1715A4589334C74C7,0xBC3736A2F4F6779C59BDCEE36B692153D0A9877CC62A474002DF32E52139F0A0)
def sm3(x): return hashlib.new('sm3',x).digest()
def add(A,B):
    if A is None: return B
    if B is None: return A
    if A[0]==B[0]:
        if (A[1]+B[1])%p==0: return None
        l=(3*A[0]*A[0]+a)*pow(2*A[1],-1,p)%p
    else: l=(B[1]-A[1])*pow(B[0]-A[0],-1,p)%p
    x=(l*l-A[0]-B[0])%p; return (x,(l*(A[0]-x)-A[1])%p)
def mul(k,A):
    R=None
    for bit in bin(k)[2:]:
        R=add(R,R)
        if bit=='1': R=add(R,A)
    return R
def i2b(x): return x.to_bytes(32,'big')
def za(idb,P): return sm3((len(idb)*8).to_bytes(2,'big')+idb+i2b(a)+i2b(b)+i2b(G[0])+i2b(G[1])+i2b(P[0])+i2b(P[1]))
def kdf(z,klen):
    out=b''; ct=1
    while len(out)<klen: out+=sm3(z+ct.to_bytes(4,'big')); ct+=1
    return out[:klen]
ID=b'1234567812345678'
# signature example
d=0x3945208F7B2144B13F36E38AC6D39F9588939369_2860B51A42FB81EF4DF7C5B8
P=mul(d,G); print("Px %064X"%P[0])
M=b'message digest'; k=0x59276E27D506861A16680F3AD9C02DCCEF3CC1FA3CDBE4CE6D54B80DEAC1BC21
e=int.from_bytes(sm3(za(ID,P)+M),'big'); x1=mul(k,G)[0]; r=(e+x1)%n; s=pow(1+d,-1,n)*(k-r*d)%n
print("r %064X\ns %064X"%(r,s))
print("exp r F5A03B0648D2C4630EEAC513E1BB81A15944DA3827D5B74143AC7EACEEE720B3\nexp s B1B6AA29DF212FD8763182BC0D421CA1BB9038FD1F7F42D4840B69C485BBC1AA")
# encryption example
M=b'encryption standard'; C1=mul(k,G); S=mul(k,P); t=kdf(i2b(S[0])+i2b(S[1]),len(M))
C2=bytes(x^y for x,y in zip(M,t)); C3=sm3(i2b(S[0])+M+i2b(S[1]))
print("C1 %064X %064X"%C1); print("C3",C3.hex().upper()); print("C2",C2.hex().upper())
print("exp C1.x 04EBFC718E8D1798620432268E77FEB6415E2EDE0E073C0F4F640ECD2E149A73 C3 59983C18F809E262923C53AEC295D30383B54E39D609D160AFCB1908D0BD8766 C2 21886CA989CA9C7D58087307CA93092D651EFA")
# key exchange example
dA=0x81EB26E941BB5AF16DF116495F90695272AE2CD63D6C4AE1678418BE48230029
dB=0x785129917D45A9EA5437A59356B82338EAADDA6CEB199088F14AE10DEFA229B5
rA=0xD4DE15474DB74D06491C440D305E012400990F3E390C7E87153C12DB2EA60BB3
rB=0x7E07124814B309489125EAED101113164EBF0F3458C5BD88335C1F9D596243D6
PA=mul(dA,G); PB=mul(dB,G); ZA=za(ID,PA); ZB=za(ID,PB)
print("ZA",ZA.hex().upper()); print("ZB",ZB.hex().upper())
RA=mul(rA,G); RB=mul(rB,G); w=127
xb=lambda x: (1<<w)+(x&((1<<w)-1))
tB=(dB+xb(RB[0])*rB)%n; V=mul(tB,add(PA,mul(xb(RA[0]),RA)))
KB=kdf(i2b(V[0])+i2b(V[1])+ZA+ZB,16)
inner=sm3(i2b(V[0])+ZA+ZB+i2b(RA[0])+i2b(RA[1])+i2b(RB[0])+i2b(RB[1]))
SB=sm3(b'\x02'+i2b(V[1])+inner); SA=sm3(b'\x03'+i2b(V[1])+inner)
tA=(dA+xb(RA[0])*rA)%n; U=mul(tA,add(PB,mul(xb(RB[0]),RB))); assert U==V
print("K",KB.hex().upper(),"exp 6C89347354DE2484C60B4AB1FDE4C6E5")
print("SB",SB.hex().upper(),"\nexp D3A0FE15DEE185CEAE907A6B595CC32A266ED7B3367E9983A896DC32FA20F8EB")
print("SA",SA.hex().upper(),"\nexp 18C7894B3816DF16CF07B05C5EC0BEF5D655D58F779CC1B400A4F3884644DB88")
