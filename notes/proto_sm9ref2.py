# DESIGN-TIME FEASIBILITY PROTOTYPE - not part of the verification machinery, no check runs it.
# Kept as provenance for the Annex known-answer values quoted in DESIGN.md section 4.2:
# run with the system python3 (hashlib provides sm3 through OpenSSL); every printed value
# matched the GM/T 0003.5 / GM/T 0044.5 example it is compared with.
from proto_sm9ref import *
def kdf(z,klen):
    out=b''; ct=1
    while len(out)<klen: out+=sm3(z+ct.to_bytes(4,'big')); ct+=1
    return out[:klen]
def pt(P): return P[0].to_bytes(32,'big')+P[1].to_bytes(32,'big')
# --- encryption annex
ke=0x0001EDEE3778F441F8DEA3D9FA0ACC4E07EE36C93F9A08618AF4AD85CEDE1C22
Ppube=g1mul(ke,P1); idb=b'Bob'; M=b'Chinese IBE standard'
r=0x0000AAC0541779C8FC45E3E2CB25C12B5D2576B2129AE8BB5EE2CBE5EC9E785C
QB=g1add(g1mul(Hn(1,idb+b'\x03'),P1),Ppube); C1=g1mul(r,QB)
print("C1.x %064X"%C1[0])
g=pairing(Ppube,P2); w=f12pow(g,r)
K=kdf(pt(C1)+f12bytes(w)+idb,len(M)+32); print("K",K.hex().upper())
C2=bytes(a^b for a,b in zip(M,K)); C3=sm3(C2+K[len(M):])
print("C2",C2.hex().upper()); print("C3",C3.hex().upper())
print("expC3 BA672387BCD6DE5016A158A52BB2E7FC429197BCAB70B25AFEE37A2B9DB9F367")
# decrypt side: de = [ke/(H1+ke)]P2 ; w' = e(C1,de)
t1=(Hn(1,idb+b'\x03')+ke)%N; de=g2mul(ke*pow(t1,-1,N)%N,P2)
print("de.x1 %064X"%de[0][1])
assert pairing(C1,de)==w; print("dec pairing ok")
# --- key exchange annex
ke=0x0002E65B0762D042F51F0D23542B13ED8CFA2E9A0E7206361E013A283905E31F
Ppube=g1mul(ke,P1); ida=b'Alice'; idb=b'Bob'
rA=0x00005879DD1D51E175946F23B1B41E93BA31C584AE59A426EC1046A4D03B06C8
rB=0x00018B98C44BEF9F8537FB7D071B2C928B3BC65BD3D69E1EEE213564905634FE
QA=g1add(g1mul(Hn(1,ida+b'\x02'),P1),Ppube); QB=g1add(g1mul(Hn(1,idb+b'\x02'),P1),Ppube)
deA=g2mul(ke*pow((Hn(1,ida+b'\x02')+ke)%N,-1,N)%N,P2); deB=g2mul(ke*pow((Hn(1,idb+b'\x02')+ke)%N,-1,N)%N,P2)
RA=g1mul(rA,QB); RB=g1mul(rB,QA)
g0=pairing(Ppube,P2)
g1_=pairing(RA,deB); g2_=f12pow(g0,rB); g3_=f12pow(g1_,rB)
SKB=kdf(ida+idb+pt(RA)+pt(RB)+f12bytes(g1_)+f12bytes(g2_)+f12bytes(g3_),16)
a1=f12pow(g0,rA); a2=pairing(RB,deA); a3=f12pow(a2,rA)
SKA=kdf(ida+idb+pt(RA)+pt(RB)+f12bytes(a1)+f12bytes(a2)+f12bytes(a3),16)
print("SKB",SKB.hex().upper(),"SKA",SKA.hex().upper(),"exp C5C13A8F59A97CDEAE64F16A2272A9E7")
