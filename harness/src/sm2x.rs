//! Library-side helpers for the SM2 workloads: key construction, RNG hook control, key generators.
use crate::mon::{guard, Outcome, Prng};
use crate::refs::sm2 as r2;
use gm_sm2::key::{Sm2PrivateKey, Sm2PublicKey};
use gm_sm2::verif_hooks as hk;
use num_bigint::BigUint;
use num_traits::{One, Zero};

pub fn leak(s: String) -> &'static str {
    Box::leak(s.into_boxed_str())
}

pub fn ascii_id(p: &mut Prng, len: usize) -> String {
    (0..len).map(|_| (0x21 + p.below(94) as u8) as char).collect()
}

/// IDs are `&str`: the standard hashes their UTF-8 BYTES (ENTL = bit length of the bytes); mix 1..4-byte characters
pub fn utf8_id(p: &mut Prng, nchars: usize) -> String {
    const PAL: [&str; 12] = ["a", "Z", "7", "@", "é", "ß", "Ж", "张", "三", "鲍", "😀", "𝔘"];
    let mut s = String::new();
    for _ in 0..nchars {
        s.push_str(PAL[p.below(PAL.len() as u64) as usize]);
    }
    s
}

/// Private keys worth trying: small, near n, sparse / dense limbs, random.
pub fn edge_keys() -> Vec<BigUint> {
    let n = &r2::curve().n;
    let mut v = vec![
        BigUint::one(),
        BigUint::from(2u32),
        BigUint::from(3u32),
        n - 2u32,
        n - 3u32,
        BigUint::one() << 255,
        (BigUint::one() << 128) - 1u32,
        BigUint::one() << 64,
        (BigUint::one() << 64) - 1u32,
        r2::hexn("00000000FFFFFFFF00000000FFFFFFFF00000000FFFFFFFF00000000FFFFFFFF"),
        r2::hexn("FFFFFFFE00000000000000000000000000000000000000000000000000000001"),
        r2::hexn("8000000000000000000000000000000000000000000000000000000000000001"),
        (n - 1u32) >> 1,
        // carry chains: all-ones limbs in the middle / low three limbs / a lone all-ones limb 1, and n - 2^128
        r2::hexn("0000000000000000FFFFFFFFFFFFFFFFFFFFFFFFFFFFFFFF0000000000000000"),
        (BigUint::one() << 192) - 1u32,
        r2::hexn("00000000000000010000000000000000FFFFFFFFFFFFFFFF0000000000000000"),
        r2::hexn("7FFFFFFFFFFFFFFFFFFFFFFFFFFFFFFFFFFFFFFFFFFFFFFFFFFFFFFFFFFFFFFFFF"),
        n - (BigUint::one() << 128),
    ];
    // keys for which d or 1 + d has a boundary word as its Montgomery representation mod n (d = w R^-1, d = w R^-1 - 1
    // for w in {1, 2, 2^64}): a shortcut that tests the stored form against the plain constant fires only here
    let r: BigUint = (BigUint::one() << 256) % n;
    let rinv = r.modinv(n).unwrap();
    for w in [BigUint::one(), BigUint::from(2u32), BigUint::one() << 64] {
        let x = (&w * &rinv) % n;
        v.push(x.clone());
        v.push((&x + n - 1u32) % n);
    }
    v.push(r.clone());
    v.push(&r - 1u32);
    v.retain(|d| !d.is_zero() && d < &(n - 1u32));
    v
}

pub fn rand_scalar(p: &mut Prng, modulus: &BigUint) -> BigUint {
    // uniform enough for workload purposes: 320 random bits reduced
    let b = p.bytes(40);
    let v = BigUint::from_bytes_be(&b) % (modulus - 1u32);
    v + 1u32
}

pub fn key_for(p: &mut Prng, i: u64) -> BigUint {
    let e = edge_keys();
    if (i as usize) < e.len() {
        e[i as usize].clone()
    } else {
        rand_scalar(p, &(&r2::curve().n - 1u32))
    }
}

pub fn lib_sk(d: &BigUint) -> Option<Sm2PrivateKey> {
    match guard(|| Sm2PrivateKey::new(&r2::b32(d))) {
        Outcome::Ret(Ok(k)) => Some(k),
        _ => None,
    }
}

pub fn lib_pk(pt: &(BigUint, BigUint)) -> Option<Sm2PublicKey> {
    match guard(|| Sm2PublicKey::new(&r2::encode(pt, false))) {
        Outcome::Ret(Ok(k)) => Some(k),
        _ => None,
    }
}

/// Clear the hook state and queue the given scalars as the next RNG candidates.
pub fn rng_prepare(inject: &[&BigUint]) {
    hk::rng_reset(0);
    for k in inject {
        hk::rng_inject(r2::b32(k));
    }
}

pub fn rng_prepare_raw(inject: &[[u8; 32]]) {
    hk::rng_reset(0);
    for k in inject {
        hk::rng_inject(*k);
    }
}

pub struct RngSeen {
    pub candidates: Vec<BigUint>,
    pub injected: Vec<bool>,
    pub accepted: Vec<BigUint>,
    pub pending: usize,
}

pub fn rng_seen() -> RngSeen {
    let pending = hk::rng_pending();
    let l = hk::rng_take_log();
    RngSeen {
        candidates: l.candidates.iter().map(|c| BigUint::from_bytes_be(c)).collect(),
        injected: l.injected,
        accepted: l.accepted.iter().map(r2::from_limbs).collect(),
        pending,
    }
}

pub fn affine_of(pk: &Sm2PublicKey) -> r2::Pt {
    r2::from_lib_point(&pk.point)
}

/// Key objects by provenance: 0 = validating constructors (affine public point), 1 = `gen_keypair()` with the
/// scalar injected at the RNG hook (public point as the library's own multiplication leaves it, Z != 1),
/// 2 = public fields filled directly with a re-randomised Jacobian representation of [d]G.
pub fn lib_keys(d: &BigUint, how: u64, p: &mut Prng) -> Option<(Sm2PublicKey, Sm2PrivateKey)> {
    match how % 3 {
        0 => {
            let sk = lib_sk(d)?;
            // the public key object alternately from the private key and decoded from COMPRESSED bytes
            if how % 2 == 0 {
                let pt = r2::mul(d, &r2::g())?;
                let pk = match guard(|| Sm2PublicKey::new(&r2::encode(&pt, true))) {
                    Outcome::Ret(Ok(k)) => k,
                    _ => return None,
                };
                return Some((pk, sk));
            }
            Some((sk.public_key, sk))
        }
        1 => {
            rng_prepare(&[d]);
            let r = guard(|| gm_sm2::key::gen_keypair());
            let seen = rng_seen();
            match r {
                Outcome::Ret(Ok((pk, sk))) if seen.accepted.last() == Some(d) => Some((pk, sk)),
                _ => None,
            }
        }
        _ => {
            let pt = r2::mul(d, &r2::g())?;
            // every fourth such key: a Z whose STORED limbs are a boundary word (the integer 1, Montgomery one with limb 1
            // or limb 3 changed, a unit limb) instead of a random Z
            let mont_one = r2::to_limbs(&((BigUint::one() << 256) - &r2::curve().p));
            let lam = if (how / 3) % 4 == 1 {
                let w = p.next();
                let zl: [u64; 4] = match (how / 12) % 5 {
                    0 => [1, 0, 0, 0],
                    1 => [mont_one[0], w, mont_one[2], mont_one[3]],
                    2 => [mont_one[0], mont_one[1], mont_one[2], mont_one[3] ^ (1 << (w % 32))],
                    3 => [0, 0, 1, 0],
                    _ => [mont_one[0].wrapping_add(1), mont_one[1], mont_one[2], mont_one[3]],
                };
                let l = r2::from_mont_p(&zl);
                if l.is_zero() || r2::from_limbs(&zl) >= r2::curve().p { rand_scalar(p, &r2::curve().p) } else { l }
            } else {
                rand_scalar(p, &r2::curve().p)
            };
            let pk = Sm2PublicKey { point: r2::to_lib_point(&pt, &lam) };
            Some((pk, Sm2PrivateKey { d: r2::to_limbs(d), public_key: pk }))
        }
    }
}

pub fn provenance(how: u64) -> &'static str {
    ["key_from_constructor", "key_from_gen_keypair", "key_with_jacobian_public_point"][(how % 3) as usize]
}

/// Scalars with zero 64-bit limbs in every pattern (bit i of `mask` set = limb i forced to zero), the other limbs
/// random; reduced into [1, order-1]. Word-skipping "optimisations" of multiplication/exponentiation loops fail on these.
pub fn sparse_scalar(p: &mut Prng, mask: u64) -> BigUint {
    let order = &r2::curve().n;
    let mut l = p.limbs();
    for i in 0..4 {
        if mask >> i & 1 == 1 {
            l[i] = 0;
        } else if l[i] == 0 {
            l[i] = 1;
        }
    }
    let mut v = BigUint::from(0u32);
    for i in (0..4).rev() {
        v = (v << 64) + l[i];
    }
    let v = v % order;
    if v == BigUint::from(0u32) {
        BigUint::from(1u32) << 64
    } else {
        v
    }
}

/// Valid curve points crafted so that one of the 256-bit additions of the on-curve test, in the library's stored
/// (Montgomery) representation, falls on a boundary: `x^2 + a` and `(x^3 + ax) + b` with the stored sum in
/// [p, 2^256) (needs the conditional subtraction without a carry-out), exactly at p-1-j / p+j / 2^256-1-j / 2^256+j,
/// or with a limb pair adding up to 2^64-1 while a carry arrives from below (carry ripples through an all-ones limb).
/// Every returned point is an ordinary valid point; only the chance of meeting one by accident is ~2^-32..2^-64.
pub fn crafted_points(p: &mut Prng, per_class: usize) -> Vec<(String, (BigUint, BigUint))> {
    crafted_points_sharded(p, per_class, 0, 1)
}

/// The classes whose index is congruent to `shard` modulo `shards`.
pub fn crafted_points_sharded(p: &mut Prng, per_class: usize, shard: u64, shards: u64) -> Vec<(String, (BigUint, BigUint))> {
    let c = r2::curve();
    let two256: BigUint = BigUint::one() << 256;
    let mut out: Vec<(String, (BigUint, BigUint))> = vec![];
    let mut class_idx = 0u64;
    let adds: [(&str, [u64; 4], fn(&[u64; 4]) -> Option<(BigUint, BigUint)>); 2] = [("x^2+a", r2::to_mont_p(&c.a), r2::point_with_mont_x2), ("(x^3+ax)+b", r2::to_mont_p(&c.b), r2::point_with_mont_x3ax)];
    for (nm, cl, make) in adds {
        let cb = r2::from_limbs(&cl);
        let width = &two256 - &c.p;
        // value patterns: closures from (try index, prng) to the other operand v
        let mut pats: Vec<(String, Box<dyn Fn(u64, &mut Prng) -> Option<BigUint>>)> = vec![];
        {
            let (cb1, pp, w) = (cb.clone(), c.p.clone(), width.clone());
            pats.push((format!("{}:stored_sum_in_[p,2^256)", nm), Box::new(move |_, q| {
                let lim = if cb1 < w { cb1.clone() } else { w.clone() };
                if lim.is_zero() {
                    return None;
                }
                let t = BigUint::from_bytes_be(&q.bytes(40)) % &lim;
                Some(&pp - &cb1 + t)
            })));
            let (cb1, pp) = (cb.clone(), c.p.clone());
            pats.push((format!("{}:stored_sum=p+j", nm), Box::new(move |j, _| Some(&pp - &cb1 + j))));
            let (cb1, pp) = (cb.clone(), c.p.clone());
            pats.push((format!("{}:stored_sum=p-1-j", nm), Box::new(move |j, _| {
                let s = &pp - 1u32 - j;
                if s >= cb1 { Some(s - &cb1) } else { None }
            })));
            let (cb1, t) = (cb.clone(), two256.clone());
            pats.push((format!("{}:stored_sum=2^256-1-j", nm), Box::new(move |j, _| Some(&t - 1u32 - j - &cb1))));
            let (cb1, t) = (cb.clone(), two256.clone());
            pats.push((format!("{}:stored_sum=2^256+j", nm), Box::new(move |j, _| Some(&t + j - &cb1))));
        }
        for i in 1..4usize {
            for run in 1..=(4 - i) {
                // limbs i..i+run add up to all-ones each, a carry is generated at the highest non-zero limb of c below i
                let Some(k) = (0..i).rev().find(|&k| cl[k] != 0) else { continue };
                pats.push((format!("{}:limbs{}..{}_sum_all_ones_carry_in", nm, i, i + run - 1), Box::new(move |_, q| {
                    let mut v = q.limbs();
                    for j in (k + 1)..(i + run) {
                        v[j] = !cl[j];
                    }
                    v[k] = 0u64.wrapping_sub(cl[k]).wrapping_add(q.below(cl[k]));
                    Some(r2::from_limbs(&v))
                })));
            }
        }
        // the variable operand itself has all-ones (or zero) limbs i..i+run-1 while a carry arrives from below
        for i in 1..4usize {
            for run in 1..=(4 - i) {
                let Some(k) = (0..i).rev().find(|&k| cl[k] != 0) else { continue };
                for (fill, fname) in [(u64::MAX, "all_ones"), (0u64, "zero")] {
                    pats.push((format!("{}:operand_limbs{}..{}_{}_carry_in", nm, i, i + run - 1, fname), Box::new(move |_, q| {
                        let mut v = q.limbs();
                        for j in (k + 1)..i {
                            v[j] = !cl[j];
                        }
                        for j in i..(i + run) {
                            v[j] = fill;
                        }
                        v[k] = 0u64.wrapping_sub(cl[k]).wrapping_add(q.below(cl[k]));
                        if i + run < 4 && i + run == 3 {
                            // keep the value below p when the top limb is free
                            v[3] &= 0x7FFF_FFFF_FFFF_FFFF;
                        }
                        Some(r2::from_limbs(&v))
                    })));
                }
            }
        }
        for (name, f) in pats {
            class_idx += 1;
            let sub = p.next();
            if class_idx % shards != shard % shards {
                continue;
            }
            let p = &mut Prng::new(sub, "cls");
            let mut found = 0;
            for j in 0..96u64 {
                let Some(v) = f(j, p) else { continue };
                if v >= c.p {
                    continue;
                }
                if let Some(pt) = make(&r2::to_limbs(&v)) {
                    // the harness's own construction: the point must be on the curve
                    if r2::on_curve(&pt.0, &pt.1) {
                        out.push((name.clone(), pt));
                        found += 1;
                        if found >= per_class {
                            break;
                        }
                    }
                }
            }
        }
    }
    out
}

/// Operand pairs (a, b), both below `m`, whose INTEGER product has a chosen shape: in [m, 2^256) (upper half zero but
/// not reduced), just below m, at 2^256 - 1 - j, in [2^256, 2^256 + m); `a` of many bit lengths (2 .. 250), each pair
/// also swapped. A "small product" or "half-width operand" shortcut in a modular multiplication is wrong only here.
pub fn product_shapes(m: &BigUint, p: &mut Prng) -> Vec<(String, BigUint, BigUint)> {
    let two256: BigUint = BigUint::one() << 256;
    let mut out = vec![];
    for abits in [2u64, 3, 17, 33, 64, 65, 96, 127, 128, 129, 160, 192, 224, 250] {
        let mut a = BigUint::from_bytes_be(&p.bytes(32)) >> (256 - abits);
        a.set_bit(abits - 1, true);
        if &a >= m {
            continue;
        }
        let small = BigUint::from(p.below(1 << 20));
        let span = &two256 - m;
        let mut targets: Vec<(&str, BigUint)> = vec![];
        if a < span {
            targets.push(("product_in_[m,2^256)", m + &a + BigUint::from_bytes_be(&p.bytes(40)) % (&span - &a)));
        }
        targets.extend(vec![
            ("product=m+j", m + &a + &small),
            ("product=2^256-1-j", &two256 - 1u32 - &small),
            ("product_just_below_m", m - 1u32 - &small),
            ("product_in_[2^256,2^256+m)", &two256 + &a + BigUint::from_bytes_be(&p.bytes(40)) % m),
        ]);
        for (nm, t) in targets {
            let b = &t / &a;
            if b.is_zero() || &b >= m {
                continue;
            }
            out.push((format!("{}:a_bits={}", nm, abits), a.clone(), b.clone()));
            out.push((format!("{}:b_bits={}", nm, abits), b, a.clone()));
        }
    }
    out
}

/// Scalars made of runs of one bits: 2^a - 2^b (a run from bit b to a-1, crossing word / window boundaries when
/// a or b sit next to a multiple of 64), repeated byte patterns (aa.., 55.., 88.., f0.., ff00ff00..), 2^k +- 1.
/// Window / NAF / comb recodings carry through such digit strings.
pub fn run_scalar(p: &mut Prng, order: &BigUint) -> BigUint {
    let v = match p.below(4) {
        0 => {
            let a = 2 + p.below(255);
            let b = p.below(a);
            (BigUint::one() << a) - (BigUint::one() << b)
        }
        1 => {
            // a run that straddles a limb boundary
            let w = 64 * (1 + p.below(3));
            let (lo, hi) = (w - 1 - p.below(12), w + 1 + p.below(12));
            (BigUint::one() << hi) - (BigUint::one() << lo) + BigUint::from(p.below(16))
        }
        2 => {
            let pat = [0xaau8, 0x55, 0x88, 0xf0, 0x0f, 0x7f, 0xfe, 0x11][p.below(8) as usize];
            let alt = if p.below(2) == 0 { pat } else { !pat };
            let per = 1 + p.below(4) as usize;
            let bytes: Vec<u8> = (0..32).map(|i| if (i / per) % 2 == 0 { pat } else { alt }).collect();
            BigUint::from_bytes_be(&bytes)
        }
        _ => {
            let k = 1 + p.below(255);
            if p.below(2) == 0 { (BigUint::one() << k) + 1u32 } else { (BigUint::one() << k) - 1u32 }
        }
    };
    let v = v % order;
    if v.is_zero() { BigUint::from(3u32) } else { v }
}
