//! Monitor infrastructure: deterministic workload PRNG, outcome capture (Ok / Err / panic /
//! step-limit), class counters, distinct-case counting, violation records with stable
//! signatures, call/return journal, and the JSON result a shard hands to the driver.
use serde_json::{json, Map, Value};
use std::cell::RefCell;
use std::collections::{BTreeMap, HashSet};
use std::io::Write;
use std::panic::{catch_unwind, AssertUnwindSafe};

// ---------------------------------------------------------------- workload PRNG

/// xoshiro256** seeded through splitmix64. Owned by the harness; every random choice of a
/// workload derives from VERIF_SEED through it.
#[derive(Clone)]
pub struct Prng {
    s: [u64; 4],
}

fn splitmix(x: &mut u64) -> u64 {
    *x = x.wrapping_add(0x9E3779B97F4A7C15);
    let mut z = *x;
    z = (z ^ (z >> 30)).wrapping_mul(0xBF58476D1CE4E5B9);
    z = (z ^ (z >> 27)).wrapping_mul(0x94D049BB133111EB);
    z ^ (z >> 31)
}

impl Prng {
    pub fn new(seed: u64, stream: &str) -> Prng {
        let mut x = seed ^ 0x6a09e667f3bcc908;
        for b in stream.bytes() {
            x = x.wrapping_mul(0x100000001b3) ^ (b as u64);
            splitmix(&mut x);
        }
        let mut s = [0u64; 4];
        for v in s.iter_mut() {
            *v = splitmix(&mut x);
        }
        Prng { s }
    }
    pub fn next(&mut self) -> u64 {
        let r = self.s[1].wrapping_mul(5).rotate_left(7).wrapping_mul(9);
        let t = self.s[1] << 17;
        self.s[2] ^= self.s[0];
        self.s[3] ^= self.s[1];
        self.s[1] ^= self.s[2];
        self.s[0] ^= self.s[3];
        self.s[2] ^= t;
        self.s[3] = self.s[3].rotate_left(45);
        r
    }
    pub fn below(&mut self, n: u64) -> u64 {
        if n == 0 {
            0
        } else {
            self.next() % n
        }
    }
    pub fn range(&mut self, lo: usize, hi_incl: usize) -> usize {
        lo + self.below((hi_incl - lo + 1) as u64) as usize
    }
    pub fn bytes(&mut self, n: usize) -> Vec<u8> {
        let mut v = Vec::with_capacity(n + 8);
        while v.len() < n {
            v.extend_from_slice(&self.next().to_le_bytes());
        }
        v.truncate(n);
        v
    }
    pub fn fill(&mut self, b: &mut [u8]) {
        let v = self.bytes(b.len());
        b.copy_from_slice(&v);
    }
    pub fn arr<const N: usize>(&mut self) -> [u8; N] {
        let mut a = [0u8; N];
        self.fill(&mut a);
        a
    }
    pub fn limbs(&mut self) -> [u64; 4] {
        [self.next(), self.next(), self.next(), self.next()]
    }
    pub fn pick<'a, T>(&mut self, v: &'a [T]) -> &'a T {
        &v[self.below(v.len() as u64) as usize]
    }
    pub fn chance(&mut self, num: u64, den: u64) -> bool {
        self.below(den) < num
    }
}

// ---------------------------------------------------------------- outcome capture

#[derive(Debug, Clone)]
pub enum Outcome<T> {
    Ret(T),
    Panic(String),
    StepLimit(u64),
}

impl<T> Outcome<T> {
    pub fn class(&self) -> &'static str {
        match self {
            Outcome::Ret(_) => "ret",
            Outcome::Panic(_) => "panic",
            Outcome::StepLimit(_) => "steplimit",
        }
    }
    pub fn is_ret(&self) -> bool {
        matches!(self, Outcome::Ret(_))
    }
}

thread_local! {
    static LAST_PANIC: RefCell<Option<String>> = RefCell::new(None);
    static IN_GUARD: std::cell::Cell<u32> = std::cell::Cell::new(0);
}

pub fn install_panic_hook() {
    std::panic::set_hook(Box::new(|info| {
        let loc = info
            .location()
            .map(|l| {
                let f = l.file();
                let f = f.rsplit("/repo/").next().unwrap_or(f);
                format!("{}:{}", f, l.line())
            })
            .unwrap_or_else(|| "?".into());
        let msg = if let Some(s) = info.payload().downcast_ref::<&str>() {
            s.to_string()
        } else if let Some(s) = info.payload().downcast_ref::<String>() {
            s.clone()
        } else if info.payload().downcast_ref::<gm_sm2::verif_hooks::StepLimitExceeded>().is_some()
            || info.payload().downcast_ref::<gm_sm9::verif_hooks::StepLimitExceeded>().is_some()
        {
            "step-limit".to_string()
        } else {
            "non-string payload".to_string()
        };
        let mut m = msg.replace('\n', " ");
        m.truncate(160);
        if IN_GUARD.with(|g| g.get()) == 0 {
            // a panic of the harness itself (not of a monitored library call): make it visible
            eprintln!("HARNESS PANIC: {} @ {}", m, loc);
        }
        LAST_PANIC.with(|p| *p.borrow_mut() = Some(format!("{} @ {}", m, loc)));
    }));
}

/// Run one library call under panic capture. Every retry loop of the library draws RNG
/// candidates, so the hook's draw counter (reset here) is the load-independent step limit.
pub fn guard<T>(f: impl FnOnce() -> T) -> Outcome<T> {
    gm_sm2::verif_hooks::rng_set_limit(STEP_LIMIT);
    gm_sm9::verif_hooks::rng_set_limit(STEP_LIMIT);
    IN_GUARD.with(|g| g.set(g.get() + 1));
    let r = catch_unwind(AssertUnwindSafe(f));
    IN_GUARD.with(|g| g.set(g.get() - 1));
    match r {
        Ok(v) => Outcome::Ret(v),
        Err(p) => {
            if let Some(s) = p.downcast_ref::<gm_sm2::verif_hooks::StepLimitExceeded>() {
                return Outcome::StepLimit(s.0);
            }
            if let Some(s) = p.downcast_ref::<gm_sm9::verif_hooks::StepLimitExceeded>() {
                return Outcome::StepLimit(s.0);
            }
            let m = LAST_PANIC.with(|p| p.borrow_mut().take()).unwrap_or_else(|| "?".into());
            Outcome::Panic(m)
        }
    }
}

pub const STEP_LIMIT: u64 = 64;

// ---------------------------------------------------------------- result collection

pub fn hx(b: &[u8]) -> String {
    if b.len() <= 160 {
        hex::encode(b)
    } else {
        format!("{}..({} bytes)..{}", hex::encode(&b[..64]), b.len(), hex::encode(&b[b.len() - 32..]))
    }
}

pub fn hxfull(b: &[u8]) -> String {
    hex::encode(b)
}

fn fnv(parts: &[&[u8]]) -> u128 {
    // two independent 64-bit FNV-style lanes -> 128-bit case digest for distinct counting
    let mut a: u64 = 0xcbf29ce484222325;
    let mut b: u64 = 0x84222325cbf29ce4;
    for p in parts {
        for &x in p.iter() {
            a = (a ^ x as u64).wrapping_mul(0x100000001b3);
            b = (b ^ x as u64).wrapping_mul(0x9E3779B97F4A7C15).rotate_left(23);
        }
        a = (a ^ 0xff).wrapping_mul(0x100000001b3);
        b = b.wrapping_add(p.len() as u64).rotate_left(7);
    }
    ((a as u128) << 64) | b as u128
}

pub struct Violation {
    pub sig: String,
    pub count: u64,
    pub witness: Value,
}

pub struct Ctx {
    pub prop: String,
    pub tier: String,
    pub thorough: bool,
    pub seed: u64,
    pub shard: usize,
    pub nshards: usize,
    pub profile: String,
    pub evaluations: u64,
    distinct: HashSet<u128>,
    pub classes: BTreeMap<String, u64>,
    pub required: Vec<String>,
    pub samples: Vec<Value>,
    pub violations: BTreeMap<String, Violation>,
    pub exhaustive: BTreeMap<String, bool>,
    pub notes: Vec<String>,
    pub selftest: Vec<(String, bool)>,
    journal: Option<std::fs::File>,
    pub case_counter: u64,
    pub max_samples: usize,
    /// tokens that must be unique across all shards/processes of a run (checked by the driver)
    pub unique_tokens: Vec<String>,
    /// per call site: (order tag, number of scalars, per-bit count of ones) for the driver's 8-sigma test
    pub bit_stats: BTreeMap<String, (String, u64, Vec<u64>)>,
    /// per call site: sum over scalars of popcount(x XOR rotl(x, s)) for s in ROT_SHIFTS (structure / periodicity monitor)
    pub rot_stats: BTreeMap<String, (u64, Vec<u64>)>,
}

/// rotations are taken inside the low 192 bits, which are uniform to within 2^-63 for both group orders
pub const ROT_SHIFTS: [u32; 6] = [1, 8, 16, 32, 64, 96];

impl Ctx {
    pub fn new(prop: &str, tier: &str, seed: u64, shard: usize, nshards: usize, profile: &str, journal: Option<&str>) -> Ctx {
        let journal = journal.map(|p| {
            std::fs::OpenOptions::new().create(true).write(true).truncate(true).open(p).expect("journal")
        });
        Ctx {
            prop: prop.to_string(),
            tier: tier.to_string(),
            thorough: tier == "thorough",
            seed,
            shard,
            nshards,
            profile: profile.to_string(),
            evaluations: 0,
            distinct: HashSet::new(),
            classes: BTreeMap::new(),
            required: vec![],
            samples: vec![],
            violations: BTreeMap::new(),
            exhaustive: BTreeMap::new(),
            notes: vec![],
            selftest: vec![],
            journal,
            case_counter: 0,
            max_samples: 8,
            unique_tokens: vec![],
            bit_stats: BTreeMap::new(),
            rot_stats: BTreeMap::new(),
        }
    }
    /// Work partitioning: case number i of a section belongs to exactly one shard.
    pub fn mine(&self, i: u64) -> bool {
        (i % self.nshards as u64) as usize == self.shard
    }
    /// quick / thorough budget selector
    pub fn n(&self, quick: u64, thorough: u64) -> u64 {
        if self.thorough {
            thorough
        } else {
            quick
        }
    }
    pub fn prng(&self, stream: &str) -> Prng {
        Prng::new(self.seed, &format!("{}/{}", self.prop, stream))
    }
    /// one monitored library call (or one monitored history step)
    pub fn eval(&mut self) {
        self.evaluations += 1;
    }
    pub fn evals(&mut self, n: u64) {
        self.evaluations += n;
    }
    pub fn class(&mut self, name: &str) {
        *self.classes.entry(name.to_string()).or_insert(0) += 1;
    }
    pub fn class_n(&mut self, name: &str, n: u64) {
        *self.classes.entry(name.to_string()).or_insert(0) += n;
    }
    pub fn require(&mut self, names: &[&str]) {
        for n in names {
            if !self.required.iter().any(|x| x == n) {
                self.required.push(n.to_string());
            }
        }
    }
    /// register a distinct non-trivial case (operation + input digest)
    pub fn distinct(&mut self, op: &str, parts: &[&[u8]]) {
        let mut v: Vec<&[u8]> = vec![op.as_bytes()];
        v.extend_from_slice(parts);
        self.distinct.insert(fnv(&v));
    }
    pub fn sample(&mut self, v: Value) {
        if self.samples.len() < self.max_samples {
            self.samples.push(v);
        }
    }
    pub fn sample_every(&mut self, i: u64, every: u64, v: impl FnOnce() -> Value) {
        if i % every == 0 && self.samples.len() < self.max_samples {
            self.samples.push(v());
        }
    }
    pub fn note(&mut self, s: &str) {
        if !self.notes.iter().any(|x| x == s) {
            self.notes.push(s.to_string());
        }
    }
    pub fn exhaustive(&mut self, space: &str, complete: bool) {
        self.exhaustive.insert(space.to_string(), complete);
    }
    pub fn selftest(&mut self, name: &str, ok: bool) {
        self.selftest.push((name.to_string(), ok));
    }
    /// A violation with a stable signature `<op>:<input class>:<symptom>`; the first witness per
    /// signature is kept in full, later ones only counted.
    pub fn violation(&mut self, sig: &str, witness: Value) {
        let e = self.violations.entry(sig.to_string()).or_insert(Violation {
            sig: sig.to_string(),
            count: 0,
            witness: Value::Null,
        });
        e.count += 1;
        if e.count == 1 {
            e.witness = witness;
        }
    }
    pub fn unique(&mut self, site: &str, token: &[u8]) {
        self.unique_tokens.push(format!("{}:{}", hex::encode(token), site));
    }
    pub fn bits(&mut self, site: &str, order: &str, value_be: &[u8; 32]) {
        let e = self.bit_stats.entry(site.to_string()).or_insert_with(|| (order.to_string(), 0, vec![0; 256]));
        e.1 += 1;
        for j in 0..256 {
            // bit j of the integer (j = 0 least significant)
            if value_be[31 - j / 8] >> (j % 8) & 1 == 1 {
                e.2[j] += 1;
            }
        }
    }
    pub fn rot(&mut self, site: &str, value_be: &[u8; 32]) {
        let x = be_to_limbs(value_be);
        let bit = |i: u32| -> u64 { (x[(i / 64) as usize] >> (i % 64)) & 1 };
        let e = self.rot_stats.entry(site.to_string()).or_insert_with(|| (0, vec![0; ROT_SHIFTS.len()]));
        e.0 += 1;
        for (k, s) in ROT_SHIFTS.iter().enumerate() {
            let mut c = 0u64;
            for i in 0..192u32 {
                c += bit(i) ^ bit((i + s) % 192);
            }
            e.1[k] += c;
        }
    }
    pub fn journal_call(&mut self, op: &str, detail: &str) {
        self.case_counter += 1;
        if let Some(f) = self.journal.as_mut() {
            let _ = writeln!(f, "C {} {} {}", self.case_counter, op, detail);
            let _ = f.flush();
        }
    }
    pub fn journal_ret(&mut self, class: &str) {
        if let Some(f) = self.journal.as_mut() {
            let _ = writeln!(f, "R {} {}", self.case_counter, class);
        }
    }
    pub fn to_json(&self, wall_s: f64) -> Value {
        let mut viol = vec![];
        for v in self.violations.values() {
            viol.push(json!({"sig": v.sig, "count": v.count, "witness": v.witness}));
        }
        let mut classes = Map::new();
        for (k, v) in &self.classes {
            classes.insert(k.clone(), json!(v));
        }
        let distinct: Vec<String> = self.distinct.iter().map(|d| format!("{:032x}", d)).collect();
        json!({
            "prop": self.prop, "tier": self.tier, "seed": self.seed, "shard": self.shard,
            "nshards": self.nshards, "profile": self.profile,
            "evaluations": self.evaluations,
            "distinct_digests": distinct,
            "classes": classes,
            "required": self.required,
            "samples": self.samples,
            "violations": viol,
            "exhaustive": self.exhaustive,
            "notes": self.notes,
            "selftest": self.selftest.iter().map(|(n, ok)| json!({"name": n, "ok": ok})).collect::<Vec<_>>(),
            "wall_s": wall_s,
            "unique_tokens": self.unique_tokens,
            "rot_stats": self.rot_stats.iter().map(|(k, v)| (k.clone(), json!({"n": v.0, "sums": v.1, "shifts": ROT_SHIFTS}))).collect::<Map<String, Value>>(),
            "bit_stats": self.bit_stats.iter().map(|(k, v)| (k.clone(), json!({"order": v.0, "n": v.1, "ones": v.2}))).collect::<Map<String, Value>>(),
        })
    }
}

// ---------------------------------------------------------------- small helpers

pub fn limbs_to_be(a: &[u64; 4]) -> [u8; 32] {
    let mut o = [0u8; 32];
    for i in 0..4 {
        o[i * 8..i * 8 + 8].copy_from_slice(&a[3 - i].to_be_bytes());
    }
    o
}

pub fn be_to_limbs(b: &[u8]) -> [u64; 4] {
    assert_eq!(b.len(), 32);
    let mut a = [0u64; 4];
    for i in 0..4 {
        let mut t = [0u8; 8];
        t.copy_from_slice(&b[i * 8..i * 8 + 8]);
        a[3 - i] = u64::from_be_bytes(t);
    }
    a
}
