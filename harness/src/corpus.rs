//! Frozen corpus access (/verif/corpus/*.json, generated once by /verif/tools, never at check time).
use serde_json::Value;

pub fn dir() -> String {
    std::env::var("VERIF_CORPUS").unwrap_or_else(|_| concat!(env!("CARGO_MANIFEST_DIR"), "/../corpus").to_string())
}

pub fn load(name: &str) -> Value {
    let p = format!("{}/{}", dir(), name);
    let s = std::fs::read_to_string(&p).unwrap_or_else(|e| panic!("corpus {}: {}", p, e));
    serde_json::from_str(&s).unwrap_or_else(|e| panic!("corpus {}: {}", p, e))
}

pub fn hexf(v: &Value, key: &str) -> Vec<u8> {
    hex::decode(v[key].as_str().unwrap_or_else(|| panic!("corpus key {}", key))).expect("corpus hex")
}

pub fn arr16(v: &Value, key: &str) -> [u8; 16] {
    let b = hexf(v, key);
    let mut a = [0u8; 16];
    a.copy_from_slice(&b);
    a
}
