//! One-time witness searches for SM2 (never run by a check; results frozen in corpus/sm2_crafted.json).
use crate::mon::Prng;
use crate::refs::sm2 as r2;
use crate::refs::sm3::sm3_parts;
use num_bigint::BigUint;
use num_traits::One;
use serde_json::json;
use std::sync::atomic::{AtomicUsize, Ordering};
use std::sync::Mutex;

const DEFAULT_ID: &[u8] = b"1234567812345678";

/// messages with SM3(ZA || M) >= n  and  (message, k) whose signature has s < 2^256 - n
pub fn search(threads: usize, want_e: usize, want_s: usize) {
    let c = r2::curve();
    let out_e = Mutex::new(vec![]);
    let out_s = Mutex::new(vec![]);
    let found_e = AtomicUsize::new(0);
    let found_s = AtomicUsize::new(0);
    std::thread::scope(|sc| {
        for t in 0..threads {
            let (out_e, out_s, found_e, found_s) = (&out_e, &out_s, &found_e, &found_s);
            sc.spawn(move || {
                let mut p = Prng::new(0x5eed_2026, &format!("sm2-search-{}", t));
                let d = crate::sm2x::rand_scalar(&mut p, &c.n);
                let pk = r2::mul(&d, &r2::g()).unwrap();
                let za = r2::za(DEFAULT_ID, &pk);
                let mut ctr: u64 = (t as u64) << 56;
                while found_e.load(Ordering::Relaxed) < want_e {
                    ctr += 1;
                    let m = ctr.to_be_bytes();
                    let e = sm3_parts(&[&za, &m]);
                    if e[0] == 0xff && e[1] == 0xff && e[2] == 0xff && e[3] == 0xff {
                        if r2::from_b(&e) >= c.n {
                            found_e.fetch_add(1, Ordering::Relaxed);
                            out_e.lock().unwrap().push(json!({"d": hex::encode(r2::b32(&d)), "msg": hex::encode(m), "e": hex::encode(e)}));
                        }
                    }
                }
                // small s
                let k = crate::sm2x::rand_scalar(&mut p, &c.n);
                let x1 = r2::mul(&k, &r2::g()).unwrap().0;
                let inv = (BigUint::one() + &d).modinv(&c.n).unwrap();
                let a = (&inv * &k) % &c.n;
                let b = (&inv * &d) % &c.n;
                let lim: BigUint = (BigUint::one() << 256) - &c.n;
                while found_s.load(Ordering::Relaxed) < want_s {
                    ctr += 1;
                    let m = ctr.to_be_bytes();
                    let e = r2::from_b(&sm3_parts(&[&za, &m]));
                    let r = (e + &x1) % &c.n;
                    let s = (&a + &c.n - (&r * &b) % &c.n) % &c.n;
                    if s < lim && !s.eq(&BigUint::from(0u32)) {
                        found_s.fetch_add(1, Ordering::Relaxed);
                        out_s.lock().unwrap().push(json!({"d": hex::encode(r2::b32(&d)), "k": hex::encode(r2::b32(&k)), "msg": hex::encode(m),
                            "r": hex::encode(r2::b32(&r)), "s": hex::encode(r2::b32(&s))}));
                    }
                }
            });
        }
    });
    println!("{}", serde_json::to_string_pretty(&json!({"e_ge_n": *out_e.lock().unwrap(), "small_s": *out_s.lock().unwrap()})).unwrap());
}

/// scalars k whose point [k]G has leading / trailing zero bytes in x or y (DER INTEGER shortening and
/// fixed-offset slicing cases). Library arithmetic is used only to scan; every hit is confirmed by the reference.
pub fn zero_coord_search(threads: usize) {
    use gm_sm2::verif_hooks as hk;
    let found: Mutex<std::collections::BTreeMap<String, String>> = Mutex::new(Default::default());
    let classes: Vec<String> = ["x", "y"].iter().flat_map(|c| ["lead", "trail"].iter().flat_map(move |e| (1..=3).map(move |n| format!("{}_{}_{}", c, e, n)))).collect();
    let total = classes.len();
    std::thread::scope(|sc| {
        for t in 0..threads {
            let found = &found;
            sc.spawn(move || {
                let mut p = Prng::new(0xc0ffee, &format!("zc-{}", t));
                let c = r2::curve();
                let mut k = crate::sm2x::rand_scalar(&mut p, &c.n);
                let mut n_iter = 0u64;
                loop {
                    n_iter += 1;
                    if n_iter % 4096 == 0 && found.lock().unwrap().len() >= total {
                        break;
                    }
                    if n_iter > (1 << 27) {
                        break;
                    }
                    k += 1u32;
                    let lk = r2::to_limbs(&k);
                    let a = gm_sm2::p256_ecc::g_mul(&lk).to_affine_point();
                    let x = crate::mon::limbs_to_be(&hk::fp_from_mont(&a.x));
                    let y = crate::mon::limbs_to_be(&hk::fp_from_mont(&a.y));
                    for (cn, v) in [("x", &x), ("y", &y)] {
                        let lead = v.iter().take_while(|&&b| b == 0).count().min(3);
                        let trail = v.iter().rev().take_while(|&&b| b == 0).count().min(3);
                        for (en, cnt) in [("lead", lead), ("trail", trail)] {
                            if cnt == 0 {
                                continue;
                            }
                            let key = format!("{}_{}_{}", cn, en, cnt);
                            let mut f = found.lock().unwrap();
                            if !f.contains_key(&key) {
                                // confirm with the reference
                                let pt = r2::mul(&k, &r2::g()).unwrap();
                                if r2::b32(&pt.0) == x && r2::b32(&pt.1) == y {
                                    f.insert(key, hex::encode(r2::b32(&k)));
                                }
                            }
                        }
                    }
                }
            });
        }
    });
    let f = found.lock().unwrap();
    let list: Vec<serde_json::Value> = f.iter().map(|(k, v)| json!({"class": k, "k": v})).collect();
    println!("{}", serde_json::to_string_pretty(&json!({"zero_coord": list})).unwrap());
}
