//! One-time witness searches for SM2 (never run by a check; results frozen in corpus/sm2_crafted.json).
use crate::mon::Prng;
use crate::refs::sm2 as r2;
use crate::refs::sm3::sm3_parts;
use num_bigint::BigUint;
use num_traits::One;
use serde_json::json;
use std::sync::atomic::{AtomicUsize, Ordering};
use std::sync::Mutex;

const DEFAULT_ID: &[u8] = b"1234567812345678";

/// messages with SM3(ZA || M) >= n  and  (message, k) whose signature has s < 2^256 - n
pub fn search(threads: usize, want_e: usize, want_s: usize) {
    let c = r2::curve();
    let out_e = Mutex::new(vec![]);
    let out_s = Mutex::new(vec![]);
    let found_e = AtomicUsize::new(0);
    let found_s = AtomicUsize::new(0);
    std::thread::scope(|sc| {
        for t in 0..threads {
            let (out_e, out_s, found_e, found_s) = (&out_e, &out_s, &found_e, &found_s);
            sc.spawn(move || {
                let mut p = Prng::new(0x5eed_2026, &format!("sm2-search-{}", t));
                let d = crate::sm2x::rand_scalar(&mut p, &c.n);
                let pk = r2::mul(&d, &r2::g()).unwrap();
                let za = r2::za(DEFAULT_ID, &pk);
                let mut ctr: u64 = (t as u64) << 56;
                while found_e.load(Ordering::Relaxed) < want_e {
                    ctr += 1;
                    let m = ctr.to_be_bytes();
                    let e = sm3_parts(&[&za, &m]);
                    if e[0] == 0xff && e[1] == 0xff && e[2] == 0xff && e[3] == 0xff {
                        if r2::from_b(&e) >= c.n {
                            found_e.fetch_add(1, Ordering::Relaxed);
                            out_e.lock().unwrap().push(json!({"d": hex::encode(r2::b32(&d)), "msg": hex::encode(m), "e": hex::encode(e)}));
                        }
                    }
                }
                // small s
                let k = crate::sm2x::rand_scalar(&mut p, &c.n);
                let x1 = r2::mul(&k, &r2::g()).unwrap().0;
                let inv = (BigUint::one() + &d).modinv(&c.n).unwrap();
                let a = (&inv * &k) % &c.n;
                let b = (&inv * &d) % &c.n;
                let lim: BigUint = (BigUint::one() << 256) - &c.n;
                while found_s.load(Ordering::Relaxed) < want_s {
                    ctr += 1;
                    let m = ctr.to_be_bytes();
                    let e = r2::from_b(&sm3_parts(&[&za, &m]));
                    let r = (e + &x1) % &c.n;
                    let s = (&a + &c.n - (&r * &b) % &c.n) % &c.n;
                    if s < lim && !s.eq(&BigUint::from(0u32)) {
                        found_s.fetch_add(1, Ordering::Relaxed);
                        out_s.lock().unwrap().push(json!({"d": hex::encode(r2::b32(&d)), "k": hex::encode(r2::b32(&k)), "msg": hex::encode(m),
                            "r": hex::encode(r2::b32(&r)), "s": hex::encode(r2::b32(&s))}));
                    }
                }
            });
        }
    });
    println!("{}", serde_json::to_string_pretty(&json!({"e_ge_n": *out_e.lock().unwrap(), "small_s": *out_s.lock().unwrap()})).unwrap());
}
