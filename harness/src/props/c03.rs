//! C03 — SM2 signatures verify and conform to GB/T 32918.2.
use crate::corpus;
use crate::mon::{guard, hx, Ctx, Outcome, Prng};
use crate::refs::sm2 as r2;
use crate::sm2x::*;
use num_bigint::BigUint;
use num_traits::Zero;
use serde_json::json;

const DEFAULT_ID: &str = "1234567812345678";

fn id_for(p: &mut Prng, sel: u64) -> (Option<&'static str>, String) {
    match sel % 9 {
        8 => {
            let n = p.range(1, 24);
            let s = utf8_id(p, n);
            (Some(leak(s.clone())), s)
        }
        0 | 1 | 2 => (None, DEFAULT_ID.to_string()),
        3 => (Some(""), String::new()),
        4 => {
            let s = ascii_id(p, 1);
            (Some(leak(s.clone())), s)
        }
        5 => {
            let s = ascii_id(p, 16);
            (Some(leak(s.clone())), s)
        }
        6 => {
            let s = ascii_id(p, 255);
            (Some(leak(s.clone())), s)
        }
        _ => {
            let l = p.range(17, 700);
            let s = ascii_id(p, l);
            (Some(leak(s.clone())), s)
        }
    }
}

pub fn run(ctx: &mut Ctx) {
    for (n, ok) in r2::selftest() {
        ctx.selftest(&n, ok);
    }
    ctx.require(&["annex_kat", "fixed_nonce_exact", "free_nonce", "ref_made_accepted", "openssl_made_accepted", "id_default", "id_explicit", "id_empty", "id_8191", "id_too_long", "id_non_ascii_utf8", "msg_empty", "edge_key", "random_key", "e_ge_n", "key_from_constructor", "key_from_gen_keypair", "key_with_jacobian_public_point", "retry:r=0", "retry:r+k=n", "retry:s=0", "digest_regular", "id_len_threshold", "msg_beyond_2^16_bits", "verifier_key_from_compressed_bytes", "id_length_sweep", "signature_with_chosen_leading_bytes", "id_with_surrounding_whitespace", "digest:x1_ge_n_valid"]);
    let c = r2::curve();

    // --- Annex example through the library with the nonce injected
    if ctx.shard == 0 {
        let d = r2::hexn("3945208F7B2144B13F36E38AC6D39F95889393692860B51A42FB81EF4DF7C5B8");
        let k = r2::hexn("59276E27D506861A16680F3AD9C02DCCEF3CC1FA3CDBE4CE6D54B80DEAC1BC21");
        ctx.class("annex_kat");
        fixed_case(ctx, &d, None, DEFAULT_ID, b"message digest", &k, "annex_kat");
        ctx.sample(json!({"annex": {"d": "3945208F..C5B8", "k": "59276E27..BC21", "msg": "message digest", "r": "F5A03B06..20B3", "s": "B1B6AA29..C1AA"}}));
    }

    // --- digest level (hook `verif_sign_digest`): e is chosen so that the injected nonce meets one of the standard's
    // three retry conditions (r = 0, r + k = n, s = 0), which no message can be made to hash to. The signer must not
    // emit the forbidden signature: either it draws again (then the result must be the standard's value for the next
    // nonce) or it reports an error.
    {
        let n = ctx.n(60, 3000);
        let mut pd = ctx.prng("digest");
        for i in 0..n {
            let sub = pd.next();
            if !ctx.mine(i) {
                continue;
            }
            let mut p = Prng::new(sub, "dg");
            let d = key_for(&mut p, (i / 4) % 40);
            let Some(sk) = lib_sk(&d) else { continue };
            let k = rand_scalar(&mut p, &c.n);
            let k2 = rand_scalar(&mut p, &c.n);
            let x1 = r2::mul(&k, &r2::g()).unwrap().0;
            let (cls, e) = match i % 4 {
                0 => ("retry:r=0", (&c.n - (&x1 % &c.n)) % &c.n),
                1 => ("retry:r+k=n", (&c.n + &c.n - &k - (&x1 % &c.n)) % &c.n),
                2 => {
                    // s = 0  <=>  k = r d  <=>  r = k / d
                    let r = (&k * d.modinv(&c.n).unwrap()) % &c.n;
                    ("retry:s=0", (&r + &c.n - (&x1 % &c.n)) % &c.n)
                }
                _ => ("digest_regular", BigUint::from_bytes_be(&p.bytes(32))),
            };
            // the same residue also as e + n when that still fits in 256 bits (e is not reduced by the caller)
            let e = if i % 8 >= 4 && (&e + &c.n).bits() <= 256 { &e + &c.n } else { e };
            let eb = r2::b32(&e);
            let w = json!({"d": hex::encode(r2::b32(&d)), "e": hex::encode(eb), "k": hex::encode(r2::b32(&k)), "k_next": hex::encode(r2::b32(&k2)), "class": cls});
            ctx.eval();
            ctx.class(cls);
            ctx.distinct("digest", &[&r2::b32(&d), &eb, &r2::b32(&k)]);
            let first = r2::sign_e(&d, &e, &k);
            if (cls != "digest_regular") != first.is_none() {
                ctx.violation("harness:crafted-retry-condition-not-reproduced", w.clone());
                continue;
            }
            rng_prepare(&[&k, &k2]);
            let o = guard(|| sk.verif_sign_digest(&eb));
            let seen = rng_seen();
            match o {
                Outcome::Ret(Ok(sig)) => {
                    let used = r2::recover_nonce(&d, &sig);
                    let (r, s_) = (r2::from_b(&sig[..32.min(sig.len())]), r2::from_b(&sig[32.min(sig.len())..]));
                    if sig.len() != 64 || r.is_zero() || s_.is_zero() || r >= c.n || s_ >= c.n {
                        ctx.violation(&format!("sign(digest):{}:component-out-of-range", cls), json!({"case": w, "sig": hx(&sig)}));
                    } else if first.is_none() && used == k {
                        ctx.violation(&format!("sign(digest):{}:signature-made-with-the-nonce-that-must-be-retried", cls), json!({"case": w, "sig": hx(&sig)}));
                    } else if !r2::verify_e(&r2::mul(&d, &r2::g()).unwrap(), &e, &sig) {
                        ctx.violation(&format!("sign(digest):{}:rejected-by-reference-verifier", cls), json!({"case": w, "sig": hx(&sig)}));
                    } else {
                        // exact value when the injected nonces were the ones drawn
                        let want = match first {
                            Some(v) => Some(v),
                            None => r2::sign_e(&d, &e, &k2),
                        };
                        let drawn_ok = seen.accepted.first() == Some(&k) && (first.is_some() || seen.accepted.get(1) == Some(&k2));
                        if let (Some((wr, ws)), true) = (want, drawn_ok) {
                            if sig[..32] != wr || sig[32..] != ws {
                                ctx.violation(&format!("sign(digest):{}:signature-differs-from-standard", cls), json!({"case": w, "sig": hx(&sig)}));
                            } else if first.is_none() {
                                ctx.class("retry_then_standard_value");
                            }
                        }
                    }
                }
                Outcome::Ret(Err(_)) if first.is_none() => ctx.class("retry_condition_reported_as_error"),
                o => ctx.violation(&format!("sign(digest):{}:{}", cls, oc(&o)), w),
            }
        }
    }

    // --- digest level, verifier side: a conforming (e, r, s) whose recomputed point has x1 in [n, p) must be accepted
    // (built backwards from a curve point R with x = n + j: P = R + [5]G, s = n - 5, r = 6, e = r - x1 mod n)
    if ctx.mine(5) {
        let mut j = 0u32;
        let rpt = loop {
            if let Some(pt) = r2::point_from_x(&(&c.n + j)) {
                break pt;
            }
            j += 1;
        };
        let pkey = r2::add(&Some(rpt.clone()), &r2::mul(&BigUint::from(5u32), &r2::g())).unwrap();
        let (r, s_) = (BigUint::from(6u32), &c.n - 5u32);
        let e = (&r + &c.n - (&rpt.0 % &c.n)) % &c.n;
        let mut sig = r2::b32(&r).to_vec();
        sig.extend_from_slice(&r2::b32(&s_));
        ctx.eval();
        ctx.class("digest:x1_ge_n_valid");
        if r2::verify_e(&pkey, &e, &sig) {
            if let Some(lpk) = lib_pk(&pkey) {
                match guard(|| lpk.verif_verify_digest(&r2::b32(&e), &sig)) {
                    Outcome::Ret(Ok(())) => {}
                    o => ctx.violation(&format!("verify(digest):x1_ge_n:valid-signature-rejected:{}", o.class()), json!({"pk": hex::encode(r2::encode(&pkey, false)), "e": hex::encode(r2::b32(&e)), "sig": hx(&sig)})),
                }
            }
        } else {
            ctx.violation("harness:digest-level-case-not-as-constructed", json!({"class": "x1_ge_n"}));
        }
    }

    // --- crafted: messages whose digest e = SM3(ZA||M) is >= n (reduction of e mod n matters), found once by search
    let cr = corpus::load("sm2_crafted.json");
    for (i, v) in cr["e_ge_n"].as_array().unwrap().iter().enumerate() {
        let d = r2::from_b(&corpus::hexf(v, "d"));
        let msg = corpus::hexf(v, "msg");
        let pk = r2::mul(&d, &r2::g()).unwrap();
        let e = r2::digest_e(DEFAULT_ID.as_bytes(), &pk, &msg);
        ctx.selftest(&format!("crafted e>=n witness {} reproduces in the reference", i), e >= c.n);
        if !ctx.mine(i as u64) {
            continue;
        }
        let mut p = ctx.prng(&format!("egen{}", i));
        for _ in 0..4 {
            let k = rand_scalar(&mut p, &c.n);
            ctx.class("e_ge_n");
            fixed_case(ctx, &d, None, DEFAULT_ID, &msg, &k, "e_ge_n");
        }
        free_case(ctx, &d, None, DEFAULT_ID, &msg, "e_ge_n");
    }

    // --- main sweep
    let n = ctx.n(3000, 200_000);
    let mut prng = ctx.prng("sweep");
    for i in 0..n {
        let sub = prng.next();
        if !ctx.mine(i) {
            continue;
        }
        let mut p = Prng::new(sub, "case");
        let d = key_for(&mut p, i / 16 % 64);
        ctx.class(if ((i / 16 % 64) as usize) < edge_keys().len() { "edge_key" } else { "random_key" });
        let (id_opt, id_str) = id_for(&mut p, i);
        ctx.class(match id_opt {
            None => "id_default",
            Some("") => "id_empty",
            Some(_) => "id_explicit",
        });
        if !id_str.is_ascii() {
            ctx.class("id_non_ascii_utf8");
        }
        let mlen = match i % 5 {
            0 => (i / 5 % 4097) as usize,
            1 => 0,
            _ => p.range(0, 200),
        };
        if mlen == 0 {
            ctx.class("msg_empty");
        }
        let msg = p.bytes(mlen);
        let k = if i % 7 == 0 { r2::curve().n.clone() - 1u32 - BigUint::from(i % 3) } else if i % 11 == 3 { BigUint::from(1 + i % 4) } else if i % 11 == 5 { sparse_scalar(&mut p, 1 + (i / 11) % 14) } else if i % 11 == 8 { run_scalar(&mut p, &c.n) } else { rand_scalar(&mut p, &c.n) };
        let how = i / 3;
        match i % 3 {
            0 => fixed_case_how(ctx, &d, id_opt, &id_str, &msg, &k, "sweep", how),
            1 => free_case_how(ctx, &d, id_opt, &id_str, &msg, "sweep", how),
            _ => ref_made_case(ctx, &d, id_opt, &id_str, &msg, &k, how),
        }
        if i % 1000 == 0 {
            ctx.sample(json!({"d": hex::encode(r2::b32(&d)), "id": if id_str.len() > 40 { format!("{} chars", id_str.len()) } else { id_str.clone() }, "msg_len": mlen, "mode": (["fixed nonce", "free nonce", "reference-made"][(i % 3) as usize])}));
        }
    }

    // --- valid signatures whose r (or s) BEGINS with chosen bytes: 30 3e (looks like the header of a 64-byte DER
    // SEQUENCE), 30 44, 04, 00 00 (short value), ff ff. The message is searched (about 2^16 digests) for a fixed key and
    // nonce; the signature is an ordinary valid one and must be produced and accepted like any other.
    {
        let mut ps = ctx.prng("sig_prefix");
        let pats: [(&str, usize, &[u8]); 8] = [("r=303e..", 0, &[0x30, 0x3e]), ("r=3044..", 0, &[0x30, 0x44]), ("r=0000..", 0, &[0, 0]), ("r=ffff..", 0, &[0xff, 0xff]), ("r=04..", 0, &[0x04]), ("s=303e..", 32, &[0x30, 0x3e]), ("s=0000..", 32, &[0, 0]), ("s=ffff..", 32, &[0xff, 0xff])];
        for (pi, (name, off, want)) in pats.iter().enumerate() {
            let sub = ps.next();
            if !ctx.mine(pi as u64 + 1) {
                continue;
            }
            let mut p = Prng::new(sub, "sp");
            let d = rand_scalar(&mut p, &(&c.n - 1u32));
            let k = rand_scalar(&mut p, &c.n);
            let pk = r2::mul(&d, &r2::g()).unwrap();
            let x1 = r2::mul(&k, &r2::g()).unwrap().0;
            let inv = (BigUint::from(1u32) + &d).modinv(&c.n).unwrap();
            let za = r2::za(DEFAULT_ID.as_bytes(), &pk);
            let mut found = None;
            for ctr in 0..(1u64 << 21) {
                let msg = format!("prefix-search-{}-{}", pi, ctr).into_bytes();
                let e = r2::from_b(&crate::refs::sm3::sm3_parts(&[&za, &msg]));
                let r = (&e + &x1) % &c.n;
                let v = if *off == 0 { r.clone() } else { (&inv * ((&k + &c.n * &c.n - &r * &d) % &c.n)) % &c.n };
                if r2::b32(&v)[..want.len()] == **want {
                    found = Some(msg);
                    break;
                }
            }
            let Some(msg) = found else { continue };
            ctx.class("signature_with_chosen_leading_bytes");
            ctx.class(&format!("sig_prefix:{}", name));
            fixed_case(ctx, &d, None, DEFAULT_ID, &msg, &k, "signature_with_chosen_leading_bytes");
            ref_made_case(ctx, &d, None, DEFAULT_ID, &msg, &k, 0);
        }
    }
    // --- signer IDs with leading / trailing blanks, tabs, newlines: hashed exactly as given
    {
        let mut pw = ctx.prng("ws_ids");
        for (k, id) in ["alice@example.com ", " alice@example.com", "alice@example.com\n", "\talice", " ", "  ", "a b", "\r\n"].iter().enumerate() {
            let sub = pw.next();
            if !ctx.mine(k as u64) {
                continue;
            }
            let mut p = Prng::new(sub, "ws");
            let d = rand_scalar(&mut p, &(&c.n - 1u32));
            let k_ = rand_scalar(&mut p, &c.n);
            let msg = p.bytes(12);
            ctx.class("id_with_surrounding_whitespace");
            fixed_case(ctx, &d, Some(id), id, &msg, &k_, "id_with_surrounding_whitespace");
            ref_made_case(ctx, &d, Some(id), id, &msg, &k_, 0);
        }
    }
    // --- signer ID lengths 0..=130: the hash input of ZA (194 + |ID| bytes) takes every residue modulo the SM3 block size
    {
        let mut pi = ctx.prng("id_sweep");
        for len in 0..=130usize {
            let sub = pi.next();
            if !ctx.mine(len as u64) {
                continue;
            }
            let mut p = Prng::new(sub, "ids");
            let d = rand_scalar(&mut p, &(&c.n - 1u32));
            let k = rand_scalar(&mut p, &c.n);
            let id = ascii_id(&mut p, len);
            let msg = p.bytes(10);
            ctx.class("id_length_sweep");
            fixed_case(ctx, &d, Some(leak(id.clone())), &id, &msg, &k, "id_length_sweep");
            ref_made_case(ctx, &d, Some(leak(id.clone())), &id, &msg, &k, 0);
        }
        ctx.exhaustive("signer ID lengths 0..=130", true);
    }
    // --- thresholds: ID lengths around 2^5, 2^8, 2^12 bytes (ENTL bytes) and messages beyond 2^16 bits / 2^16 bytes
    {
        let mut pt = ctx.prng("thresholds");
        let idlens = [31usize, 32, 33, 255, 256, 257, 4095, 4096, 8190];
        let mlens = [8183usize, 8185, 8192, 65535, 65536, 70001, 1 << 20, (1 << 21) - 200, 1 << 21, (1 << 24) + 1];
        let reps = ctx.n(1, 6);
        let mut ti = 0u64;
        for _ in 0..reps {
            for j in 0..idlens.len().max(mlens.len()) {
                ti += 1;
                let sub = pt.next();
                if !ctx.mine(ti) {
                    continue;
                }
                let mut p = Prng::new(sub, "th");
                let d = rand_scalar(&mut p, &(&c.n - 1u32));
                let k = rand_scalar(&mut p, &c.n);
                if j < idlens.len() {
                    let id = ascii_id(&mut p, idlens[j]);
                    let msg = p.bytes(20);
                    ctx.class("id_len_threshold");
                    fixed_case(ctx, &d, Some(leak(id.clone())), &id, &msg, &k, "id_len_threshold");
                    ref_made_case(ctx, &d, Some(leak(id.clone())), &id, &msg, &k, 0);
                }
                if j < mlens.len() {
                    let msg = p.bytes(mlens[j]);
                    ctx.class("msg_beyond_2^16_bits");
                    fixed_case(ctx, &d, None, DEFAULT_ID, &msg, &k, "msg_beyond_2^16_bits");
                    ref_made_case(ctx, &d, None, DEFAULT_ID, &msg, &k, 0);
                }
            }
        }
    }

    // --- ZA || M of 2^29 bytes and more: the SM3 bit length needs more than 32 bits. One shard only (1.5 GB transient).
    if ctx.shard == ctx.nshards - 1 {
        let mut p = ctx.prng("bitlen_2^32");
        let lens: Vec<usize> = if ctx.thorough { vec![(1 << 29) - 32, (1 << 29) + 1] } else { vec![(1 << 29) - 32] };
        for len in lens {
            let d = rand_scalar(&mut p, &(&c.n - 1u32));
            let k = rand_scalar(&mut p, &c.n);
            let mut msg = vec![0u8; len];
            let head = p.bytes(4096);
            msg[..4096].copy_from_slice(&head);
            let tail = p.bytes(4096);
            msg[len - 4096..].copy_from_slice(&tail);
            ctx.class("msg_bitlen_beyond_2^32");
            ctx.journal_call("sign", &format!("message of {} bytes", len));
            fixed_case(ctx, &d, None, DEFAULT_ID, &msg, &k, "msg_bitlen_beyond_2^32");
            ctx.journal_ret("done");
        }
    }

    // --- long IDs: 8191 bytes must work, 8192 must be IdTooLong
    if ctx.mine(7) {
        let mut p = ctx.prng("longid");
        let d = rand_scalar(&mut p, &c.n);
        let id = ascii_id(&mut p, 8191);
        ctx.class("id_8191");
        let k = rand_scalar(&mut p, &c.n);
        fixed_case(ctx, &d, Some(leak(id.clone())), &id, b"long id", &k, "id_8191");
        let id2 = ascii_id(&mut p, 8192);
        let sk = lib_sk(&d);
        if let Some(sk) = sk {
            ctx.eval();
            ctx.class("id_too_long");
            let ids = leak(id2);
            match guard(|| sk.sign(Some(ids), b"x")) {
                Outcome::Ret(Err(_)) => {}
                o => ctx.violation(&format!("sign:id=8192-bytes:{}", oc(&o)), json!({"id_len": 8192})),
            }
            ctx.eval();
            match guard(|| sk.public_key.verify(Some(ids), b"x", &[1u8; 64])) {
                Outcome::Ret(Err(_)) => {}
                o => ctx.violation(&format!("verify:id=8192-bytes:{}", oc(&o)), json!({"id_len": 8192})),
            }
            // a refused call must leave nothing behind: the next calls on this thread, with a valid ID, are exact
            for j in 0..2 {
                ctx.eval();
                let _ = guard(|| if j == 0 { sk.sign(Some(ids), b"x").map(|_| ()) } else { sk.public_key.verify(Some(ids), b"x", &[1u8; 64]) });
                let k2 = rand_scalar(&mut p, &c.n);
                ctx.class("valid_call_right_after_refused_call");
                fixed_case(ctx, &d, if j == 0 { None } else { Some("after") }, if j == 0 { DEFAULT_ID } else { "after" }, b"after a refused call", &k2, "valid_call_right_after_refused_call");
                let _ = guard(|| sk.public_key.verify(Some(ids), b"x", &[1u8; 64]));
                ref_made_case(ctx, &d, None, DEFAULT_ID, b"verify after a refused call", &k2, 0);
            }
        }
    }

    // --- opposite keys d and n - d (public keys P and -P share x) with one ID, used alternately on one thread
    {
        let no = ctx.n(4, 64);
        let mut po = ctx.prng("opposite_keys");
        for i in 0..no {
            let sub = po.next();
            if !ctx.mine(i) {
                continue;
            }
            let mut p = Prng::new(sub, "o");
            let d = rand_scalar(&mut p, &(&c.n - 2u32));
            let dn = &c.n - &d;
            if d.is_zero() || dn >= &c.n - 1u32 {
                continue;
            }
            let id = ascii_id(&mut p, 1 + (i as usize % 20));
            let ids = leak(id.clone());
            let msg = p.bytes(24);
            let (k1, k2) = (rand_scalar(&mut p, &c.n), rand_scalar(&mut p, &c.n));
            let (Some((r1, s1)), Some((r2_, s2))) = (r2::sign(&d, id.as_bytes(), &msg, &k1), r2::sign(&dn, id.as_bytes(), &msg, &k2)) else { continue };
            let (pk1, pk2) = (r2::mul(&d, &r2::g()).unwrap(), r2::mul(&dn, &r2::g()).unwrap());
            let (Some(l1), Some(l2)) = (lib_pk(&pk1), lib_pk(&pk2)) else { continue };
            let sig1 = [r1.to_vec(), s1.to_vec()].concat();
            let sig2 = [r2_.to_vec(), s2.to_vec()].concat();
            // verifications only (no signing in between), then signing under both keys
            for (lpk, sig, dd) in [(&l1, &sig1, &d), (&l2, &sig2, &dn), (&l1, &sig1, &d), (&l2, &sig2, &dn)] {
                ctx.class("opposite_keys_same_id_consecutive");
                check_accepts(ctx, lpk, Some(ids), &id, &msg, sig, dd, "opposite_keys_same_id_consecutive");
            }
            fixed_case(ctx, &d, Some(ids), &id, &msg, &k1, "opposite_keys_same_id_consecutive");
            fixed_case(ctx, &dn, Some(ids), &id, &msg, &k2, "opposite_keys_same_id_consecutive");
            fixed_case(ctx, &d, Some(ids), &id, &msg, &k2, "opposite_keys_same_id_consecutive");
        }
    }

    // --- OpenSSL-made signatures
    let cs = corpus::load("sm2_openssl.json");
    for (i, v) in cs["signatures"].as_array().unwrap().iter().enumerate() {
        if !ctx.mine(i as u64) {
            continue;
        }
        let d = r2::from_b(&corpus::hexf(v, "d"));
        let msg = corpus::hexf(v, "msg");
        let sig = corpus::hexf(v, "sig_rs");
        let id = v["id"].as_str().unwrap().to_string();
        let pk = r2::mul(&d, &r2::g()).unwrap();
        ctx.selftest("reference verifier accepts the OpenSSL-made signatures", r2::verify(&pk, id.as_bytes(), &msg, &sig));
        let Some(lpk) = lib_pk(&pk) else {
            ctx.violation("Sm2PublicKey::new:valid-point:not-ok", json!({"pk": hex::encode(r2::encode(&pk, false))}));
            continue;
        };
        ctx.eval();
        ctx.class("openssl_made_accepted");
        ctx.distinct("verify", &[&sig, &msg]);
        let ids: Option<&'static str> = if id == DEFAULT_ID && i % 2 == 0 { None } else { Some(leak(id.clone())) };
        match guard(|| lpk.verify(ids, &msg, &sig)) {
            Outcome::Ret(Ok(())) => {}
            o => ctx.violation(&format!("verify:openssl-made-signature:{}", oc(&o)), json!({"d": hex::encode(r2::b32(&d)), "id": id, "msg": hx(&msg), "sig": hex::encode(&sig)})),
        }
    }
    ctx.note("the three retry branches of signing (r = 0, r + k = n, s = 0) need a hash preimage and are not reachable by any workload");
}

fn oc<T, E>(o: &Outcome<Result<T, E>>) -> &'static str {
    match o {
        Outcome::Ret(Ok(_)) => "ok",
        Outcome::Ret(Err(_)) => "err",
        Outcome::Panic(_) => "panic",
        Outcome::StepLimit(_) => "steplimit",
    }
}

fn wit(d: &BigUint, id: &str, msg: &[u8], k: Option<&BigUint>) -> serde_json::Value {
    json!({"d": hex::encode(r2::b32(d)), "id": if id.len() > 64 { format!("<{} chars>", id.len()) } else { id.to_string() }, "msg": hx(msg), "k": k.map(|k| hex::encode(r2::b32(k)))})
}

/// injected nonce -> byte-exact (r||s); the result must verify in library and reference
fn fixed_case(ctx: &mut Ctx, d: &BigUint, id: Option<&'static str>, id_str: &str, msg: &[u8], k: &BigUint, cls: &str) {
    fixed_case_how(ctx, d, id, id_str, msg, k, cls, 0)
}

fn fixed_case_how(ctx: &mut Ctx, d: &BigUint, id: Option<&'static str>, id_str: &str, msg: &[u8], k: &BigUint, cls: &str, how: u64) {
    ctx.class(provenance(how));
    let mut pp = Prng::new(how, "prov");
    let Some((prov_pk, sk)) = lib_keys(d, how, &mut pp) else {
        ctx.violation("Sm2PrivateKey::new:d-in-[1,n-2]:not-ok", json!({"d": hex::encode(r2::b32(d))}));
        return;
    };
    let expect = r2::sign(d, id_str.as_bytes(), msg, k);
    let Some((er, es)) = expect else {
        ctx.class("ref_retry_condition");
        return;
    };
    ctx.eval();
    ctx.class("fixed_nonce_exact");
    ctx.distinct("sign-fixed", &[&r2::b32(d), id_str.as_bytes(), msg, &r2::b32(k)]);
    rng_prepare(&[k]);
    let o = guard(|| sk.sign(id, msg));
    let seen = rng_seen();
    match o {
        Outcome::Ret(Ok(sig)) => {
            let mut e = er.to_vec();
            e.extend_from_slice(&es);
            if seen.pending != 0 || seen.accepted.len() != 1 || &seen.accepted[0] != k {
                // the injected candidate was not the one used: only legal if the generator rejected it
                ctx.class("injected_nonce_not_used");
                if k < &(&r2::curve().n - 1u32) {
                    ctx.violation(&format!("sign:{}:injected-valid-nonce-not-used", cls), json!({"case": wit(d, id_str, msg, Some(k)), "accepted": seen.accepted.iter().map(|a| hex::encode(r2::b32(a))).collect::<Vec<_>>()}));
                }
                return;
            }
            if sig != e {
                ctx.violation(&format!("sign:{}:signature-differs-from-standard", cls), json!({"case": wit(d, id_str, msg, Some(k)), "expected": hex::encode(&e), "actual": hex::encode(&sig)}));
                return;
            }
            check_accepts(ctx, &sk.public_key, id, id_str, msg, &sig, d, cls);
            check_accepts(ctx, &prov_pk, id, id_str, msg, &sig, d, &format!("{}/provenance-public-key", cls));
            // the signer's key as exported in compressed form must be the signer's point for any SEC1 reader
            if let Outcome::Ret(b) = guard(|| sk.public_key.to_bytes(true)) {
                ctx.eval();
                if r2::decode(&b) != r2::mul(d, &r2::g()) {
                    ctx.violation("sign:exported-compressed-public-key-is-not-[d]G", json!({"case": wit(d, id_str, msg, Some(k)), "exported": hex::encode(&b)}));
                }
            }
            // the relying party's key object: decoded from the encoded public key
            if let Outcome::Ret(b) = guard(|| sk.public_key.to_bytes(false)) {
                if let Outcome::Ret(Ok(pk2)) = guard(|| gm_sm2::key::Sm2PublicKey::new(&b)) {
                    check_accepts(ctx, &pk2, id, id_str, msg, &sig, d, &format!("{}/reencoded-public-key", cls));
                }
            }
        }
        o => ctx.violation(&format!("sign:{}:{}", cls, oc(&o)), json!({"case": wit(d, id_str, msg, Some(k)), "outcome": format!("{:?}", o.class())})),
    }
}

fn check_accepts(ctx: &mut Ctx, lpk: &gm_sm2::key::Sm2PublicKey, id: Option<&'static str>, id_str: &str, msg: &[u8], sig: &[u8], d: &BigUint, cls: &str) {
    ctx.eval();
    match guard(|| lpk.verify(id, msg, sig)) {
        Outcome::Ret(Ok(())) => {}
        o => ctx.violation(&format!("verify:{}:valid-signature-rejected:{}", cls, oc(&o)), json!({"case": wit(d, id_str, msg, None), "sig": hex::encode(sig)})),
    }
}

/// free nonce: range, self-verify, reference verify, nonce used == nonce drawn
fn free_case(ctx: &mut Ctx, d: &BigUint, id: Option<&'static str>, id_str: &str, msg: &[u8], cls: &str) {
    free_case_how(ctx, d, id, id_str, msg, cls, 0)
}

fn free_case_how(ctx: &mut Ctx, d: &BigUint, id: Option<&'static str>, id_str: &str, msg: &[u8], cls: &str, how: u64) {
    let c = r2::curve();
    ctx.class(provenance(how));
    let mut pp = Prng::new(how + 7, "prov");
    let Some((prov_pk, sk)) = lib_keys(d, how, &mut pp) else {
        ctx.violation("Sm2PrivateKey::new:d-in-[1,n-2]:not-ok", json!({"d": hex::encode(r2::b32(d))}));
        return;
    };
    ctx.eval();
    ctx.class("free_nonce");
    rng_prepare(&[]);
    let o = guard(|| sk.sign(id, msg));
    let seen = rng_seen();
    match o {
        Outcome::Ret(Ok(sig)) => {
            ctx.distinct("sign-free", &[&sig]);
            if sig.len() != 64 {
                ctx.violation(&format!("sign:{}:length!=64", cls), json!({"case": wit(d, id_str, msg, None), "len": sig.len()}));
                return;
            }
            let r = r2::from_b(&sig[..32]);
            let s = r2::from_b(&sig[32..]);
            if r.is_zero() || s.is_zero() || r >= c.n || s >= c.n {
                ctx.violation(&format!("sign:{}:component-out-of-range", cls), json!({"case": wit(d, id_str, msg, None), "sig": hex::encode(&sig)}));
            }
            let pk = r2::mul(d, &r2::g()).unwrap();
            if !r2::verify(&pk, id_str.as_bytes(), msg, &sig) {
                ctx.violation(&format!("sign:{}:rejected-by-reference-verifier", cls), json!({"case": wit(d, id_str, msg, None), "sig": hex::encode(&sig)}));
                return;
            }
            let k = r2::recover_nonce(d, &sig);
            if seen.accepted.last() != Some(&k) {
                ctx.violation(&format!("sign:{}:nonce-used!=nonce-drawn", cls), json!({"case": wit(d, id_str, msg, None), "recovered": hex::encode(r2::b32(&k)), "drawn": seen.accepted.iter().map(|a| hex::encode(r2::b32(a))).collect::<Vec<_>>()}));
            }
            check_accepts(ctx, &sk.public_key, id, id_str, msg, &sig, d, cls);
            check_accepts(ctx, &prov_pk, id, id_str, msg, &sig, d, &format!("{}/provenance-public-key", cls));
        }
        o => ctx.violation(&format!("sign:{}:{}", cls, oc(&o)), json!({"case": wit(d, id_str, msg, None)})),
    }
}

/// signature made by the reference signer must be accepted by the library
fn ref_made_case(ctx: &mut Ctx, d: &BigUint, id: Option<&'static str>, id_str: &str, msg: &[u8], k: &BigUint, how: u64) {
    let Some((r, s)) = r2::sign(d, id_str.as_bytes(), msg, k) else { return };
    let pk = r2::mul(d, &r2::g()).unwrap();
    // public key object: decoded from the reference's point, from gen_keypair, or a Jacobian representation
    ctx.class(provenance(how));
    let mut pp = Prng::new(how + 13, "prov");
    let lpk = if how % 3 == 0 { lib_pk(&pk) } else { lib_keys(d, how, &mut pp).map(|x| x.0) };
    let Some(lpk) = lpk else {
        ctx.violation("Sm2PublicKey::new:valid-point:not-ok", json!({"pk": hex::encode(r2::encode(&pk, false))}));
        return;
    };
    let mut sig = r.to_vec();
    sig.extend_from_slice(&s);
    ctx.class("ref_made_accepted");
    ctx.distinct("verify", &[&sig, msg]);
    check_accepts(ctx, &lpk, id, id_str, msg, &sig, d, "ref-made");
    // a relying party that received the signer's key in compressed form
    ctx.eval();
    match guard(|| gm_sm2::key::Sm2PublicKey::new(&r2::encode(&pk, true))) {
        Outcome::Ret(Ok(pk2)) => {
            ctx.class("verifier_key_from_compressed_bytes");
            check_accepts(ctx, &pk2, id, id_str, msg, &sig, d, "ref-made/key-from-compressed-bytes");
        }
        o => ctx.violation(&format!("Sm2PublicKey::new:valid-compressed-point:{}", oc(&o)), json!({"pk": hex::encode(r2::encode(&pk, true))})),
    }
}
