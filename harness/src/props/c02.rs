//! C02 — SM4 block cipher matches GB/T 32907; decrypt inverts encrypt; cipher objects are immutable.
use crate::corpus;
use crate::mon::{guard, Ctx, Outcome, Prng};
use crate::refs::sm4 as rsm4;
use gm_sm4::Sm4Cipher;
use serde_json::json;

fn structured(i: usize) -> [u8; 16] {
    // 0: zero, 1: ones, 2..130: single bit, 130..: byte patterns
    let mut b = [0u8; 16];
    match i {
        0 => {}
        1 => b = [0xff; 16],
        2..=129 => {
            let bit = i - 2;
            b[bit / 8] = 0x80 >> (bit % 8);
        }
        130 => b = [0x55; 16],
        131 => b = [0xaa; 16],
        132 => {
            for (k, v) in b.iter_mut().enumerate() {
                *v = k as u8;
            }
        }
        133 => {
            for (k, v) in b.iter_mut().enumerate() {
                *v = 255 - k as u8;
            }
        }
        134 => b = [0x01; 16],
        135 => b = [0x80; 16],
        // bytes that are all ASCII hex digits / printable text (a constructor that "also accepts hex" must not mistake them)
        136 => b = *b"0123456789abcdef",
        137 => b = *b"ABCDEFabcdef0123",
        138 => b = [0x33; 16],
        139 => b = [0x66; 16],
        140 => b = *b"0x0123456789abcd",
        141 => b = *b"sixteen byte key",
        142 => b = *b"AAAAAAAAAAAAAAAA",
        _ => b = *b"0000000000000000",
    }
    b
}
const NSTRUCT: usize = 144;

struct Lib {
    c: Option<Sm4Cipher>,
}

fn block_call(ctx: &mut Ctx, lib: &Sm4Cipher, dir: u8, key: &[u8; 16], x: &[u8; 16], cls: &str) -> Option<[u8; 16]> {
    ctx.eval();
    ctx.class(cls);
    ctx.class(if dir == 0 { "encrypt" } else { "decrypt" });
    let r = rsm4::Sm4::new(key);
    let expect = if dir == 0 { r.enc(x) } else { r.dec(x) };
    let o = guard(|| if dir == 0 { lib.encrypt(x) } else { lib.decrypt(x) });
    let opn = if dir == 0 { "Sm4Cipher::encrypt" } else { "Sm4Cipher::decrypt" };
    match o {
        Outcome::Ret(Ok(v)) => {
            if v.as_slice() != expect {
                ctx.violation(
                    &format!("{}:{}:wrong-block", opn, cls),
                    json!({"op": opn, "key": hex::encode(key), "input": hex::encode(x), "expected": hex::encode(expect), "actual": hex::encode(&v)}),
                );
                return None;
            }
            let mut a = [0u8; 16];
            a.copy_from_slice(&v);
            Some(a)
        }
        Outcome::Ret(Err(e)) => {
            ctx.violation(&format!("{}:{}:err", opn, cls), json!({"op": opn, "key": hex::encode(key), "input": hex::encode(x), "err": format!("{:?}", e)}));
            None
        }
        o => {
            ctx.violation(&format!("{}:{}:{}", opn, cls, o.class()), json!({"op": opn, "key": hex::encode(key), "input": hex::encode(x), "outcome": format!("{:?}", o)}));
            None
        }
    }
}

fn new_cipher(ctx: &mut Ctx, key: &[u8; 16]) -> Lib {
    ctx.eval();
    match guard(|| Sm4Cipher::new(key)) {
        Outcome::Ret(Ok(c)) => Lib { c: Some(c) },
        o => {
            ctx.violation("Sm4Cipher::new:16-byte-key:not-ok", json!({"key": hex::encode(key), "outcome": o.class()}));
            Lib { c: None }
        }
    }
}

pub fn run(ctx: &mut Ctx) {
    for (n, ok) in rsm4::selftest() {
        ctx.selftest(&n, ok);
    }
    ctx.require(&["encrypt", "decrypt", "structured", "random", "history", "history_clone", "openssl_ecb", "sbox_all_bytes", "roundtrip_dec_enc", "roundtrip_enc_dec", "unaligned_slices", "crafted_round_input", "crafted_round_key", "history_failed_call"]);

    // --- OpenSSL ECB corpus
    let c = corpus::load("sm4_openssl.json");
    let mut ref_ok = true;
    for (i, v) in c["ecb"].as_array().unwrap().iter().enumerate() {
        let key = corpus::arr16(v, "key");
        let pt = corpus::arr16(v, "pt");
        let ct = corpus::arr16(v, "ct");
        let r = rsm4::Sm4::new(&key);
        if r.enc(&pt) != ct || r.dec(&ct) != pt {
            ref_ok = false;
        }
        if !ctx.mine(i as u64) {
            continue;
        }
        let lib = new_cipher(ctx, &key);
        if let Some(l) = lib.c.as_ref() {
            ctx.distinct("blk", &[&key, &pt]);
            block_call(ctx, l, 0, &key, &pt, "openssl_ecb");
            block_call(ctx, l, 1, &key, &ct, "openssl_ecb");
        }
    }
    ctx.selftest("reference sm4 == OpenSSL on 400 ECB vectors", ref_ok);

    // --- crafted: the input of the round function T is a boundary word (0, ff..ff, one byte lane set) in a chosen
    // round, for encryption and for decryption; and keys whose key schedule contains a boundary round key. Random
    // blocks/keys meet any one of these with probability 2^-32 per round.
    {
        let words: [u32; 8] = [0, 0xffff_ffff, 0x0000_00ff, 0xff00_0000, 0x0000_0001, 0x8000_0000, 0x0101_0101, 0x00ff_ff00];
        let mut pc = ctx.prng("crafted_round");
        let reps = ctx.n(1, 24);
        let mut ci = 0u64;
        for rep in 0..reps {
            for round in 0..32usize {
                for (wi, &w) in words.iter().enumerate() {
                    ci += 1;
                    let sub = pc.next();
                    if !ctx.mine(ci) {
                        continue;
                    }
                    let mut q = Prng::new(sub, "cr");
                    let key: [u8; 16] = if (wi + round + rep as usize) % 3 == 0 { structured(q.below(NSTRUCT as u64) as usize) } else { q.arr() };
                    let r = rsm4::Sm4::new(&key);
                    let free = [q.next() as u32, q.next() as u32, q.next() as u32];
                    let lib = new_cipher(ctx, &key);
                    let Some(l) = lib.c.as_ref() else { continue };
                    let pt = r.block_with_round_input(round, w, free);
                    let ct = r.ct_block_with_round_input(round, w, free);
                    if r.round_inputs(&pt, false)[round] != w || r.round_inputs(&ct, true)[round] != w {
                        ctx.violation("harness:crafted-round-input-not-reproduced", json!({"round": round, "word": format!("{:08x}", w)}));
                        continue;
                    }
                    ctx.class("crafted_round_input");
                    ctx.class(&format!("crafted_round_input:{:08x}", w));
                    ctx.distinct("blk", &[&key, &pt]);
                    block_call(ctx, l, 0, &key, &pt, "crafted_round_input");
                    block_call(ctx, l, 1, &key, &ct, "crafted_round_input");
                    // key with rk[round] = w
                    let key2 = rsm4::key_with_round_key(round, w, free);
                    if rsm4::Sm4::new(&key2).round_keys()[round] != w {
                        ctx.violation("harness:crafted-round-key-not-reproduced", json!({"round": round, "word": format!("{:08x}", w)}));
                        continue;
                    }
                    let lib2 = new_cipher(ctx, &key2);
                    let Some(l2) = lib2.c.as_ref() else { continue };
                    ctx.class("crafted_round_key");
                    let blk: [u8; 16] = q.arr();
                    ctx.distinct("blk", &[&key2, &blk]);
                    block_call(ctx, l2, 0, &key2, &blk, "crafted_round_key");
                    block_call(ctx, l2, 1, &key2, &blk, "crafted_round_key");
                }
            }
        }
        ctx.exhaustive("T input in {0, ffffffff, 000000ff, ff000000, 1, 80000000, 01010101, 00ffff00} x 32 rounds x {encrypt, decrypt}; round key equal to each of these words x 32 rounds", true);
    }

    // --- structured keys x structured blocks, both directions
    let mut idx = 0u64;
    for ki in 0..NSTRUCT {
        let key = structured(ki);
        let mut lib: Option<Lib> = None;
        for bi in 0..NSTRUCT {
            idx += 1;
            // quick: full key axis against a thinned block axis, full block axis for 4 keys
            if !ctx.thorough && !(ki < 4 || bi < 4 || (ki + bi) % 16 == 0) {
                continue;
            }
            if !ctx.mine(idx) {
                continue;
            }
            if lib.is_none() {
                lib = Some(new_cipher(ctx, &key));
            }
            let blk = structured(bi);
            if let Some(l) = lib.as_ref().unwrap().c.as_ref() {
                ctx.distinct("blk", &[&key, &blk]);
                let e = block_call(ctx, l, 0, &key, &blk, "structured");
                let d = block_call(ctx, l, 1, &key, &blk, "structured");
                // library-only round trips
                if let Some(e) = e {
                    ctx.class("roundtrip_dec_enc");
                    if let Outcome::Ret(Ok(v)) = guard(|| l.decrypt(&e)) {
                        if v.as_slice() != blk {
                            ctx.violation("Sm4Cipher:roundtrip:dec(enc(x))!=x", json!({"key": hex::encode(key), "x": hex::encode(blk)}));
                        }
                    }
                }
                if let Some(d) = d {
                    ctx.class("roundtrip_enc_dec");
                    if let Outcome::Ret(Ok(v)) = guard(|| l.encrypt(&d)) {
                        if v.as_slice() != blk {
                            ctx.violation("Sm4Cipher:roundtrip:enc(dec(y))!=y", json!({"key": hex::encode(key), "y": hex::encode(blk)}));
                        }
                    }
                }
            }
        }
    }

    // --- S-box coverage: 256 round inputs that drive every byte value through tau in round 1.
    // With key K the first round computes tau(X1^X2^X3^rk0); choose X1 = b repeated, X2 = X3 = 0, so the
    // S-box index in each byte lane is b ^ rk0[lane]: all 256 indices occur per lane over b = 0..255.
    let key = [0u8; 16];
    if ctx.shard == 0 {
        let lib = new_cipher(ctx, &key);
        if let Some(l) = lib.c.as_ref() {
            for b in 0..=255u8 {
                let mut x = [0u8; 16];
                for k in 4..8 {
                    x[k] = b;
                }
                ctx.distinct("blk", &[&key, &x]);
                block_call(ctx, l, 0, &key, &x, "sbox_all_bytes");
            }
        }
        ctx.exhaustive("S-box index 0..=255 in each byte lane of round 1", true);
        let s = rsm4::sbox();
        let mut seen = [false; 256];
        for &v in s.iter() {
            seen[v as usize] = true;
        }
        ctx.selftest("algebraically computed S-box is a bijection", seen.iter().all(|&x| x));
    }

    // --- the same block handed over as a sub-slice at every offset 0..=8 of a 16-byte-aligned buffer (and the key likewise)
    #[repr(align(16))]
    struct Aligned([u8; 64]);
    let mut pa = ctx.prng("align");
    for i in 0..ctx.n(16, 400) {
        let key: [u8; 16] = pa.arr();
        let blk: [u8; 16] = pa.arr();
        if !ctx.mine(i) {
            continue;
        }
        let r = rsm4::Sm4::new(&key);
        let (e, d) = (r.enc(&blk), r.dec(&blk));
        for off in 0..=8usize {
            let mut kb = Aligned([0; 64]);
            let mut bb = Aligned([0; 64]);
            kb.0[off..off + 16].copy_from_slice(&key);
            bb.0[off..off + 16].copy_from_slice(&blk);
            ctx.eval();
            ctx.class("unaligned_slices");
            let w = json!({"key": hex::encode(key), "block": hex::encode(blk), "offset_in_aligned_buffer": off});
            match guard(|| {
                let c = Sm4Cipher::new(&kb.0[off..off + 16])?;
                Ok::<_, gm_sm4::Sm4Error>((c.encrypt(&bb.0[off..off + 16])?, c.decrypt(&bb.0[off..off + 16])?))
            }) {
                Outcome::Ret(Ok((ev, dv))) if ev == e && dv == d => {}
                o => ctx.violation(&format!("Sm4Cipher:unaligned-slice:{}", if matches!(o, Outcome::Ret(Ok(_))) { "wrong-block" } else { o.class() }), w),
            }
        }
    }
    // --- random (key, block) pairs
    let n = ctx.n(20_000, 2_000_000);
    let mut prng = ctx.prng("random");
    for i in 0..n {
        let key: [u8; 16] = prng.arr();
        let blk: [u8; 16] = prng.arr();
        if !ctx.mine(i) {
            continue;
        }
        let lib = new_cipher(ctx, &key);
        if let Some(l) = lib.c.as_ref() {
            ctx.distinct("blk", &[&key, &blk]);
            let e = block_call(ctx, l, 0, &key, &blk, "random");
            block_call(ctx, l, 1, &key, &blk, "random");
            if i % 5000 == 0 {
                if let Some(e) = e {
                    ctx.sample(json!({"op": "Sm4Cipher::encrypt", "key": hex::encode(key), "block": hex::encode(blk), "ct": hex::encode(e)}));
                }
            }
        }
    }

    // --- histories on one cipher object (and clones of it)
    let nh = ctx.n(64, 2000);
    let steps = ctx.n(300, 2000);
    let mut prng = ctx.prng("history");
    for h in 0..nh {
        let key: [u8; 16] = prng.arr();
        let sub = prng.next();
        if !ctx.mine(h) {
            continue;
        }
        let mut p = Prng::new(sub, "h");
        let lib = new_cipher(ctx, &key);
        let Some(l) = lib.c.as_ref() else { continue };
        let mut clones: Vec<Sm4Cipher> = vec![];
        let mut last: [u8; 16] = p.arr();
        let mut trace = vec![];
        for s in 0..steps {
            let dir = (p.next() & 1) as u8;
            // inputs: fresh random, the previous output (chained), or a repeat of an earlier input
            let x: [u8; 16] = match p.below(3) {
                0 => p.arr(),
                _ => last,
            };
            if p.below(40) == 0 {
                clones.push(l.clone());
                ctx.class("history_clone");
            }
            let target: &Sm4Cipher = if !clones.is_empty() && p.below(3) == 0 { p.pick(&clones) } else { l };
            // now and then a call outside the domain (block of 0, 15, 17 or 32 bytes): it must not disturb the object for
            // the calls that follow
            if p.below(25) == 0 {
                let bl = [0usize, 15, 17, 32][p.below(4) as usize];
                let bad = p.bytes(bl);
                ctx.eval();
                ctx.class("history_failed_call");
                // the direction of the failing call is independent of the direction of the call that follows it
                let bdir = (p.next() & 1) as u8;
                ctx.class(&format!("history_failed_{}_then_{}", if bdir == 0 { "enc" } else { "dec" }, if dir == 0 { "enc" } else { "dec" }));
                let o = if bdir == 0 { guard(|| target.encrypt(&bad)) } else { guard(|| target.decrypt(&bad)) };
                // how the out-of-domain call itself ends is C20's business; here only its after-effects are judged
                ctx.class(&format!("history_failed_call:{}", match &o { Outcome::Ret(Err(_)) => "err", Outcome::Ret(Ok(_)) => "ok", _ => "crash" }));
            }
            ctx.distinct("hist", &[&key, &x, &[dir]]);
            if let Some(o) = block_call(ctx, target, dir, &key, &x, "history") {
                last = o;
            }
            if s < 6 {
                trace.push(json!({"dir": if dir == 0 {"enc"} else {"dec"}, "in": hex::encode(x)}));
            }
        }
        if h % 16 == 0 {
            ctx.sample(json!({"history_on_one_cipher": {"key": hex::encode(key), "steps": steps, "first_steps": trace}}));
        }
    }
}
