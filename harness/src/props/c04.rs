//! C04 — SM2 verification accepts nothing but a valid signature (mutated-signature fault space).
use crate::corpus;
use crate::mon::{guard, hx, Ctx, Outcome, Prng};
use crate::refs::sm2 as r2;
use crate::sm2x::*;
use gm_sm2::key::Sm2PublicKey;
use num_bigint::BigUint;
use num_traits::{One, Zero};
use serde_json::json;

const DEFAULT_ID: &str = "1234567812345678";

struct Sample {
    /// private key when the harness knows it (crafted cases need it)
    d: Option<BigUint>,
    pk: (BigUint, BigUint),
    lpk: Sm2PublicKey,
    id: Option<&'static str>,
    id_str: String,
    msg: Vec<u8>,
    sig: Vec<u8>,
    origin: &'static str,
}

fn oc<T, E>(o: &Outcome<Result<T, E>>) -> &'static str {
    match o {
        Outcome::Ret(Ok(_)) => "accepted",
        Outcome::Ret(Err(_)) => "err",
        Outcome::Panic(_) => "panic",
        Outcome::StepLimit(_) => "steplimit",
    }
}

/// One verification of a (possibly) invalid input. `must_reject`: the input is invalid by construction
/// (e.g. wrong length) - otherwise the reference verifier decides, and only if the library accepted.
fn probe(ctx: &mut Ctx, s: &Sample, lpk: &Sm2PublicKey, pk: &(BigUint, BigUint), id: Option<&'static str>, id_str: &str, msg: &[u8], sig: &[u8], cls: &str, must_reject: bool) {
    ctx.eval();
    ctx.class(cls);
    ctx.distinct(cls, &[sig, msg, id_str.as_bytes(), &r2::b32(&pk.0)]);
    let o = guard(|| lpk.verify(id, msg, sig));
    let w = || json!({"class": cls, "origin": s.origin, "pk": hex::encode(r2::encode(pk, false)), "id": id_str, "msg": hx(msg), "sig": hx(sig), "sig_len": sig.len()});
    match &o {
        Outcome::Ret(Err(_)) => {}
        Outcome::Ret(Ok(())) => {
            if must_reject || !r2::verify(pk, id_str.as_bytes(), msg, sig) {
                ctx.violation(&format!("verify:{}:accepted", cls), w());
            } else {
                ctx.class("accepted_and_reference_agrees");
            }
        }
        Outcome::Panic(m) => ctx.violation(&format!("verify:{}:panic", cls), json!({"case": w(), "panic": m})),
        Outcome::StepLimit(_) => ctx.violation(&format!("verify:{}:steplimit", cls), w()),
    }
    let _ = oc(&o);
}

fn with_component(sig: &[u8], which: usize, v: &BigUint) -> Vec<u8> {
    let mut o = sig.to_vec();
    o[which * 32..which * 32 + 32].copy_from_slice(&r2::b32(v));
    o
}

fn fault_space(ctx: &mut Ctx, s: &Sample, p: &mut Prng, other: &Sample, small_s: bool) {
    let c = r2::curve();
    // two-sided sanity: the untouched signature is accepted
    ctx.eval();
    ctx.class("valid_accepted");
    match guard(|| s.lpk.verify(s.id, &s.msg, &s.sig)) {
        Outcome::Ret(Ok(())) => {}
        o => {
            ctx.violation(&format!("verify:valid-signature({}):{}", s.origin, oc(&o)), json!({"pk": hex::encode(r2::encode(&s.pk, false)), "id": s.id_str, "msg": hx(&s.msg), "sig": hex::encode(&s.sig)}));
        }
    }
    // all 512 single-bit flips
    for bit in 0..512 {
        let mut sig = s.sig.clone();
        sig[bit / 8] ^= 0x80 >> (bit % 8);
        probe(ctx, s, &s.lpk, &s.pk, s.id, &s.id_str, &s.msg, &sig, if bit < 256 { "bitflip_r" } else { "bitflip_s" }, false);
    }
    // near misses made WITH the private key: r' differs from the genuine R in one bit (or in one whole byte / the upper
    // half of one limb) and s' = (k - r' d)/(1 + d), so that [s']G + [r'+s']P is still [k]G and the verifier recomputes
    // the genuine R: the only thing wrong is R != r'. A comparison that looks at part of the words accepts these.
    if let Some(d) = &s.d {
        let r0 = r2::from_b(&s.sig[..32]);
        let k = r2::recover_nonce(d, &s.sig);
        let inv = (BigUint::one() + d).modinv(&c.n);
        if let Some(inv) = inv {
            let mut masks: Vec<BigUint> = (0..256u32).map(|b| BigUint::one() << b).collect();
            for limb in 0..4u32 {
                masks.push(BigUint::from(0xffff_ffff_0000_0000u64) << (64 * limb));
                masks.push(BigUint::from(0x0000_0000_ffff_ffffu64) << (64 * limb));
                masks.push(BigUint::from(0xff00_0000_0000_0000u64) << (64 * limb));
            }
            for m in masks {
                let r1 = &r0 ^ &m;
                if r1.is_zero() || r1 >= c.n {
                    continue;
                }
                let s1 = (&inv * ((&k + &c.n * &c.n - &r1 * d) % &c.n)) % &c.n;
                if s1.is_zero() || ((&r1 + &s1) % &c.n).is_zero() {
                    continue;
                }
                let mut sig = r2::b32(&r1).to_vec();
                sig.extend_from_slice(&r2::b32(&s1));
                probe(ctx, s, &s.lpk, &s.pk, s.id, &s.id_str, &s.msg, &sig, "near_miss_r_consistent_s", true);
            }
        }
    }
    // component substitutions
    let r = r2::from_b(&s.sig[..32]);
    let sv = r2::from_b(&s.sig[32..]);
    let two256m1: BigUint = (BigUint::one() << 256) - 1u32;
    let subs: Vec<(&str, BigUint)> = vec![
        ("=0", BigUint::zero()),
        ("=1", BigUint::one()),
        ("=n-1", &c.n - 1u32),
        ("=n", c.n.clone()),
        ("=n+1", &c.n + 1u32),
        ("=2^256-1", two256m1.clone()),
    ];
    for (name, v) in &subs {
        probe(ctx, s, &s.lpk, &s.pk, s.id, &s.id_str, &s.msg, &with_component(&s.sig, 0, v), &format!("r{}", name), false);
        probe(ctx, s, &s.lpk, &s.pk, s.id, &s.id_str, &s.msg, &with_component(&s.sig, 1, v), &format!("s{}", name), false);
    }
    // crafted with the private key: r = e mod n, s = -r d (1+d)^-1, so that [s]G + [t]P = O; a verifier that
    // converts the point at infinity to affine (0, 0) would compute R = e = r and accept
    if let Some(d) = &s.d {
        let e = r2::digest_e(s.id_str.as_bytes(), &s.pk, &s.msg) % &c.n;
        if !e.is_zero() {
            let inv = (BigUint::one() + d).modinv(&c.n).unwrap();
            let sv2 = (&c.n - (&e * d % &c.n) * inv % &c.n) % &c.n;
            if !sv2.is_zero() && !((&e + &sv2) % &c.n).is_zero() {
                let mut sig = r2::b32(&e).to_vec();
                sig.extend_from_slice(&r2::b32(&sv2));
                probe(ctx, s, &s.lpk, &s.pk, s.id, &s.id_str, &s.msg, &sig, "sG+tP=infinity", false);
            }
        }
    }
    // s = n - r  (t = r + s = 0 mod n)
    probe(ctx, s, &s.lpk, &s.pk, s.id, &s.id_str, &s.msg, &with_component(&s.sig, 1, &(&c.n - &r)), "s=n-r", false);
    // swapped
    let mut sw = s.sig[32..].to_vec();
    sw.extend_from_slice(&s.sig[..32]);
    probe(ctx, s, &s.lpk, &s.pk, s.id, &s.id_str, &s.msg, &sw, "swapped_r_s", false);
    // aliases modulo n, when they fit in 256 bits
    if &r + &c.n <= two256m1 {
        probe(ctx, s, &s.lpk, &s.pk, s.id, &s.id_str, &s.msg, &with_component(&s.sig, 0, &(&r + &c.n)), "r+n", false);
    }
    if &sv + &c.n <= two256m1 {
        ctx.class("s_plus_n_alias");
        probe(ctx, s, &s.lpk, &s.pk, s.id, &s.id_str, &s.msg, &with_component(&s.sig, 1, &(&sv + &c.n)), "s+n", false);
    } else if small_s {
        ctx.note("small-s witness did not produce s+n < 2^256 (corpus inconsistent)");
    }
    // altered message
    let mut m2 = s.msg.clone();
    m2.push(0);
    probe(ctx, s, &s.lpk, &s.pk, s.id, &s.id_str, &m2, &s.sig, "msg_extended", false);
    if !s.msg.is_empty() {
        let mut m3 = s.msg.clone();
        m3.pop();
        probe(ctx, s, &s.lpk, &s.pk, s.id, &s.id_str, &m3, &s.sig, "msg_truncated", false);
        let mut m4 = s.msg.clone();
        let k = p.below(m4.len() as u64 * 8) as usize;
        m4[k / 8] ^= 1 << (k % 8);
        probe(ctx, s, &s.lpk, &s.pk, s.id, &s.id_str, &m4, &s.sig, "msg_bitflip", false);
        probe(ctx, s, &s.lpk, &s.pk, s.id, &s.id_str, &[], &s.sig, "msg_empty", false);
    }
    // other ID
    let oid = format!("{}x", s.id_str);
    probe(ctx, s, &s.lpk, &s.pk, Some(leak(oid.clone())), &oid, &s.msg, &s.sig, "id_changed", false);
    if s.id.is_some() && s.id_str != DEFAULT_ID {
        probe(ctx, s, &s.lpk, &s.pk, None, DEFAULT_ID, &s.msg, &s.sig, "id_default_instead", false);
    }
    // IDs that differ only by surrounding white space are different IDs
    for (k, alt) in [format!("{} ", s.id_str), format!(" {}", s.id_str), format!("{}\n", s.id_str), format!("\t{}", s.id_str), s.id_str.trim().to_string()].into_iter().enumerate() {
        if alt != s.id_str && alt.len() < 8000 {
            let _ = k;
            probe(ctx, s, &s.lpk, &s.pk, Some(leak(alt.clone())), &alt, &s.msg, &s.sig, "id_changed_by_whitespace", false);
        }
    }
    // another ID of the SAME length (16 bytes like the default ID, and the signer's own length): ENTL alone does not
    // identify the signer
    {
        let same_len: String = s.id_str.chars().map(|ch| if ch == 'x' { 'y' } else { 'x' }).collect();
        if same_len.len() == s.id_str.len() && !same_len.is_empty() {
            probe(ctx, s, &s.lpk, &s.pk, Some(leak(same_len.clone())), &same_len, &s.msg, &s.sig, "id_changed_same_length", false);
        }
        if s.id_str == DEFAULT_ID {
            for alt in ["ABCDEFGHabcdefgh", "1234567812345679", "8765432187654321"] {
                probe(ctx, s, &s.lpk, &s.pk, Some(alt), alt, &s.msg, &s.sig, "id_changed_same_length", false);
            }
        }
    }
    // the valid (r, s) in another encoding (DER SEQUENCE of two INTEGERs, ASCII hex, padded): none of them is exactly
    // r||s in 64 bytes, so each must be rejected
    {
        let der = [crate::refs::der::int_from_be(&s.sig[..32]), crate::refs::der::int_from_be(&s.sig[32..])].concat();
        let der = crate::refs::der::tlv(0x30, &der);
        let hexs = hex::encode(&s.sig).into_bytes();
        let alts: Vec<(&str, Vec<u8>)> = vec![
            ("der_sequence", der),
            ("ascii_hex", hexs),
            ("zero_prefixed", [&[0u8][..], &s.sig[..]].concat()),
            ("zero_suffixed", [&s.sig[..], &[0u8][..]].concat()),
            ("tag_04_prefixed", [&[4u8][..], &s.sig[..]].concat()),
            ("r_s_each_33_bytes", [&[0u8][..], &s.sig[..32], &[0u8][..], &s.sig[32..]].concat()),
        ];
        for (nm, a) in alts {
            if a.len() != 64 {
                probe(ctx, s, &s.lpk, &s.pk, s.id, &s.id_str, &s.msg, &a, &format!("alt_encoding:{}", nm), true);
                ctx.class("alt_encoding_of_valid_signature");
            }
        }
    }
    // other public key
    probe(ctx, s, &other.lpk, &other.pk, s.id, &s.id_str, &s.msg, &s.sig, "key_changed", false);
    let negpk = r2::neg(&Some(s.pk.clone())).unwrap();
    if let Some(l) = lib_pk(&negpk) {
        probe(ctx, s, &l, &negpk, s.id, &s.id_str, &s.msg, &s.sig, "key_negated", false);
    }
    // the valid signature followed by junk, at lengths far beyond 130 (a length test done on a truncated count wraps)
    for len in [192usize, 256, 257, 320, 512, 576, 1024, 1088, 4160, 65600, 131136] {
        let mut v = s.sig.clone();
        let extra = p.bytes(len - 64);
        v.extend_from_slice(&extra);
        probe(ctx, s, &s.lpk, &s.pk, s.id, &s.id_str, &s.msg, &v, "len>>64", true);
    }
    // every length 0..=130: truncations / extensions of the valid signature, and random bytes
    for len in 0..=130usize {
        if len == 64 {
            continue;
        }
        let mut v = s.sig.clone();
        if len < 64 {
            v.truncate(len);
        } else {
            let extra = p.bytes(len - 64);
            v.extend_from_slice(&extra);
        }
        let cls = if len < 64 { "len<64" } else { "len>64" };
        probe(ctx, s, &s.lpk, &s.pk, s.id, &s.id_str, &s.msg, &v, cls, true);
        if len % 3 == 0 {
            let rb = p.bytes(len);
            probe(ctx, s, &s.lpk, &s.pk, s.id, &s.id_str, &s.msg, &rb, if len < 64 { "random_len<64" } else { "random_len>64" }, true);
        }
    }
    // valid signature followed by zero bytes / preceded by a zero byte
    let mut v = vec![0u8];
    v.extend_from_slice(&s.sig);
    probe(ctx, s, &s.lpk, &s.pk, s.id, &s.id_str, &s.msg, &v, "len>64", true);
    // random (r, s) pairs
    for _ in 0..16 {
        let rs = p.bytes(64);
        probe(ctx, s, &s.lpk, &s.pk, s.id, &s.id_str, &s.msg, &rs, "random_pair", false);
    }
}

pub fn run(ctx: &mut Ctx) {
    for (n, ok) in r2::selftest() {
        ctx.selftest(&n, ok);
    }
    ctx.require(&["valid_accepted", "bitflip_r", "bitflip_s", "r=0", "s=0", "r=n", "s=n", "s=n+1", "r=2^256-1", "s=2^256-1", "s=n-r", "sG+tP=infinity", "swapped_r_s", "s+n", "s_plus_n_alias", "msg_extended", "msg_bitflip", "id_changed", "key_changed", "len<64", "len>64", "random_pair", "openssl_made", "digest:t=0_equation_satisfied", "digest:valid", "digest:bitflip", "near_miss_r_consistent_s", "id_changed_same_length", "alt_encoding_of_valid_signature", "sample_with_empty_explicit_id", "id_changed_by_whitespace", "len>>64", "digest:x1_ge_n_valid"]);
    let c = r2::curve();
    // --- digest level (hook `verif_verify_digest`): clauses no message can be made to reach. (a) t = r + s = 0 mod n with
    // e chosen so that the remaining equation holds (a verifier without the t check accepts); (b) valid and tampered
    // signatures for arbitrary 256-bit e, including e >= n, 0 and 2^256-1, judged by the reference verifier.
    {
        // a VALID (e, r, s) whose recomputed point has x1 in [n, p) (p - n is about 2^128 wide): built backwards from a curve
        // point R with x = n + j; P = R + [5]G (nobody knows its private key), s = n - 5, r = 6, t = 1, e = r - x1 mod n
        if ctx.mine(3) {
            let mut j = 0u32;
            let rpt = loop {
                if let Some(pt) = r2::point_from_x(&(&c.n + j)) {
                    break pt;
                }
                j += 1;
            };
            let pkey = r2::add(&Some(rpt.clone()), &r2::mul(&BigUint::from(5u32), &r2::g())).unwrap();
            let (r, s_) = (BigUint::from(6u32), &c.n - 5u32);
            let e = (&r + &c.n - (&rpt.0 % &c.n)) % &c.n;
            let mut sig = r2::b32(&r).to_vec();
            sig.extend_from_slice(&r2::b32(&s_));
            ctx.eval();
            ctx.class("digest:x1_ge_n_valid");
            if !r2::verify_e(&pkey, &e, &sig) {
                ctx.violation("harness:digest-level-case-not-as-constructed", json!({"class": "x1_ge_n"}));
            } else if let Some(lpk) = lib_pk(&pkey) {
                match guard(|| lpk.verif_verify_digest(&r2::b32(&e), &sig)) {
                    Outcome::Ret(Ok(())) => {}
                    o => ctx.violation(&format!("verify(digest):x1_ge_n:valid-signature-rejected:{}", o.class()), json!({"pk": hex::encode(r2::encode(&pkey, false)), "e": hex::encode(r2::b32(&e)), "sig": hx(&sig)})),
                }
            }
        }
        let n = ctx.n(80, 4000);
        let mut pd = ctx.prng("digest");
        for i in 0..n {
            let sub = pd.next();
            if !ctx.mine(i) {
                continue;
            }
            let mut p = Prng::new(sub, "dg");
            let d = key_for(&mut p, (i / 4) % 40);
            let pk = r2::mul(&d, &r2::g()).unwrap();
            let how = i % 3;
            let Some((lpk, _)) = lib_keys(&d, how, &mut p) else { continue };
            let (cls, e, sig): (&str, BigUint, Vec<u8>) = match i % 4 {
                0 => {
                    let r = rand_scalar(&mut p, &c.n);
                    let s_ = &c.n - &r;
                    let x1 = r2::mul(&s_, &r2::g()).unwrap().0;
                    let e = (&r + &c.n - (&x1 % &c.n)) % &c.n;
                    let mut sig = r2::b32(&r).to_vec();
                    sig.extend_from_slice(&r2::b32(&s_));
                    ("digest:t=0_equation_satisfied", e, sig)
                }
                _ => {
                    let e = match i % 16 {
                        1 => BigUint::zero(),
                        5 => (BigUint::one() << 256) - 1u32,
                        9 => c.n.clone(),
                        13 => &c.n - 1u32,
                        _ => BigUint::from_bytes_be(&p.bytes(32)),
                    };
                    let k = rand_scalar(&mut p, &c.n);
                    let Some((r, s_)) = r2::sign_e(&d, &e, &k) else { continue };
                    let mut sig = r.to_vec();
                    sig.extend_from_slice(&s_);
                    if i % 4 == 3 {
                        let bit = p.below(512) as usize;
                        sig[bit / 8] ^= 0x80 >> (bit % 8);
                        ("digest:bitflip", e, sig)
                    } else {
                        ("digest:valid", e, sig)
                    }
                }
            };
            let eb = r2::b32(&e);
            let want = r2::verify_e(&pk, &e, &sig);
            if (cls == "digest:valid") != want && cls != "digest:bitflip" {
                ctx.violation("harness:digest-level-case-not-as-constructed", json!({"class": cls}));
                continue;
            }
            ctx.eval();
            ctx.class(cls);
            ctx.distinct("digest", &[&r2::b32(&d), &eb, &sig]);
            let w = json!({"d": hex::encode(r2::b32(&d)), "e": hex::encode(eb), "sig": hx(&sig), "class": cls, "key": provenance(how)});
            match guard(|| lpk.verif_verify_digest(&eb, &sig)) {
                Outcome::Ret(Ok(())) if want => {}
                Outcome::Ret(Err(_)) if !want => {}
                Outcome::Ret(Ok(())) => ctx.violation(&format!("verify(digest):{}:accepted", cls), w),
                Outcome::Ret(Err(_)) => ctx.violation(&format!("verify(digest):{}:valid-signature-rejected", cls), w),
                o => ctx.violation(&format!("verify(digest):{}:{}", cls, o.class()), w),
            }
        }
    }
    let mut samples: Vec<Sample> = vec![];
    let mut prng = ctx.prng("samples");
    // reference-made signatures
    let nref = ctx.n(32, 1900) as usize;
    let mut mk = |p: &mut Prng, i: usize| -> Option<Sample> {
        let d = key_for(p, (i % 40) as u64);
        let pk = r2::mul(&d, &r2::g())?;
        let (id, id_str) = match i % 4 {
            3 => {
                let l = p.range(1, 12);
                let s = utf8_id(p, l);
                (Some(leak(s.clone())), s)
            }
            0 => (None, DEFAULT_ID.to_string()),
            1 => {
                // every second one at an ENTL byte threshold (32 bytes = 0x0100 bits, 256, 4096, 8191)
                // and every fourth one the EMPTY explicit ID (ENTL = 0, not the default ID)
                let l = if i % 8 == 1 { [32usize, 33, 255, 256, 4096, 8191][(i / 8) % 6] } else if i % 16 == 5 { 0 } else { p.range(0, 40) };

                let s = ascii_id(p, l);
                (Some(leak(s.clone())), s)
            }
            _ => (Some(DEFAULT_ID), DEFAULT_ID.to_string()),
        };
        let mlen = p.range(0, 120);
        let msg = p.bytes(mlen);
        let k = rand_scalar(p, &c.n);
        let (r, s) = r2::sign(&d, id_str.as_bytes(), &msg, &k)?;
        let mut sig = r.to_vec();
        sig.extend_from_slice(&s);
        // verifier-side key object by provenance: decoded bytes / gen_keypair / Jacobian representation
        let lpk = if i % 6 == 3 { lib_pk(&pk)? } else { lib_keys(&d, i as u64, p)?.0 };
        Some(Sample { d: Some(d), lpk, pk, id, id_str, msg, sig, origin: "reference-made" })
    };
    // sample 0 on every shard is the "other key" donor
    let donor = mk(&mut ctx.prng("donor"), 1000).expect("donor sample");
    for i in 0..nref {
        let sub = prng.next();
        if !ctx.mine(i as u64) {
            continue;
        }
        let mut p = Prng::new(sub, "s");
        if let Some(s) = mk(&mut p, i) {
            samples.push(s);
        }
    }
    // OpenSSL-made signatures
    let cs = corpus::load("sm2_openssl.json");
    let nossl = ctx.n(8, 100) as usize;
    for (i, v) in cs["signatures"].as_array().unwrap().iter().enumerate().take(nossl) {
        if !ctx.mine(i as u64 + 3) {
            continue;
        }
        let d = r2::from_b(&corpus::hexf(v, "d"));
        let pk = r2::mul(&d, &r2::g()).unwrap();
        let id_str = v["id"].as_str().unwrap().to_string();
        let Some(lpk) = lib_pk(&pk) else { continue };
        ctx.class("openssl_made");
        samples.push(Sample { d: Some(d), pk, lpk, id: Some(leak(id_str.clone())), id_str, msg: corpus::hexf(v, "msg"), sig: corpus::hexf(v, "sig_rs"), origin: "openssl-made" });
    }
    // crafted small-s witnesses: (r, s+n) is a 64-byte string that only the range check on s rejects
    let cr = corpus::load("sm2_crafted.json");
    let mut small: Vec<Sample> = vec![];
    for (i, v) in cr["small_s"].as_array().unwrap().iter().enumerate() {
        let d = r2::from_b(&corpus::hexf(v, "d"));
        let k = r2::from_b(&corpus::hexf(v, "k"));
        let msg = corpus::hexf(v, "msg");
        let sg = r2::sign(&d, DEFAULT_ID.as_bytes(), &msg, &k);
        let lim: BigUint = (BigUint::one() << 256) - &c.n;
        let ok = matches!(&sg, Some((_, s)) if r2::from_b(s) < lim);
        ctx.selftest(&format!("crafted small-s witness {} reproduces in the reference", i), ok);
        if !ctx.mine(i as u64 + 5) {
            continue;
        }
        if let Some((r, s)) = sg {
            let pk = r2::mul(&d, &r2::g()).unwrap();
            let mut sig = r.to_vec();
            sig.extend_from_slice(&s);
            if let Some(lpk) = lib_pk(&pk) {
                small.push(Sample { d: Some(d), pk, lpk, id: None, id_str: DEFAULT_ID.to_string(), msg, sig, origin: "crafted-small-s" });
            }
        }
    }
    let mut p = ctx.prng(&format!("faults{}", ctx.shard));
    for (i, s) in samples.iter().enumerate() {
        if s.id == Some("") {
            ctx.class("sample_with_empty_explicit_id");
        }
        fault_space(ctx, s, &mut p, &donor, false);
        if i == 0 {
            ctx.sample(json!({"valid_signature": {"origin": s.origin, "pk": hex::encode(r2::encode(&s.pk, true)), "id": s.id_str, "msg": hx(&s.msg), "sig": hex::encode(&s.sig)}, "faults": "512 bit flips, 14 component substitutions, s=n-r, swap, +n aliases, message/ID/key changes, lengths 0..=130, random pairs"}));
        }
    }
    for s in small.iter() {
        fault_space(ctx, s, &mut p, &donor, true);
    }
    // --- opposite keys d and n - d (P and -P share x and z) with one ID: right after a verification under P, a signature
    // made by n - d over H(ZA(P) || M) - the ZA of the OTHER key - is offered under -P. Only a verifier that computes ZA
    // from the whole key rejects it; the reference decides.
    {
        let no = ctx.n(4, 64);
        let mut po = ctx.prng("opposite_keys");
        for i in 0..no {
            let sub = po.next();
            if !ctx.mine(i) {
                continue;
            }
            let mut p = Prng::new(sub, "o");
            let d = rand_scalar(&mut p, &(&c.n - 2u32));
            let dn = &c.n - &d;
            if d.is_zero() || dn >= &c.n - 1u32 {
                continue;
            }
            let (pk_p, pk_n) = (r2::mul(&d, &r2::g()).unwrap(), r2::mul(&dn, &r2::g()).unwrap());
            let (Some(l_p), Some(l_n)) = (lib_pk(&pk_p), lib_pk(&pk_n)) else { continue };
            let (id, id_str): (Option<&'static str>, String) = if i % 2 == 0 { (None, DEFAULT_ID.to_string()) } else { (Some("opposite@keys"), "opposite@keys".to_string()) };
            let msg = p.bytes(20);
            let (k1, k2) = (rand_scalar(&mut p, &c.n), rand_scalar(&mut p, &c.n));
            let Some((r1, s1)) = r2::sign(&d, id_str.as_bytes(), &msg, &k1) else { continue };
            let e_p = r2::digest_e(id_str.as_bytes(), &pk_p, &msg);
            let Some((r2f, s2f)) = r2::sign_e(&dn, &e_p, &k2) else { continue };
            let sig_p = [r1.to_vec(), s1.to_vec()].concat();
            let forged = [r2f.to_vec(), s2f.to_vec()].concat();
            let s0 = Sample { d: Some(d.clone()), pk: pk_p.clone(), lpk: l_p.clone(), id, id_str: id_str.clone(), msg: msg.clone(), sig: sig_p.clone(), origin: "opposite-keys" };
            probe(ctx, &s0, &l_p, &pk_p, id, &id_str, &msg, &sig_p, "opposite_keys:valid_under_P", false);
            probe(ctx, &s0, &l_n, &pk_n, id, &id_str, &msg, &forged, "opposite_keys:signed_over_ZA_of_P_offered_under_-P", false);
            probe(ctx, &s0, &l_n, &pk_n, id, &id_str, &msg, &sig_p, "opposite_keys:signature_of_P_offered_under_-P", false);
            probe(ctx, &s0, &l_p, &pk_p, id, &id_str, &msg, &forged, "opposite_keys:forged_offered_under_P", false);
        }
    }
    // --- ZA || M of 2^29 bytes: the SM3 bit length needs more than 32 bits. Whatever the library accepts for such a
    // message must be a signature for the reference verifier too (one shard only, 1.5 GB transient).
    if ctx.shard == ctx.nshards - 1 {
        let mut pb = ctx.prng("bitlen_2^32");
        let len = (1usize << 29) - 32;
        let d = rand_scalar(&mut pb, &(&c.n - 1u32));
        let k = rand_scalar(&mut pb, &c.n);
        let pk = r2::mul(&d, &r2::g()).unwrap();
        let mut msg = vec![0u8; len];
        let head = pb.bytes(4096);
        msg[..4096].copy_from_slice(&head);
        if let (Some(lpk), Some(sk)) = (lib_pk(&pk), lib_sk(&d)) {
            let s0 = Sample { d: Some(d.clone()), pk: pk.clone(), lpk: lpk.clone(), id: None, id_str: DEFAULT_ID.to_string(), msg: vec![], sig: vec![], origin: "bitlen-2^32" };
            // (a) what the library itself signs
            ctx.eval();
            if let Outcome::Ret(Ok(sig)) = guard(|| sk.sign(None, &msg)) {
                probe(ctx, &s0, &lpk, &pk, None, DEFAULT_ID, &msg, &sig, "bitlen_2^32:library_made", false);
            }
            // (b) a reference-made signature for the same message with its last byte changed
            if let Some((r, s)) = r2::sign(&d, DEFAULT_ID.as_bytes(), &msg, &k) {
                let mut sig = r.to_vec();
                sig.extend_from_slice(&s);
                msg[len - 1] ^= 1;
                probe(ctx, &s0, &lpk, &pk, None, DEFAULT_ID, &msg, &sig, "bitlen_2^32:other_message", true);
            }
        }
    }
    ctx.exhaustive("all 512 single-bit flips of each sample signature", true);
    ctx.exhaustive("all encoding lengths 0..=130 except 64 for each sample signature", true);
    ctx.note("undecidable clause: deleting the t = (r+s) mod n = 0 test is observationally equivalent on every constructible input (acceptance would need e = r - x([s]G) for a hash e); s = n - r is exercised but cannot distinguish");
    ctx.note("r >= n aliases (r+n) are rejected by the final comparison even without the range check; only the s range check is observable (s+n witnesses)");
}
