//! First calls in the process. Each shard is a separately started process; before a property's workload starts,
//! shards 1, 2, 3 (mod 4) make their FIRST library calls with extreme arguments (smallest / single-limb / largest),
//! shard 0 (mod 4) does not. A table, constant or mask that is built lazily from the arguments of whichever call comes
//! first in the process is wrong for the rest of that process only in such a history. The warm-up results themselves
//! are compared with the reference; the property's ordinary workload then runs on top of the warmed-up process.
use crate::mon::{guard, Ctx, Outcome};
use crate::refs::{sm2 as r2, sm9 as r9};
use num_bigint::BigUint;
use num_traits::One;
use serde_json::json;

fn scalar(kind: usize, order: &BigUint) -> BigUint {
    match kind {
        1 => BigUint::one(),
        2 => (BigUint::one() << 64) - 1u32,
        _ => order - 1u32,
    }
}

pub fn run(prop: &str, ctx: &mut Ctx) {
    let kind = ctx.shard % 4;
    ctx.class(&format!("first_calls_in_process:{}", ["ordinary", "smallest_arguments", "single_limb_arguments", "largest_arguments"][kind]));
    if kind == 0 {
        return;
    }
    let sm2_family = matches!(prop, "C03" | "C04" | "C05" | "C06" | "C11" | "C14" | "C15" | "C19" | "C20");
    let sm9_family = matches!(prop, "C09" | "C10" | "C12" | "C13" | "C14" | "C16" | "C17" | "C20");
    if sm2_family {
        let c = r2::curve();
        let k = scalar(kind, &c.n);
        let lk = r2::to_limbs(&k);
        ctx.eval();
        let want = r2::mul(&k, &r2::g());
        match guard(|| gm_sm2::p256_ecc::g_mul(&lk)) {
            Outcome::Ret(p) if r2::from_lib_point(&p) == want => {}
            o => ctx.violation("first-call:sm2.g_mul:wrong", json!({"k": hex::encode(r2::b32(&k)), "outcome": o.class()})),
        }
        let g = r2::to_lib_point(&r2::g().unwrap(), &BigUint::one());
        ctx.eval();
        match guard(|| g.scalar_mul(&lk)) {
            Outcome::Ret(p) if r2::from_lib_point(&p) == want => {}
            o => ctx.violation("first-call:sm2.scalar_mul:wrong", json!({"k": hex::encode(r2::b32(&k)), "outcome": o.class()})),
        }
    }
    if sm9_family {
        let pr = r9::params();
        // the public sampler with a foreign (shorter) bound: must stay inside its own bound and must not influence anything
        // later. The bounds are chosen so that rejection sampling still ends quickly (acceptance 1/2 resp. 0.36 per draw).
        if kind != 3 {
            let bound: [u64; 4] = if kind == 1 { [u64::MAX, u64::MAX, u64::MAX, (1u64 << 63) - 1] } else { r9::to_limbs(&(&pr.n >> 1)) };
            ctx.eval();
            match guard(|| gm_sm9::u256::sm9_random_u256(&bound)) {
                Outcome::Ret(v) => {
                    let vb = r9::from_limbs(&v);
                    if vb >= r9::from_limbs(&bound) {
                        ctx.violation("first-call:sm9_random_u256(foreign bound):out-of-range", json!({"bound": hex::encode(r9::b32(&r9::from_limbs(&bound))), "got": hex::encode(r9::b32(&vb))}));
                    }
                }
                o => ctx.violation("first-call:sm9_random_u256(foreign bound):crash", json!({"outcome": o.class()})),
            }
        }
        let k = scalar(kind, &pr.n);
        let lk = r9::to_limbs(&k);
        ctx.eval();
        match guard(|| gm_sm9::points::Point::g_mul(&lk)) {
            Outcome::Ret(p) if r9::ref_g1(&p) == r9::g1_mul(&k, &r9::g1_gen()) => {}
            o => ctx.violation("first-call:sm9.Point::g_mul:wrong", json!({"k": hex::encode(r9::b32(&k)), "outcome": o.class()})),
        }
        ctx.eval();
        match guard(|| gm_sm9::points::TwistPoint::g_mul(&lk)) {
            Outcome::Ret(p) if r9::ref_g2(&p) == r9::g2_mul(&k, &r9::g2_gen()) => {}
            o => ctx.violation("first-call:sm9.TwistPoint::g_mul:wrong", json!({"k": hex::encode(r9::b32(&k)), "outcome": o.class()})),
        }
    }
    match prop {
        "C01" => {
            let m = vec![0x61u8; [0usize, 0, 64, 200][kind]];
            ctx.eval();
            match guard(|| gm_sm3::sm3_hash(&m)) {
                Outcome::Ret(d) if d == crate::refs::sm3::sm3(&m) => {}
                o => ctx.violation("first-call:sm3_hash:wrong", json!({"len": m.len(), "outcome": o.class()})),
            }
        }
        "C08" | "C18" => {
            let (key, iv) = ([[0u8; 16], [0u8; 16], [0xffu8; 16], [0x80u8; 16]][kind], [0u8; 16]);
            ctx.eval();
            let want = crate::refs::zuc::Zuc::new(&key, &iv).words(kind);
            match guard(|| gm_zuc::ZUC::new(&key, &iv).generate_keystream(kind)) {
                Outcome::Ret(w) if w == want => {}
                o => ctx.violation("first-call:ZUC::generate_keystream:wrong", json!({"n": kind, "outcome": o.class()})),
            }
        }
        _ => {}
    }
}
