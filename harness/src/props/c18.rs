//! C18 — 128-EEA3 and 128-EIA3 match the 3GPP specification for every bit length.
use crate::mon::{guard, Ctx, Outcome, Prng};
use crate::refs::zuc as rzuc;
use gm_zuc::eea::EEA;
use gm_zuc::eia::EIA;
use serde_json::json;

fn words(p: &mut Prng, n: usize) -> Vec<u32> {
    (0..n).map(|_| p.next() as u32).collect()
}

fn wjson(ck: &[u8; 16], count: u32, bearer: u32, dir: u32, len: u32, msg: &[u32]) -> serde_json::Value {
    let m: Vec<String> = msg.iter().take(24).map(|w| format!("{:08x}", w)).collect();
    json!({"key": hex::encode(ck), "count": format!("{:08x}", count), "bearer": bearer, "direction": dir, "length": len, "msg_words": msg.len(), "msg_head": m})
}

fn eea_case(ctx: &mut Ctx, ck: &[u8; 16], count: u32, bearer: u32, dir: u32, len: u32, msg: &[u32], cls: &str) {
    ctx.eval();
    ctx.class(cls);
    ctx.class(&format!("eea_lenmod32={:02}", len % 32));
    ctx.class(&format!("eea_dir={}", dir));
    let l = ((len + 31) / 32) as usize;
    let expect = rzuc::eea3(ck, count, bearer, dir, len, msg);
    let w = wjson(ck, count, bearer, dir, len, msg);
    let mb: Vec<u8> = msg.iter().flat_map(|x| x.to_be_bytes()).collect();
    ctx.distinct("eea", &[ck, &count.to_be_bytes(), &[bearer as u8, dir as u8], &len.to_be_bytes(), &mb]);
    let out = match guard(|| {
        let mut e = EEA::new(ck, count, bearer, dir);
        e.encrypt(msg, len)
    }) {
        Outcome::Ret(v) => v,
        o => {
            ctx.violation(&format!("EEA::encrypt:{}:{}", cls, o.class()), json!({"case": w, "outcome": format!("{:?}", o)}));
            return;
        }
    };
    if out.len() != l {
        ctx.violation(&format!("EEA::encrypt:{}:wrong-word-count", cls), json!({"case": w, "got": out.len(), "want": l}));
        return;
    }
    if out != expect {
        let k = (0..l).find(|&i| out[i] != expect[i]).unwrap();
        ctx.violation(
            &format!("EEA::encrypt:{}:{}", cls, if k + 1 == l { "last-word-mismatch" } else { "word-mismatch" }),
            json!({"case": w, "word": k, "expected": format!("{:08x}", expect[k]), "actual": format!("{:08x}", out[k])}),
        );
        return;
    }
    // involution on the first LENGTH bits
    ctx.eval();
    if let Outcome::Ret(back) = guard(|| {
        let mut e = EEA::new(ck, count, bearer, dir);
        e.encrypt(&out, len)
    }) {
        let mut want: Vec<u32> = msg[..l].to_vec();
        if len % 32 != 0 {
            want[l - 1] &= !0u32 << (32 - len % 32);
        }
        if back != want {
            ctx.violation(&format!("EEA::encrypt:{}:not-involution", cls), json!({"case": w}));
        }
    }
}

fn eia_case(ctx: &mut Ctx, ik: &[u8; 16], count: u32, bearer: u32, dir: u32, len: u32, msg: &[u32], cls: &str, p: &mut Prng) {
    ctx.eval();
    ctx.class(cls);
    ctx.class(&format!("eia_lenmod32={:02}", len % 32));
    ctx.class(&format!("eia_dir={}", dir));
    let expect = rzuc::eia3(ik, count, bearer, dir, len, msg);
    let w = wjson(ik, count, bearer, dir, len, msg);
    let mb: Vec<u8> = msg.iter().flat_map(|x| x.to_be_bytes()).collect();
    ctx.distinct("eia", &[ik, &count.to_be_bytes(), &[bearer as u8, dir as u8], &len.to_be_bytes(), &mb]);
    let mac = |m: &[u32]| guard(|| EIA::new(ik, count, bearer, dir).gen_mac(m, len));
    match mac(msg) {
        Outcome::Ret(t) => {
            if t != expect {
                ctx.violation(&format!("EIA::gen_mac:{}:mac-mismatch", cls), json!({"case": w, "expected": format!("{:08x}", expect), "actual": format!("{:08x}", t)}));
                return;
            }
        }
        o => {
            ctx.violation(&format!("EIA::gen_mac:{}:{}", cls, o.class()), json!({"case": w, "outcome": format!("{:?}", o)}));
            return;
        }
    }
    // a flip beyond LENGTH must not change the MAC; a flip inside must give the reference's MAC
    let total_bits = msg.len() * 32;
    if (len as usize) < total_bits {
        let pos = len as usize + p.below((total_bits - len as usize) as u64) as usize;
        let mut m2 = msg.to_vec();
        m2[pos / 32] ^= 0x8000_0000 >> (pos % 32);
        ctx.eval();
        ctx.class("eia_flip_beyond_length");
        if let Outcome::Ret(t) = mac(&m2) {
            if t != expect {
                ctx.violation(&format!("EIA::gen_mac:{}:depends-on-bits-beyond-length", cls), json!({"case": w, "flipped_bit": pos}));
            }
        }
    }
    if len > 0 {
        let pos = p.below(len as u64) as usize;
        let mut m2 = msg.to_vec();
        m2[pos / 32] ^= 0x8000_0000 >> (pos % 32);
        let e2 = rzuc::eia3(ik, count, bearer, dir, len, &m2);
        ctx.eval();
        ctx.class("eia_flip_inside_length");
        if let Outcome::Ret(t) = mac(&m2) {
            if t != e2 {
                ctx.violation(&format!("EIA::gen_mac:{}:flip-inside-mismatch", cls), json!({"case": w, "flipped_bit": pos}));
            }
        }
    }
}

pub fn run(ctx: &mut Ctx) {
    super::zuc_state::run(ctx);
    for (n, ok) in rzuc::selftest() {
        ctx.selftest(&n, ok);
    }
    ctx.require(&["eea_official", "eia_official", "eea_sweep", "eia_sweep", "eia_length_zero", "eea_dir=0", "eea_dir=1", "eia_dir=0", "eia_dir=1", "eia_flip_beyond_length", "eia_flip_inside_length", "eea_long", "eia_long", "msg_longer_than_needed", "all_bearers", "structured_words"]);
    for r in 0..32 {
        ctx.required.push(format!("eea_lenmod32={:02}", r));
        ctx.required.push(format!("eia_lenmod32={:02}", r));
    }
    let mut p = ctx.prng("aux");

    // --- official test sets through the library
    if ctx.shard == 0 {
        let ck = [0x17, 0x3d, 0x14, 0xba, 0x50, 0x03, 0x73, 0x1d, 0x7a, 0x60, 0x04, 0x94, 0x70, 0xf0, 0x0a, 0x29];
        let ibs = [0x6cf65340u32, 0x735552ab, 0x0c9752fa, 0x6f9025fe, 0x0bd675d9, 0x005875b2, 0];
        eea_case(ctx, &ck, 0x66035492, 0xf, 0, 0xc1, &ibs, "eea_official");
        eia_case(ctx, &[0; 16], 0, 0, 0, 1, &[0], "eia_official", &mut p);
        let ik2 = [0x47, 0x05, 0x41, 0x25, 0x56, 0x1e, 0xb2, 0xdd, 0xa9, 0x40, 0x59, 0xda, 0x05, 0x09, 0x78, 0x50];
        eia_case(ctx, &ik2, 0x561eb2dd, 0x14, 0, 90, &[0, 0, 0], "eia_official", &mut p);
        ctx.sample(json!({"eia3 test set 2": {"key": hex::encode(ik2), "count": "561eb2dd", "bearer": 20, "direction": 0, "length": 90, "mac": "6719a088"}}));
    }

    // --- every LENGTH 0..=600 x rotating (bearer, direction) so that each (length mod 32, bearer, direction) occurs
    let reps = ctx.n(2, 64);
    let mut prng = ctx.prng("sweep");
    let mut idx = 0u64;
    let mut bearers_seen = [false; 32];
    for rep in 0..reps {
        for len in 0..=600u32 {
            let key: [u8; 16] = prng.arr();
            let count = prng.next() as u32;
            // (len/32 + len + rep) walks through all 64 (bearer, dir) pairs for each residue over reps
            let sel = (len / 32 + len % 32 * 3 + rep as u32 * 19) % 64;
            let (bearer, dir) = (sel % 32, sel / 32);
            let need = ((len + 31) / 32) as usize;
            let extra = if len % 7 == 0 { prng.range(1, 3) } else { 0 };
            let msg_eea = words(&mut prng, need + extra);
            let msg_eia = words(&mut prng, need.max(1) + extra);
            let sub = prng.next();
            idx += 1;
            if !ctx.mine(idx) {
                continue;
            }
            bearers_seen[bearer as usize] = true;
            if extra > 0 {
                ctx.class("msg_longer_than_needed");
            }
            let mut p2 = Prng::new(sub, "f");
            // LENGTH = 0 is in the domain of both functions: ceil(0/32) = 0 words come back, also for an empty message
            eea_case(ctx, &key, count, bearer, dir, len, &msg_eea, "eea_sweep");
            if len == 0 {
                ctx.class("eia_length_zero");
                ctx.class("eea_length_zero");
            }
            eia_case(ctx, &key, count, bearer, dir, len, &msg_eia, "eia_sweep", &mut p2);
            if rep == 0 && len == 193 {
                ctx.sample(wjson(&key, count, bearer, dir, len, &msg_eea));
            }
        }
    }
    ctx.exhaustive("LENGTH 0..=600 (EIA3 and EEA3)", true);
    // all 32 bearers x 2 directions explicitly, at a fixed set of lengths
    for bearer in 0..32u32 {
        for dir in 0..2u32 {
            for len in [1u32, 31, 32, 33, 64, 100] {
                let key: [u8; 16] = prng.arr();
                let count = prng.next() as u32;
                let msg = words(&mut prng, 5);
                idx += 1;
                if !ctx.mine(idx) {
                    continue;
                }
                ctx.class("all_bearers");
                eea_case(ctx, &key, count, bearer, dir, len, &msg, "bearer_grid");
                eia_case(ctx, &key, count, bearer, dir, len, &msg, "bearer_grid", &mut p);
            }
        }
    }
    ctx.exhaustive("32 bearers x 2 directions x {1,31,32,33,64,100} bits", true);

    // --- messages made of boundary WORDS (0, 1, 2, 0x80000000, 0xffffffff, 0x00010000, 0x0000ffff), alone and mixed with
    // random words, every position: a per-word bit scan that mishandles a lone low or high bit shows only here
    {
        let pal: [u32; 8] = [0, 1, 2, 0x8000_0000, 0xffff_ffff, 0x0001_0000, 0x0000_ffff, 0x7fff_ffff];
        let mut ps = ctx.prng("words");
        let reps = ctx.n(3, 60);
        let mut wi = 0u64;
        for rep in 0..reps {
            for nwords in 1..=6usize {
                for special in 0..8usize {
                    wi += 1;
                    let key: [u8; 16] = ps.arr();
                    let count = ps.next() as u32;
                    let (bearer, dir) = (ps.below(32) as u32, ps.below(2) as u32);
                    let mut msg: Vec<u32> = (0..nwords + 1).map(|_| if rep % 3 == 0 { pal[ps.below(8) as usize] } else { ps.next() as u32 }).collect();
                    let pos = ps.below(nwords as u64) as usize;
                    msg[pos] = pal[special];
                    let len = (32 * nwords) as u32 - if rep % 2 == 0 { 0 } else { ps.below(31) as u32 };
                    let sub = ps.next();
                    if !ctx.mine(wi) {
                        continue;
                    }
                    let mut p2 = Prng::new(sub, "w");
                    ctx.class("structured_words");
                    eea_case(ctx, &key, count, bearer, dir, len, &msg, "structured_words");
                    eia_case(ctx, &key, count, bearer, dir, len, &msg, "structured_words", &mut p2);
                }
            }
        }
    }

    // --- random longer lengths up to 65504 (3GPP domain), a few up to 2^20
    let n = ctx.n(150, 6000);
    let mut prng = ctx.prng("long");
    for i in 0..n {
        let key: [u8; 16] = prng.arr();
        let count = prng.next() as u32;
        let bearer = prng.below(32) as u32;
        let dir = prng.below(2) as u32;
        let len = if i % 40 == 0 { prng.range(65505, 1 << 20) as u32 } else { prng.range(601, 65504) as u32 };
        let sub = prng.next();
        if !ctx.mine(i) {
            continue;
        }
        let mut p2 = Prng::new(sub, "m");
        let msg = words(&mut p2, ((len + 31) / 32) as usize + (i % 3) as usize);
        eea_case(ctx, &key, count, bearer, dir, len, &msg, "eea_long");
        eia_case(ctx, &key, count, bearer, dir, len, &msg, "eia_long", &mut p2);
    }
    ctx.note("LENGTH within 31 of 2^32 is outside the specified domain (u32 overflow in LENGTH+31) and is not claimed");
}
