//! C20 — Untrusted input never crashes or hangs an entry point.
//! Oracle: outcome class of every call in {Ok, Err}; panic (incl. overflow / assertion in the
//! `checked` profile), RNG step-limit, abort (seen by the driver through the journal) -> violation.
use crate::corpus;
use crate::mon::{guard, hx, Ctx, Outcome, Prng};
use crate::props::c05::{layout_name, model, LAYOUTS};
use crate::refs::der;
use crate::refs::sm2::{self as r2, Order};
use crate::refs::sm9 as r9;
use crate::{sm2x, sm9x};
use gm_sm2::key::{Sm2PrivateKey, Sm2PublicKey};
use gm_sm4::{CipherMode, Sm4Cipher, Sm4CipherMode};
use num_bigint::BigUint;
use num_traits::{One, Zero};
use pkcs8::{DecodePrivateKey, DecodePublicKey};
use serde_json::json;
use std::str::FromStr;

/// one call of an entry point with untrusted input; `f` returns true for Ok, false for Err
fn call(ctx: &mut Ctx, entry: &str, class: &str, input: &[u8], f: impl FnOnce() -> bool) {
    ctx.eval();
    ctx.class(&format!("entry:{}", entry));
    ctx.distinct(entry, &[class.as_bytes(), input]);
    ctx.journal_call(entry, &format!("{} {}", class, hx(input)));
    let o = guard(f);
    ctx.journal_ret(o.class());
    match o {
        Outcome::Ret(true) => ctx.class("outcome_ok"),
        Outcome::Ret(false) => ctx.class("outcome_err"),
        Outcome::Panic(m) => ctx.violation(&format!("{}:{}:panic", entry, class), json!({"entry": entry, "class": class, "input": hx(input), "input_len": input.len(), "panic": m})),
        Outcome::StepLimit(n) => ctx.violation(&format!("{}:{}:never-returns(step-limit)", entry, class), json!({"entry": entry, "class": class, "input": hx(input), "rng_draws": n})),
    }
}

fn len_class(len: usize, boundaries: &[usize]) -> String {
    // class by position relative to the structural boundaries of the format
    let mut prev = 0usize;
    for &b in boundaries {
        if len < b {
            return format!("len_in_[{},{})", prev, b);
        }
        if len == b {
            return format!("len={}", b);
        }
        prev = b + 1;
    }
    format!("len>{}", boundaries.last().unwrap_or(&0))
}

/// every length 0..=200 in three content classes
fn length_sweep(ctx: &mut Ctx, p: &mut Prng, idx: &mut u64, entry: &str, boundaries: &[usize], f: &dyn Fn(&[u8]) -> bool) {
    for len in 0..=200usize {
        for content in 0..3 {
            let data = match content {
                0 => vec![0u8; len],
                1 => vec![0xffu8; len],
                _ => p.bytes(len),
            };
            *idx += 1;
            if !ctx.mine(*idx) {
                continue;
            }
            let cls = format!("{}:{}", ["zeros", "ff", "random"][content], len_class(len, boundaries));
            call(ctx, entry, &cls, &data, || f(&data));
        }
    }
}

/// every truncation and every single-byte corruption (three substitutions) of a valid encoding
fn mutate_valid(ctx: &mut Ctx, p: &mut Prng, idx: &mut u64, entry: &str, valid: &[u8], stride: usize, f: &dyn Fn(&[u8]) -> bool) {
    for len in 0..valid.len() {
        *idx += 1;
        if !ctx.mine(*idx) {
            continue;
        }
        call(ctx, entry, "truncated_valid", &valid[..len], || f(&valid[..len]));
    }
    for pos in (0..valid.len()).step_by(stride.max(1)) {
        for sub in 0..3 {
            *idx += 1;
            if !ctx.mine(*idx) {
                continue;
            }
            let mut v = valid.to_vec();
            v[pos] = match sub {
                0 => v[pos] ^ 0xff,
                1 => v[pos].wrapping_add(1),
                _ => p.next() as u8,
            };
            call(ctx, entry, "corrupted_valid", &v, || f(&v));
        }
    }
    *idx += 1;
    if ctx.mine(*idx) {
        let mut v = valid.to_vec();
        v.extend_from_slice(&p.bytes(7));
        call(ctx, entry, "extended_valid", &v, || f(&v));
    }
}

pub fn run(ctx: &mut Ctx) {
    for (n, ok) in r2::selftest() {
        ctx.selftest(&n, ok);
    }
    ctx.require(&["outcome_ok", "outcome_err", "boundary_key_accepted", "boundary_key_rejected", "carry_chain_key", "boundary_key_through_other_decoder"]);
    let entries = [
        "sm2.verify", "sm2.decrypt:c1c2c3_uncompressed", "sm2.decrypt:c1c2c3_compressed", "sm2.decrypt:c1c3c2_uncompressed", "sm2.decrypt:c1c3c2_compressed", "sm2.decrypt_asn1", "sm2.Sm2PublicKey::new", "sm2.Sm2PublicKey::from_hex_string", "sm2.Sm2PrivateKey::new", "sm2.Sm2PrivateKey::from_hex_string", "sm2.from_pkcs8_der", "sm2.from_pkcs8_pem", "sm2.from_public_key_der", "sm2.from_public_key_pem", "sm2.FromStr", "sm2.kdf", "sm2.compute_za",
        "sm4.Sm4Cipher::new", "sm4.Sm4Cipher::encrypt", "sm4.Sm4Cipher::decrypt", "sm4.Sm4CipherMode::new", "sm4.mode.decrypt:cbc", "sm4.mode.decrypt:cfb", "sm4.mode.decrypt:ofb", "sm4.mode.decrypt:ctr", "sm4.mode.encrypt:cbc", "sm4.mode.encrypt:ctr",
        "sm9.decrypt", "sm9.verify_sign", "sm9.mod_n_from_hash", "sm2.sign(boundary key)", "sm2.encrypt(boundary key)",
    ];
    for e in entries {
        ctx.required.push(format!("entry:{}", e));
    }
    let c = r2::curve();
    let mut p = ctx.prng("c20");
    let mut idx = 0u64;
    let cs = corpus::load("sm2_openssl.json");

    // ------------------------------------------------------------------ SM2 fixtures
    let d = sm2x::rand_scalar(&mut p, &(&c.n - 1u32));
    let pk = r2::mul(&d, &r2::g()).unwrap();
    let sk = sm2x::lib_sk(&d).expect("fixture key");
    let lpk = sm2x::lib_pk(&pk).expect("fixture key");
    let msg = b"fixture message".to_vec();
    let k = sm2x::rand_scalar(&mut p, &c.n);
    let (r, s) = r2::sign(&d, b"1234567812345678", &msg, &k).unwrap();
    let mut sig = r.to_vec();
    sig.extend_from_slice(&s);

    // verify
    length_sweep(ctx, &mut p, &mut idx, "sm2.verify", &[63, 64], &|b| lpk.verify(None, &msg, b).is_ok());
    mutate_valid(ctx, &mut p, &mut idx, "sm2.verify", &sig, 1, &|b| lpk.verify(None, &msg, b).is_ok());
    // decrypt, four layouts
    for lay in LAYOUTS {
        let entry = format!("sm2.decrypt:{}", layout_name(lay.0, lay.1));
        let l1 = if lay.1 { 33 } else { 65 };
        let ct = r2::encrypt(&pk, &msg, &k, lay.0, lay.1).unwrap();
        length_sweep(ctx, &mut p, &mut idx, &entry, &[l1 - 1, l1, l1 + 31, l1 + 32, l1 + 33], &|b| sk.decrypt(b, lay.1, model(lay.0)).is_ok());
        mutate_valid(ctx, &mut p, &mut idx, &entry, &ct, 1, &|b| sk.decrypt(b, lay.1, model(lay.0)).is_ok());
        // well-formed C1 followed by every short tail
        for tail in 0..=40usize {
            idx += 1;
            if !ctx.mine(idx) {
                continue;
            }
            let mut v = ct[..l1].to_vec();
            v.extend_from_slice(&p.bytes(tail));
            call(ctx, &entry, "valid_c1_short_tail", &v, || sk.decrypt(&v, lay.1, model(lay.0)).is_ok());
        }
        // well-formed C1 followed by a very long tail (C2 beyond 2^16, 2^21, 2^24 bytes: KDF block counts of every width)
        for big in [65536usize + 3, (1 << 21) + 7, (1 << 24) + 1, (1 << 24) + 40] {
            idx += 1;
            if !ctx.mine(idx) {
                continue;
            }
            let mut v = ct[..l1].to_vec();
            v.extend_from_slice(&p.bytes(32));
            v.resize(l1 + 32 + big, 0x5a);
            call(ctx, &entry, "valid_c1_huge_tail", &v, || sk.decrypt(&v, lay.1, model(lay.0)).is_ok());
        }
    }
    // decrypt_asn1
    let raw = r2::encrypt(&pk, &msg, &k, Order::C1C3C2, false).unwrap();
    let doc = der::sm2cipher_encode(&raw[1..33], &raw[33..65], &raw[65..97], &raw[97..]);
    length_sweep(ctx, &mut p, &mut idx, "sm2.decrypt_asn1", &[1, 2, 100], &|b| sk.decrypt_asn1(b, false, model(Order::C1C3C2)).is_ok());
    mutate_valid(ctx, &mut p, &mut idx, "sm2.decrypt_asn1", &doc, 1, &|b| sk.decrypt_asn1(b, false, model(Order::C1C3C2)).is_ok());
    for (i, v) in cs["ciphertexts"].as_array().unwrap().iter().enumerate().take(ctx.n(3, 40) as usize) {
        let dd = r2::from_b(&corpus::hexf(v, "d"));
        let docs = corpus::hexf(v, "der");
        if let Some(skk) = sm2x::lib_sk(&dd) {
            mutate_valid(ctx, &mut p, &mut idx, "sm2.decrypt_asn1", &docs, if i == 0 { 1 } else { 5 }, &|b| skk.decrypt_asn1(b, false, model(Order::C1C3C2)).is_ok());
        }
    }
    // crafted DER: huge INTEGERs, empty octet strings, wrong hash length, nested garbage
    let crafted_docs: Vec<(&str, Vec<u8>)> = vec![
        ("x_integer_40_bytes", der::sm2cipher_encode(&[0x7f; 40], &raw[33..65], &raw[65..97], &raw[97..])),
        ("y_integer_40_bytes", der::sm2cipher_encode(&raw[1..33], &[0x7f; 40], &raw[65..97], &raw[97..])),
        ("x_integer_33_bytes_2^256", der::sm2cipher_encode(&[&[1u8][..], &[0u8; 32][..]].concat(), &raw[33..65], &raw[65..97], &raw[97..])),
        ("y_integer_33_bytes_2^256", der::sm2cipher_encode(&raw[1..33], &[&[1u8][..], &[0u8; 32][..]].concat(), &raw[65..97], &raw[97..])),
        ("x_integer_33_bytes_7f", der::sm2cipher_encode(&[0x7f; 33], &raw[33..65], &raw[65..97], &raw[97..])),
        ("y_integer_34_bytes", der::sm2cipher_encode(&raw[1..33], &[0x01; 34], &raw[65..97], &raw[97..])),
        ("x_zero", der::sm2cipher_encode(&[0], &raw[33..65], &raw[65..97], &raw[97..])),
        ("xy_zero", der::sm2cipher_encode(&[0], &[0], &raw[65..97], &raw[97..])),
        ("hash_31_bytes", der::sm2cipher_encode(&raw[1..33], &raw[33..65], &raw[65..96], &raw[97..])),
        ("hash_33_bytes", der::sm2cipher_encode(&raw[1..33], &raw[33..65], &raw[64..97], &raw[97..])),
        ("hash_empty", der::sm2cipher_encode(&raw[1..33], &raw[33..65], &[], &raw[97..])),
        ("cipher_empty", der::sm2cipher_encode(&raw[1..33], &raw[33..65], &raw[65..97], &[])),
        ("all_empty", der::sm2cipher_encode(&[0], &[0], &[], &[])),
        ("empty_sequence", vec![0x30, 0x00]),
        ("sequence_of_one", der::tlv(0x30, &der::int_from_be(&[5]))),
        ("negative_integer", der::tlv(0x30, &[der::tlv(0x02, &[0x80]), der::tlv(0x02, &[0x80]), der::tlv(0x04, &raw[65..97]), der::tlv(0x04, &raw[97..])].concat())),
    ];
    for (name, dv) in &crafted_docs {
        idx += 1;
        if !ctx.mine(idx) {
            continue;
        }
        for (cf, ord) in [(false, Order::C1C3C2), (true, Order::C1C2C3)] {
            call(ctx, "sm2.decrypt_asn1", &format!("crafted:{}", name), dv, || sk.decrypt_asn1(dv, cf, model(ord)).is_ok());
        }
    }
    // public key decoders
    let enc_u = r2::encode(&pk, false);
    let enc_c = r2::encode(&pk, true);
    length_sweep(ctx, &mut p, &mut idx, "sm2.Sm2PublicKey::new", &[0, 1, 33, 65], &|b| Sm2PublicKey::new(b).is_ok());
    for leading in [0x02u8, 0x03, 0x04, 0x00, 0x06] {
        for len in 0..=70usize {
            idx += 1;
            if !ctx.mine(idx) {
                continue;
            }
            let mut v = p.bytes(len);
            if len > 0 {
                v[0] = leading;
            }
            call(ctx, "sm2.Sm2PublicKey::new", &format!("pc={:02x}:{}", leading, len_class(len, &[0, 1, 33, 65])), &v, || Sm2PublicKey::new(&v).is_ok());
            let hs = hex::encode(&v);
            call(ctx, "sm2.Sm2PublicKey::from_hex_string", &format!("pc={:02x}:{}", leading, len_class(len, &[0, 1, 33, 65])), hs.as_bytes(), || Sm2PublicKey::from_hex_string(&hs).is_ok());
        }
    }
    mutate_valid(ctx, &mut p, &mut idx, "sm2.Sm2PublicKey::new", &enc_u, 1, &|b| Sm2PublicKey::new(b).is_ok());
    mutate_valid(ctx, &mut p, &mut idx, "sm2.Sm2PublicKey::new", &enc_c, 1, &|b| Sm2PublicKey::new(b).is_ok());
    // hex text: non-hex characters, odd length, empty, unicode
    for (name, text) in [("empty", String::new()), ("odd_length", "04abc".to_string()), ("non_hex", "04zz".repeat(16)), ("unicode", "０４ａｂ".to_string()), ("valid_upper", hex::encode_upper(&enc_u)), ("whitespace", format!(" {}", hex::encode(&enc_u)))] {
        idx += 1;
        if !ctx.mine(idx) {
            continue;
        }
        call(ctx, "sm2.Sm2PublicKey::from_hex_string", &format!("text:{}", name), text.as_bytes(), || Sm2PublicKey::from_hex_string(&text).is_ok());
        call(ctx, "sm2.Sm2PrivateKey::from_hex_string", &format!("text:{}", name), text.as_bytes(), || Sm2PrivateKey::from_hex_string(&text).is_ok());
    }
    // private key decoders
    length_sweep(ctx, &mut p, &mut idx, "sm2.Sm2PrivateKey::new", &[31, 32], &|b| Sm2PrivateKey::new(b).is_ok());
    for len in 0..=70usize {
        idx += 1;
        if !ctx.mine(idx) {
            continue;
        }
        let hs = hex::encode(p.bytes(len));
        call(ctx, "sm2.Sm2PrivateKey::from_hex_string", &len_class(len, &[31, 32]), hs.as_bytes(), || Sm2PrivateKey::from_hex_string(&hs).is_ok());
    }
    // DER / PEM documents
    let p8 = der::pkcs8_encode(&r2::b32(&d), Some(&enc_u));
    let spki = der::spki_encode(&enc_u);
    length_sweep(ctx, &mut p, &mut idx, "sm2.from_pkcs8_der", &[1, 2], &|b| Sm2PrivateKey::from_pkcs8_der(b).is_ok());
    length_sweep(ctx, &mut p, &mut idx, "sm2.from_public_key_der", &[1, 2], &|b| Sm2PublicKey::from_public_key_der(b).is_ok());
    mutate_valid(ctx, &mut p, &mut idx, "sm2.from_pkcs8_der", &p8, 1, &|b| Sm2PrivateKey::from_pkcs8_der(b).is_ok());
    mutate_valid(ctx, &mut p, &mut idx, "sm2.from_public_key_der", &spki, 1, &|b| Sm2PublicKey::from_public_key_der(b).is_ok());
    let ossl = &cs["keys"].as_array().unwrap()[ctx.seed as usize % 24];
    mutate_valid(ctx, &mut p, &mut idx, "sm2.from_pkcs8_der", &corpus::hexf(ossl, "pkcs8_der"), 1, &|b| Sm2PrivateKey::from_pkcs8_der(b).is_ok());
    mutate_valid(ctx, &mut p, &mut idx, "sm2.from_public_key_der", &corpus::hexf(ossl, "spki_der"), 1, &|b| Sm2PublicKey::from_public_key_der(b).is_ok());
    // documents with structurally valid DER but bad key material
    let mut offcurve = enc_u.clone();
    offcurve[64] ^= 1;
    let bad_docs: Vec<(&str, Vec<u8>, bool)> = vec![
        ("spki_offcurve_point", der::spki_encode(&offcurve), false),
        ("spki_short_point", der::spki_encode(&enc_u[..40]), false),
        ("spki_empty_point", der::spki_encode(&[]), false),
        ("spki_pc_00", der::spki_encode(&[&[0u8][..], &enc_u[1..]].concat()), false),
        ("spki_compressed_point", der::spki_encode(&enc_c), false),
        ("pkcs8_d_31_bytes", der::pkcs8_encode(&[1u8; 31], None), true),
        ("pkcs8_d_33_bytes", der::pkcs8_encode(&[1u8; 33], None), true),
        ("pkcs8_d_empty", der::pkcs8_encode(&[], None), true),
        ("pkcs8_d_zero", der::pkcs8_encode(&[0u8; 32], None), true),
        ("pkcs8_d_n", der::pkcs8_encode(&r2::b32(&c.n), None), true),
        ("pkcs8_d_ff", der::pkcs8_encode(&[0xffu8; 32], None), true),
        ("pkcs8_pub_offcurve", der::pkcs8_encode(&r2::b32(&d), Some(&offcurve)), true),
        ("pkcs8_pub_short", der::pkcs8_encode(&r2::b32(&d), Some(&enc_u[..10])), true),
        ("pkcs8_pub_empty", der::pkcs8_encode(&r2::b32(&d), Some(&[])), true),
    ];
    for (name, dv, is_priv) in &bad_docs {
        idx += 1;
        if !ctx.mine(idx) {
            continue;
        }
        if *is_priv {
            call(ctx, "sm2.from_pkcs8_der", &format!("crafted:{}", name), dv, || Sm2PrivateKey::from_pkcs8_der(dv).is_ok());
            let pem = der::pem("PRIVATE KEY", dv);
            call(ctx, "sm2.from_pkcs8_pem", &format!("crafted:{}", name), pem.as_bytes(), || Sm2PrivateKey::from_pkcs8_pem(&pem).is_ok());
        } else {
            call(ctx, "sm2.from_public_key_der", &format!("crafted:{}", name), dv, || Sm2PublicKey::from_public_key_der(dv).is_ok());
            let pem = der::pem("PUBLIC KEY", dv);
            call(ctx, "sm2.from_public_key_pem", &format!("crafted:{}", name), pem.as_bytes(), || Sm2PublicKey::from_public_key_pem(&pem).is_ok());
            call(ctx, "sm2.FromStr", &format!("crafted:{}", name), pem.as_bytes(), || Sm2PublicKey::from_str(&pem).is_ok());
        }
    }
    // PEM text: truncations / corruptions of valid documents, garbage text
    let pem_priv = ossl["pkcs8_pem"].as_str().unwrap().to_string();
    let pem_pub = ossl["spki_pem"].as_str().unwrap().to_string();
    for (entry, text, which) in [("sm2.from_pkcs8_pem", &pem_priv, 0), ("sm2.from_public_key_pem", &pem_pub, 1), ("sm2.FromStr", &pem_pub, 2)] {
        let tb = text.as_bytes();
        let f = |b: &[u8]| -> bool {
            let s = String::from_utf8_lossy(b).to_string();
            match which {
                0 => Sm2PrivateKey::from_pkcs8_pem(&s).is_ok(),
                1 => Sm2PublicKey::from_public_key_pem(&s).is_ok(),
                _ => Sm2PublicKey::from_str(&s).is_ok(),
            }
        };
        mutate_valid(ctx, &mut p, &mut idx, entry, tb, 2, &f);
        for (name, t) in [("empty", ""), ("only_header", "-----BEGIN PUBLIC KEY-----\n"), ("no_body", "-----BEGIN PUBLIC KEY-----\n-----END PUBLIC KEY-----\n"), ("garbage", "hello world"), ("bad_base64", "-----BEGIN PUBLIC KEY-----\n!!!!\n-----END PUBLIC KEY-----\n")] {
            idx += 1;
            if ctx.mine(idx) {
                call(ctx, entry, &format!("text:{}", name), t.as_bytes(), || f(t.as_bytes()));
            }
        }
    }
    // kdf and compute_za
    for zlen in [0usize, 1, 31, 32, 64, 65, 200] {
        for klen in [0usize, 1, 31, 32, 33, 64, 1000, 100_000, (1 << 21) + 7, (1 << 24) + 1] {
            idx += 1;
            if !ctx.mine(idx) {
                continue;
            }
            let z = p.bytes(zlen);
            call(ctx, "sm2.kdf", &format!("klen={}", klen), &z, || {
                let _ = gm_sm2::util::kdf(&z, klen);
                true
            });
        }
    }
    for (name, pt) in [
        ("valid", r2::to_lib_point(&pk, &BigUint::one())),
        ("offcurve", r2::to_lib_point(&(pk.0.clone(), (&pk.1 + 1u32) % &c.p), &BigUint::one())),
        ("z_zero", gm_sm2::p256_ecc::Point { x: [1, 2, 3, 4], y: [5, 6, 7, 8], z: [0; 4] }),
        ("all_zero", gm_sm2::p256_ecc::Point { x: [0; 4], y: [0; 4], z: [0; 4] }),
        ("all_ones_limbs", gm_sm2::p256_ecc::Point { x: [u64::MAX; 4], y: [u64::MAX; 4], z: [u64::MAX; 4] }),
    ] {
        for idlen in [0usize, 1, 16, 8191, 8192, 20000] {
            idx += 1;
            if !ctx.mine(idx) {
                continue;
            }
            let id = sm2x::ascii_id(&mut p, idlen);
            call(ctx, "sm2.compute_za", &format!("point={}:idlen={}", name, idlen), id.as_bytes(), || gm_sm2::util::compute_za(&id, &pt).is_ok());
        }
    }
    // boundary private keys: whatever the constructor accepts must sign and encrypt in bounded time
    let two256m1: BigUint = (BigUint::one() << 256) - 1u32;
    let mut bkeys: Vec<(String, BigUint)> = [("0", BigUint::zero()), ("1", BigUint::one()), ("2", BigUint::from(2u32)), ("n-2", &c.n - 2u32), ("n-1", &c.n - 1u32), ("n", c.n.clone()), ("n+1", &c.n + 1u32), ("p-1", &c.p - 1u32), ("p", c.p.clone()), ("2^256-1", two256m1)].into_iter().map(|(a, b)| (a.to_string(), b)).collect();
    // carry-chain keys: 2^k - 1 (runs of one bits / all-ones limbs), 2^k, n - 2^k
    for k in 2..=255usize {
        bkeys.push((format!("2^{}-1", k), (BigUint::one() << k) - 1u32));
        if k % 8 == 0 || k % 64 == 63 || k % 64 == 1 {
            bkeys.push((format!("2^{}", k), BigUint::one() << k));
            bkeys.push((format!("n-2^{}", k), &c.n - (BigUint::one() << k)));
        }
    }
    for (name, v) in bkeys {
        let name = name.as_str();
        if name.contains('^') && name != "2^256-1" {
            ctx.class("carry_chain_key");
        }
        idx += 1;
        if !ctx.mine(idx) {
            continue;
        }
        let vb = r2::b32(&v);
        ctx.eval();
        ctx.journal_call("sm2.Sm2PrivateKey::new", &format!("boundary d={}", name));
        let o = guard(|| Sm2PrivateKey::new(&vb));
        ctx.journal_ret(o.class());
        match o {
            Outcome::Ret(Ok(skb)) => {
                ctx.class("boundary_key_accepted");
                sm2x::rng_prepare(&[]);
                call(ctx, "sm2.sign(boundary key)", &format!("d={}", name), &vb, || skb.sign(None, b"boundary").is_ok());
                sm2x::rng_prepare(&[]);
                call(ctx, "sm2.encrypt(boundary key)", &format!("d={}", name), &vb, || skb.public_key.encrypt(b"boundary", false, model(Order::C1C3C2)).is_ok());
                // a key the constructor accepted must also produce signatures its own public key verifies
                if let Outcome::Ret(Ok(sg)) = guard(|| skb.sign(None, b"boundary")) {
                    call(ctx, "sm2.verify", &format!("boundary-key-signature d={}", name), &sg, || skb.public_key.verify(None, b"boundary", &sg).is_ok());
                }
            }
            Outcome::Ret(Err(_)) => {
                ctx.class("boundary_key_rejected");
                // required entries are still exercised with a regular key
                call(ctx, "sm2.sign(boundary key)", "regular-key", &vb, || sk.sign(None, b"x").is_ok());
                call(ctx, "sm2.encrypt(boundary key)", "regular-key", &vb, || lpk.encrypt(b"x", false, model(Order::C1C3C2)).is_ok());
            }
            o => ctx.violation(&format!("sm2.Sm2PrivateKey::new:d={}:{}", name, o.class()), json!({"d": name})),
        }
        // the same scalar through the OTHER private-key decoders (hex, PKCS#8 with and without an embedded public key, whose
        // point is [d mod n]G or, when that is infinity, G): whatever a decoder accepts must sign within the step limit
        if !name.contains('^') || name.ends_with("-1") && v.bits() % 64 == 0 {
            use pkcs8::DecodePrivateKey;
            let dm = &v % &c.n;
            let pubpt = r2::mul(&dm, &r2::g()).unwrap_or_else(|| r2::g().unwrap());
            let docs: Vec<(&str, Vec<u8>)> = vec![
                ("pkcs8_with_public_key", crate::refs::der::pkcs8_encode(&vb, Some(&r2::encode(&pubpt, false)))),
                ("pkcs8_without_public_key", crate::refs::der::pkcs8_encode(&vb, None)),
            ];
            let mut decoded: Vec<(String, Sm2PrivateKey)> = vec![];
            ctx.eval();
            if let Outcome::Ret(Ok(k)) = guard(|| Sm2PrivateKey::from_hex_string(&hex::encode(vb))) {
                decoded.push(("hex".into(), k));
            }
            for (dn, doc) in &docs {
                ctx.eval();
                match guard(|| Sm2PrivateKey::from_pkcs8_der(doc)) {
                    Outcome::Ret(Ok(k)) => decoded.push((dn.to_string(), k)),
                    Outcome::Ret(Err(_)) => {}
                    o => ctx.violation(&format!("sm2.from_pkcs8_der:boundary d={}:{}", name, o.class()), json!({"d": name, "doc": dn})),
                }
            }
            for (dn, k) in decoded {
                ctx.class("boundary_key_through_other_decoder");
                sm2x::rng_prepare(&[]);
                call(ctx, "sm2.sign(boundary key)", &format!("d={} via {}", name, dn), &vb, || k.sign(None, b"boundary").is_ok());
            }
        }
    }

    // signing / encrypting long messages with a regular key must terminate within the RNG step limit as well
    for len in [0usize, 1, 255, 256, 4096, 16384, 100_000] {
        idx += 1;
        if !ctx.mine(idx) {
            continue;
        }
        let m = p.bytes(len);
        sm2x::rng_prepare(&[]);
        call(ctx, "sm2.sign(boundary key)", &format!("regular-key:msg_len={}", len), &(len as u64).to_be_bytes(), || sk.sign(None, &m).is_ok());
        if len > 0 {
            for lay in LAYOUTS {
                sm2x::rng_prepare(&[]);
                call(ctx, "sm2.encrypt(boundary key)", &format!("regular-key:msg_len={}:{}", len, layout_name(lay.0, lay.1)), &(len as u64).to_be_bytes(), || lpk.encrypt(&m, lay.1, model(lay.0)).is_ok());
            }
            sm2x::rng_prepare(&[]);
            call(ctx, "sm2.encrypt(boundary key)", &format!("regular-key:asn1:msg_len={}", len), &(len as u64).to_be_bytes(), || lpk.encrypt_asn1(&m, false, model(Order::C1C3C2)).is_ok());
        }
    }
    // ------------------------------------------------------------------ SM4
    length_sweep(ctx, &mut p, &mut idx, "sm4.Sm4Cipher::new", &[15, 16], &|b| Sm4Cipher::new(b).is_ok());
    let key16: [u8; 16] = p.arr();
    let cipher = Sm4Cipher::new(&key16).expect("sm4 fixture");
    length_sweep(ctx, &mut p, &mut idx, "sm4.Sm4Cipher::encrypt", &[15, 16], &|b| cipher.encrypt(b).is_ok());
    length_sweep(ctx, &mut p, &mut idx, "sm4.Sm4Cipher::decrypt", &[15, 16], &|b| cipher.decrypt(b).is_ok());
    for (mi, mname) in ["cbc", "cfb", "ofb", "ctr"].iter().enumerate() {
        let mk = |k: &[u8]| Sm4CipherMode::new(k, [CipherMode::Cbc, CipherMode::Cfb, CipherMode::Ofb, CipherMode::Ctr][mi].clone_mode());
        length_sweep(ctx, &mut p, &mut idx, "sm4.Sm4CipherMode::new", &[15, 16], &|b| mk(b).is_ok());
        let m = mk(&key16).expect("sm4 mode fixture");
        let iv: [u8; 16] = p.arr();
        let dentry = format!("sm4.mode.decrypt:{}", mname);
        length_sweep(ctx, &mut p, &mut idx, &dentry, &[0, 15, 16, 17, 32], &|b| m.decrypt(b, &iv).is_ok());
        if mi == 0 || mi == 3 {
            length_sweep(ctx, &mut p, &mut idx, &format!("sm4.mode.encrypt:{}", mname), &[0, 15, 16], &|b| m.encrypt(b, &iv).is_ok());
        }
        // structured 16-byte IVs (counter wrap-around, all zero) with several data lengths
        for ivs in [[0xffu8; 16], [0u8; 16], {
            let mut v = [0xffu8; 16];
            v[0] = 0x7f;
            v
        }, {
            let mut v = [0xffu8; 16];
            v[15] = 0xfd;
            v
        }] {
            for dl in [0usize, 1, 15, 16, 17, 48, 100] {
                idx += 1;
                if !ctx.mine(idx) {
                    continue;
                }
                let data = p.bytes(dl);
                call(ctx, &dentry, &format!("iv_structured:data_len={}", dl), &ivs, || m.decrypt(&data, &ivs).is_ok());
                if mi == 0 || mi == 3 {
                    call(ctx, &format!("sm4.mode.encrypt:{}", mname), &format!("iv_structured:data_len={}", dl), &ivs, || m.encrypt(&data, &ivs).is_ok());
                }
            }
        }
        // IV of every length 0..=40 with data of several lengths
        for ivlen in 0..=40usize {
            for dl in [0usize, 1, 16, 33] {
                idx += 1;
                if !ctx.mine(idx) {
                    continue;
                }
                let ivb = p.bytes(ivlen);
                let data = p.bytes(dl);
                call(ctx, &dentry, &format!("iv_{}:data_len={}", len_class(ivlen, &[15, 16]), dl), &ivb, || m.decrypt(&data, &ivb).is_ok());
            }
        }
    }

    // ------------------------------------------------------------------ SM9
    let ke = sm9x::rand_scalar(&mut p, &(&r9::params().n - 1u32));
    let id = b"Bob".to_vec();
    let dkey = sm9x::enc_key_from_ref(&ke, &id, r9::HID_ENC).expect("sm9 fixture");
    let rr = sm9x::rand_scalar(&mut p, &(&r9::params().n - 1u32));
    let ct9 = r9::encrypt(&ke, &id, b"sm9 fixture message", &rr).unwrap();
    length_sweep(ctx, &mut p, &mut idx, "sm9.decrypt", &[64, 65, 96, 97, 98], &|b| dkey.decrypt(&id, b).is_ok());
    mutate_valid(ctx, &mut p, &mut idx, "sm9.decrypt", &ct9, if ctx.thorough { 1 } else { 3 }, &|b| dkey.decrypt(&id, b).is_ok());
    for tail in [256usize, 287, 288, 300, 1000, 70000] {
        // well-formed C1 with long bodies (the pinned code used a fixed 287-byte key stream)
        idx += 1;
        if !ctx.mine(idx) {
            continue;
        }
        let mut v = ct9[..97].to_vec();
        v.extend_from_slice(&p.bytes(tail));
        call(ctx, "sm9.decrypt", &format!("valid_c1_body_len={}", tail), &v, || dkey.decrypt(&id, &v).is_ok());
    }
    for idlen in [0usize, 1, 1000] {
        idx += 1;
        if ctx.mine(idx) {
            let idb = p.bytes(idlen);
            call(ctx, "sm9.decrypt", &format!("idlen={}", idlen), &ct9, || dkey.decrypt(&idb, &ct9).is_ok());
        }
    }
    // verify_sign with arbitrary h and S
    let ks = sm9x::rand_scalar(&mut p, &(&r9::params().n - 1u32));
    let mk9 = sm9x::sign_master(&ks);
    let (h, sgood) = r9::sign(&ks, b"Alice", b"sm9 fixture", &rr).unwrap();
    let n9 = &r9::params().n;
    let two256m1: BigUint = (BigUint::one() << 256) - 1u32;
    let hs: Vec<(&str, BigUint)> = vec![("valid", h.clone()), ("0", BigUint::zero()), ("1", BigUint::one()), ("N-2", n9 - 2u32), ("N-1", n9 - 1u32), ("N", n9.clone()), ("N+1", n9 + 1u32), ("2^256-1", two256m1)];
    let pp = &r9::params().p;
    let ss: Vec<(&str, gm_sm9::points::Point)> = vec![
        ("valid", sm9x::lib_g1_affine(&sgood)),
        ("offcurve", sm9x::lib_g1_affine(&(sgood.0.clone(), (&sgood.1 + 1u32) % pp))),
        ("zero_zero", sm9x::lib_g1_affine(&(BigUint::zero(), BigUint::zero()))),
        ("infinity", gm_sm9::points::Point::zero()),
        ("z_zero_xy_arbitrary", gm_sm9::points::Point { x: [1, 2, 3, 4], y: [5, 6, 7, 8], z: [0; 4] }),
        ("all_zero_limbs", gm_sm9::points::Point { x: [0; 4], y: [0; 4], z: [0; 4] }),
        ("all_ones_limbs", gm_sm9::points::Point { x: [u64::MAX; 4], y: [u64::MAX; 4], z: [u64::MAX; 4] }),
        ("random_limbs", gm_sm9::points::Point { x: p.limbs(), y: p.limbs(), z: p.limbs() }),
        ("order_2_like_y_zero", sm9x::lib_g1_affine(&(sgood.0.clone(), BigUint::zero()))),
    ];
    for (hn, hv) in &hs {
        for (sn, sv) in &ss {
            idx += 1;
            if !ctx.mine(idx) {
                continue;
            }
            let hl = sm9x::limbs(hv);
            call(ctx, "sm9.verify_sign", &format!("h={}:S={}", hn, sn), &r9::b32(hv), || mk9.verify_sign(b"Alice", b"sm9 fixture", &hl, sv).is_ok());
        }
    }
    for (nm, idv, mv) in [("empty_id_and_msg", vec![], vec![]), ("long", p.bytes(5000), p.bytes(100_000))] {
        idx += 1;
        if ctx.mine(idx) {
            let hl = sm9x::limbs(&h);
            let sv = sm9x::lib_g1_affine(&sgood);
            call(ctx, "sm9.verify_sign", nm, &[], || mk9.verify_sign(&idv, &mv, &hl, &sv).is_ok());
        }
    }
    // mod_n_from_hash: every length
    for len in 0..=200usize {
        for content in 0..3 {
            idx += 1;
            if !ctx.mine(idx) {
                continue;
            }
            let data = match content {
                0 => vec![0u8; len],
                1 => vec![0xffu8; len],
                _ => p.bytes(len),
            };
            let cls = if len < 40 { "len<40" } else if len == 40 { "len=40" } else { "len>40" };
            call(ctx, "sm9.mod_n_from_hash", cls, &data, || {
                let _ = gm_sm9::fields::mod_n_from_hash(&data);
                true
            });
        }
    }
    ctx.exhaustive("every input length 0..=200 x {00.., ff.., random} per byte-consuming entry point", true);
    ctx.sample(json!({"entry": "sm2.decrypt:c1c3c2_uncompressed", "inputs": "every length 0..=200 x 3 contents; every truncation and 3 corruptions of every byte of a valid ciphertext; valid C1 + tails 0..=40"}));
    ctx.sample(json!({"entry": "sm2.from_pkcs8_der", "inputs": "every truncation / byte corruption of reference-made and OpenSSL-made documents; crafted documents with d of 0/31/33 bytes, d = 0, n, ff.., off-curve / short / empty public key"}));
    ctx.sample(json!({"entry": "sm2.sign(boundary key)", "inputs": "d in {0,1,2,n-2,n-1,n,n+1,p-1,p,2^256-1}: if the constructor accepts d, sign and encrypt must return within 64 RNG draws"}));
    ctx.note("entry points without an error channel that take fixed-size arrays by slice (ZUC::new, EEA/EIA) are not in the property's list and are not exercised");
}

trait CloneMode {
    fn clone_mode(&self) -> CipherMode;
}
impl CloneMode for CipherMode {
    fn clone_mode(&self) -> CipherMode {
        match self {
            CipherMode::Cbc => CipherMode::Cbc,
            CipherMode::Cfb => CipherMode::Cfb,
            CipherMode::Ofb => CipherMode::Ofb,
            CipherMode::Ctr => CipherMode::Ctr,
        }
    }
}
