//! C07 — SM4 CBC/CFB/OFB/CTR match the standard modes, round-trip, and report malformed input.
use crate::corpus;
use crate::mon::{guard, hx, Ctx, Outcome, Prng};
use crate::refs::sm4::{self as rsm4, mode_name, Mode, MODES};
use gm_sm4::{CipherMode, Sm4CipherMode};
use serde_json::json;

fn lib_mode(m: Mode) -> CipherMode {
    match m {
        Mode::Cbc => CipherMode::Cbc,
        Mode::Cfb => CipherMode::Cfb,
        Mode::Ofb => CipherMode::Ofb,
        Mode::Ctr => CipherMode::Ctr,
    }
}

fn mk(ctx: &mut Ctx, m: Mode, key: &[u8; 16]) -> Option<Sm4CipherMode> {
    match guard(|| Sm4CipherMode::new(key, lib_mode(m))) {
        Outcome::Ret(Ok(c)) => Some(c),
        o => {
            ctx.violation("Sm4CipherMode::new:16-byte-key:not-ok", json!({"key": hex::encode(key), "outcome": o.class()}));
            None
        }
    }
}

/// encrypt + decrypt of one case, compared with the reference
fn case(ctx: &mut Ctx, m: Mode, key: &[u8; 16], iv: &[u8; 16], data: &[u8], cls: &str) {
    let Some(c) = mk(ctx, m, key) else { return };
    let mn = mode_name(m);
    ctx.class(cls);
    ctx.class(&format!("{}_len_mod16={}", mn, data.len() % 16));
    ctx.distinct(mn, &[key, iv, data]);
    let expect = rsm4::mode_encrypt(m, key, iv, data);
    ctx.eval();
    let w = json!({"mode": mn, "key": hex::encode(key), "iv": hex::encode(iv), "data": hx(data), "len": data.len()});
    let ct = match guard(|| c.encrypt(data, iv)) {
        Outcome::Ret(Ok(v)) => {
            let want_len = if m == Mode::Cbc { (data.len() / 16 + 1) * 16 } else { data.len() };
            if v.len() != want_len {
                ctx.violation(&format!("{}.encrypt:{}:output-length", mn, cls), json!({"case": w, "got_len": v.len(), "want_len": want_len}));
            }
            if v != expect {
                ctx.violation(&format!("{}.encrypt:{}:ciphertext-mismatch", mn, cls), json!({"case": w, "expected": hx(&expect), "actual": hx(&v)}));
            }
            Some(v)
        }
        o => {
            ctx.violation(&format!("{}.encrypt:{}:{}", mn, cls, oc(&o)), json!({"case": w, "outcome": format!("{:?}", o.class())}));
            None
        }
    };
    // decrypt the reference ciphertext (so a wrong encryptor cannot mask a wrong decryptor)
    ctx.eval();
    match guard(|| c.decrypt(&expect, iv)) {
        Outcome::Ret(Ok(v)) => {
            if v != data {
                ctx.violation(&format!("{}.decrypt:{}:plaintext-mismatch", mn, cls), json!({"case": w, "ct": hx(&expect), "actual": hx(&v)}));
            }
        }
        o => ctx.violation(&format!("{}.decrypt:{}:{}", mn, cls, oc(&o)), json!({"case": w, "ct": hx(&expect)})),
    }
    // library-only round trip
    if let Some(ct) = ct {
        if ct != expect {
            ctx.eval();
            if let Outcome::Ret(Ok(v)) = guard(|| c.decrypt(&ct, iv)) {
                if v != data {
                    ctx.violation(&format!("{}:{}:roundtrip", mn, cls), json!({"case": w}));
                }
            }
        }
    }
}

fn oc<T, E>(o: &Outcome<Result<T, E>>) -> &'static str {
    match o {
        Outcome::Ret(Ok(_)) => "ok",
        Outcome::Ret(Err(_)) => "err",
        Outcome::Panic(_) => "panic",
        Outcome::StepLimit(_) => "steplimit",
    }
}

/// a call that must report an error
fn must_err(ctx: &mut Ctx, sig: &str, cls: &str, w: serde_json::Value, f: impl FnOnce() -> Result<Vec<u8>, gm_sm4::Sm4Error>) {
    ctx.eval();
    ctx.class(cls);
    let o = guard(f);
    match &o {
        Outcome::Ret(Err(_)) => {}
        _ => ctx.violation(&format!("{}:{}", sig, oc(&o)), json!({"case": w, "outcome": match &o { Outcome::Panic(p) => p.clone(), Outcome::Ret(Ok(v)) => format!("Ok({})", hx(v)), _ => oc(&o).to_string()}})),
    }
}

pub fn run(ctx: &mut Ctx) {
    for (n, ok) in rsm4::selftest() {
        ctx.selftest(&n, ok);
    }
    ctx.require(&["openssl_modes", "len_sweep", "ctr_carry", "ctr_wrap", "random_long", "bad_iv_len", "bad_iv_data_len=0", "cbc_bad_len", "cbc_empty", "cbc_bad_pad_byte", "cbc_lenient_pad", "beyond_2^8_blocks", "beyond_2^16_blocks", "mode_object_history"]);
    for m in MODES {
        for r in 0..16 {
            let s = format!("{}_len_mod16={}", mode_name(m), r);
            ctx.required.push(s);
        }
    }

    // --- OpenSSL corpus
    let c = corpus::load("sm4_openssl.json");
    let mut ref_ok = true;
    for (i, v) in c["modes"].as_array().unwrap().iter().enumerate() {
        let m = match v["mode"].as_str().unwrap() {
            "cbc" => Mode::Cbc,
            "cfb" => Mode::Cfb,
            "ofb" => Mode::Ofb,
            _ => Mode::Ctr,
        };
        let key = corpus::arr16(v, "key");
        let iv = corpus::arr16(v, "iv");
        let pt = corpus::hexf(v, "pt");
        let ct = corpus::hexf(v, "ct");
        if rsm4::mode_encrypt(m, &key, &iv, &pt) != ct || rsm4::mode_decrypt(m, &key, &iv, &ct).as_deref() != Some(&pt[..]) {
            ref_ok = false;
        }
        if ctx.mine(i as u64) {
            case(ctx, m, &key, &iv, &pt, "openssl_modes");
        }
    }
    ctx.selftest("reference modes == OpenSSL on 248 vectors (cbc/cfb/ofb/ctr)", ref_ok);

    // --- every data length 0..=200 per mode
    let mut prng = ctx.prng("sweep");
    let reps = ctx.n(1, 8);
    let mut idx = 0u64;
    for rep in 0..reps {
        for m in MODES {
            for len in 0..=200usize {
                let key: [u8; 16] = prng.arr();
                let iv: [u8; 16] = prng.arr();
                let data = prng.bytes(len);
                idx += 1;
                if !ctx.mine(idx) {
                    continue;
                }
                case(ctx, m, &key, &iv, &data, "len_sweep");
                if rep == 0 && len == 37 {
                    ctx.sample(json!({"mode": mode_name(m), "key": hex::encode(key), "iv": hex::encode(iv), "len": len, "ct": hx(&rsm4::mode_encrypt(m, &key, &iv, &data))}));
                }
            }
        }
    }
    ctx.exhaustive("data lengths 0..=200 in each of 4 modes", true);

    // --- counter carries: IV = random prefix || k bytes of FF (k = 1..16), >= 3 blocks of data
    let mut prng = ctx.prng("carry");
    let reps = ctx.n(2, 40);
    idx = 0;
    for _ in 0..reps {
        for k in 1..=16usize {
            for m in MODES {
                let key: [u8; 16] = prng.arr();
                let mut iv: [u8; 16] = prng.arr();
                for b in iv[16 - k..].iter_mut() {
                    *b = 0xff;
                }
                if k < 16 {
                    iv[15 - k] &= 0xfe; // carry stops exactly after k bytes
                }
                // start a little before the wrap so that the carry happens mid-stream
                let back = prng.below(3) as u8;
                iv[15] = iv[15].wrapping_sub(back);
                let len = prng.range(48, 130);
                let data = prng.bytes(len);
                idx += 1;
                if !ctx.mine(idx) {
                    continue;
                }
                let cls = if k == 16 { "ctr_wrap" } else { "ctr_carry" };
                case(ctx, m, &key, &iv, &data, cls);
                ctx.class(&format!("carry_bytes={:02}", k));
            }
        }
    }

    // --- random longer data
    let n = ctx.n(300, 6000);
    let mut prng = ctx.prng("long");
    for i in 0..n {
        let key: [u8; 16] = prng.arr();
        let iv: [u8; 16] = prng.arr();
        let len = if i % 10 == 0 { prng.range(0, 65536) } else { prng.range(0, 3000) };
        let m = MODES[(i % 4) as usize];
        let sub = prng.next();
        if !ctx.mine(i) {
            continue;
        }
        let data = Prng::new(sub, "d").bytes(len);
        case(ctx, m, &key, &iv, &data, "random_long");
    }

    // --- data beyond 2^8, 2^12 and 2^16 blocks (counter bytes, block-index casts), every mode, lengths on and off the
    // block boundary; for CTR also with an IV whose low counter bytes are about to wrap inside the message
    {
        let mut pl = ctx.prng("blocks");
        let lens = [256usize * 16, 256 * 16 + 1, 4096 * 16 + 15, 65536 * 16, 65536 * 16 + 17];
        let mut bi = 0u64;
        for m in MODES {
            for (li, len) in lens.iter().enumerate() {
                bi += 1;
                let key: [u8; 16] = pl.arr();
                let mut iv: [u8; 16] = pl.arr();
                let sub = pl.next();
                if !ctx.mine(bi) || (!ctx.thorough && li >= 3 && bi % 2 == 0) {
                    continue;
                }
                if li % 2 == 1 {
                    // the last two counter bytes wrap after a few hundred blocks
                    iv[14] = 0xff;
                    iv[15] = 0x00;
                }
                let data = Prng::new(sub, "d").bytes(*len);
                ctx.class("beyond_2^8_blocks");
                if *len >= 65536 * 16 {
                    ctx.class("beyond_2^16_blocks");
                }
                case(ctx, m, &key, &iv, &data, "many_blocks");
            }
        }
    }

    // --- histories on ONE mode object: messages of different lengths and IVs, encryptions and decryptions interleaved,
    // a failing call in between; every result must equal the reference's for that call alone. Also aliasing: data equal
    // to the key, to the IV, IV equal to the key.
    {
        let nh = ctx.n(24, 600);
        let mut ph = ctx.prng("history");
        for i in 0..nh {
            let sub = ph.next();
            if !ctx.mine(i) {
                continue;
            }
            let mut q = Prng::new(sub, "h");
            let m = MODES[(i % 4) as usize];
            let mn = mode_name(m);
            let key: [u8; 16] = q.arr();
            let Some(c) = mk(ctx, m, &key) else { continue };
            let steps = 3 + q.below(10);
            for step in 0..steps {
                let iv: [u8; 16] = match q.below(6) {
                    0 => key,
                    1 => [0u8; 16],
                    _ => q.arr(),
                };
                let len = match q.below(6) {
                    0 => 0usize,
                    1 => 16,
                    2 => 15 + 16 * q.below(4) as usize,
                    _ => q.below(100) as usize,
                };
                let data = match q.below(5) {
                    0 if len == 16 => key.to_vec(),
                    1 if len == 16 => iv.to_vec(),
                    _ => q.bytes(len),
                };
                let w = json!({"mode": mn, "key": hex::encode(key), "iv": hex::encode(iv), "data": hx(&data), "step": step, "history": "one mode object, several calls"});
                ctx.eval();
                ctx.class("mode_object_history");
                match q.below(5) {
                    0 => {
                        // a failing call must not disturb the following ones
                        let _ = guard(|| c.encrypt(&data, &iv[..7]));
                    }
                    1 | 2 => {
                        let expect = rsm4::mode_encrypt(m, &key, &iv, &data);
                        match guard(|| c.encrypt(&data, &iv)) {
                            Outcome::Ret(Ok(v)) if v == expect => {}
                            o => ctx.violation(&format!("{}.encrypt:history:{}", mn, if let Outcome::Ret(Ok(_)) = &o { "ciphertext-mismatch" } else { oc(&o) }), w),
                        }
                    }
                    _ => {
                        let ct = rsm4::mode_encrypt(m, &key, &iv, &data);
                        match guard(|| c.decrypt(&ct, &iv)) {
                            Outcome::Ret(Ok(v)) if v == data => {}
                            o => ctx.violation(&format!("{}.decrypt:history:{}", mn, if let Outcome::Ret(Ok(_)) = &o { "plaintext-mismatch" } else { oc(&o) }), w),
                        }
                    }
                }
            }
        }
    }

    // --- error cases
    let mut prng = ctx.prng("errors");
    idx = 0;
    // IV lengths 0..=32 except 16, all 8 mode/direction pairs
    for m in MODES {
        for ivlen in 0..=32usize {
            if ivlen == 16 {
                continue;
            }
            let key: [u8; 16] = prng.arr();
            let iv = prng.bytes(ivlen);
            idx += 1;
            let datas: Vec<Vec<u8>> = [0usize, 1, 16, 32, 33].iter().map(|&l| prng.bytes(l)).collect();
            if !ctx.mine(idx) {
                continue;
            }
            let Some(c) = mk(ctx, m, &key) else { continue };
            for data in &datas {
                let w = json!({"mode": mode_name(m), "key": hex::encode(key), "iv": hex::encode(&iv), "data": hex::encode(data)});
                ctx.distinct("badiv", &[&[m as u8], &iv, data]);
                ctx.class(&format!("bad_iv_data_len={}", data.len()));
                must_err(ctx, &format!("{}.encrypt:iv-len!=16", mode_name(m)), "bad_iv_len", w.clone(), || c.encrypt(data, &iv));
                must_err(ctx, &format!("{}.decrypt:iv-len!=16", mode_name(m)), "bad_iv_len", w, || c.decrypt(data, &iv));
            }
        }
    }
    // CBC decrypt: lengths that are not a positive multiple of 16
    for len in (0..=100usize).filter(|l| l % 16 != 0 || *l == 0) {
        let key: [u8; 16] = prng.arr();
        let iv: [u8; 16] = prng.arr();
        let data = prng.bytes(len);
        idx += 1;
        if !ctx.mine(idx) {
            continue;
        }
        let Some(c) = mk(ctx, Mode::Cbc, &key) else { continue };
        let w = json!({"mode": "cbc", "key": hex::encode(key), "iv": hex::encode(iv), "data": hex::encode(&data), "len": len});
        ctx.distinct("cbclen", &[&data]);
        let cls = if len == 0 { "cbc_empty" } else { "cbc_bad_len" };
        let sig = if len == 0 { "cbc.decrypt:len=0".to_string() } else { "cbc.decrypt:len%16!=0".to_string() };
        must_err(ctx, &sig, cls, w, || c.decrypt(&data, &iv));
    }
    // CBC decrypt of reference-built ciphertexts with every possible final plaintext byte
    let reps = ctx.n(2, 30);
    for rep in 0..reps {
        for last in 0..=255u8 {
            let key: [u8; 16] = prng.arr();
            let iv: [u8; 16] = prng.arr();
            let nblocks = prng.range(1, 4);
            let mut pt = prng.bytes(nblocks * 16);
            let l = pt.len();
            pt[l - 1] = last;
            // when `last` is a legal pad length, also make the other pad bytes arbitrary (the property
            // constrains only the final byte) on odd repetitions, canonical on even ones
            if (1..=16).contains(&last) && rep % 2 == 0 {
                for k in 0..last as usize {
                    pt[l - 1 - k] = last;
                }
            }
            idx += 1;
            if !ctx.mine(idx) {
                continue;
            }
            // raw CBC encryption of exactly these blocks (no extra padding block)
            let r = rsm4::Sm4::new(&key);
            let mut ct = vec![];
            let mut prev = iv;
            for ch in pt.chunks(16) {
                let mut x = [0u8; 16];
                for k in 0..16 {
                    x[k] = ch[k] ^ prev[k];
                }
                prev = r.enc(&x);
                ct.extend_from_slice(&prev);
            }
            let Some(c) = mk(ctx, Mode::Cbc, &key) else { continue };
            let w = json!({"mode": "cbc", "key": hex::encode(key), "iv": hex::encode(iv), "ct": hex::encode(&ct), "final_plain_byte": last});
            ctx.distinct("cbcpad", &[&key, &ct]);
            let expect = rsm4::mode_decrypt(Mode::Cbc, &key, &iv, &ct);
            match expect {
                None => must_err(ctx, "cbc.decrypt:final-byte-not-1..16", "cbc_bad_pad_byte", w, || c.decrypt(&ct, &iv)),
                Some(e) => {
                    ctx.eval();
                    ctx.class("cbc_lenient_pad");
                    let canonical = pt[l - last as usize..].iter().all(|&b| b == last);
                    match guard(|| c.decrypt(&ct, &iv)) {
                        Outcome::Ret(Ok(v)) if v == e => {}
                        // a decryptor that also validates the other padding bytes is within the property
                        Outcome::Ret(Err(_)) if !canonical => ctx.class("cbc_strict_pad_rejected"),
                        o => ctx.violation(&format!("cbc.decrypt:final-byte-1..16:{}", oc(&o)), json!({"case": w, "expected": hex::encode(&e)})),
                    }
                }
            }
        }
    }
    ctx.exhaustive("final plaintext byte 0..=255 for CBC unpadding", true);
}
