//! C09 — SM9 signatures verify, conform to GM/T 0044.2, and forgeries are rejected.
use crate::mon::{guard, hx, Ctx, Outcome, Prng};
use crate::refs::sm9 as r9;
use crate::sm9x::*;
use gm_sm9::points::Point;
use num_bigint::BigUint;
use num_traits::{One, Zero};
use serde_json::json;

fn oc<T, E>(o: &Outcome<Result<T, E>>) -> &'static str {
    match o {
        Outcome::Ret(Ok(_)) => "accepted",
        Outcome::Ret(Err(_)) => "err",
        Outcome::Panic(_) => "panic",
        Outcome::StepLimit(_) => "steplimit",
    }
}

fn wit(ks: &BigUint, id: &[u8], msg: &[u8], r: Option<&BigUint>) -> serde_json::Value {
    json!({"ks": hex::encode(r9::b32(ks)), "id": hx(id), "msg": hx(msg), "r": r.map(|r| hex::encode(r9::b32(r)))})
}

/// library extraction + signing for (ks, id, msg); r injected or free
fn sign_case(ctx: &mut Ctx, ks: &BigUint, id: &[u8], msg: &[u8], r: Option<&BigUint>, cls: &str) {
    let pr = r9::params();
    let mk = sign_master(ks);
    ctx.eval();
    let key = match guard(|| mk.extract_key(id)) {
        Outcome::Ret(Some(k)) => k,
        o => {
            if r9::extract_sign_key(ks, id).is_some() {
                ctx.violation(&format!("extract_key(sign):{}:{}", cls, o.class()), wit(ks, id, msg, r));
            }
            return;
        }
    };
    ctx.eval();
    ctx.class(cls);
    match r {
        Some(r) => rng_prepare(&[r]),
        None => rng_prepare(&[]),
    }
    let o = guard(|| key.sign(msg));
    let seen = rng_seen();
    let (h, s) = match o {
        Outcome::Ret(Ok(v)) => v,
        o => {
            ctx.violation(&format!("sign:{}:{}", cls, oc(&o)), json!({"case": wit(ks, id, msg, r), "outcome": format!("{:?}", o.class())}));
            return;
        }
    };
    let hb = r9::from_limbs(&h);
    let sa = r9::ref_g1(&s);
    ctx.distinct("sign", &[&r9::b32(&hb), &r9::b32(ks), id, msg]);
    let used = seen.accepted.last().cloned();
    let Some(used) = used else {
        ctx.violation(&format!("sign:{}:no-scalar-drawn", cls), wit(ks, id, msg, r));
        return;
    };
    if let Some(r) = r {
        if &used != r || seen.pending != 0 {
            // a stricter generator (e.g. one refusing a zero lowest limb) may reject the injected value; the
            // operation then ran on a fresh draw, compared below like a free one
            ctx.class("injected_r_rejected_by_generator");
            if seen.candidates.first() != Some(r) {
                ctx.violation(&format!("sign:{}:injected-candidate-never-reached-the-generator", cls), wit(ks, id, msg, Some(r)));
                return;
            }
        } else {
            ctx.class("fixed_r_exact");
        }
    } else {
        ctx.class("free_r");
    }
    // exact comparison with the reference for the scalar that was used
    match r9::sign(ks, id, msg, &used) {
        Some((eh, es)) => {
            if eh != hb || sa != Some(es.clone()) {
                ctx.violation(
                    &format!("sign:{}:signature-differs-from-standard:{}", cls, if eh != hb { "h" } else { "S" }),
                    json!({"case": wit(ks, id, msg, Some(&used)), "expected_h": hex::encode(r9::b32(&eh)), "actual_h": hex::encode(r9::b32(&hb)), "expected_S": g1_hex(&es), "actual_S": sa.as_ref().map(g1_hex)}),
                );
                return;
            }
        }
        None => {
            ctx.class("ref_retry_condition");
            return;
        }
    }
    if hb.is_zero() || hb >= pr.n {
        ctx.violation(&format!("sign:{}:h-out-of-range", cls), wit(ks, id, msg, Some(&used)));
    }
    // library verifier accepts its own signature
    ctx.eval();
    match guard(|| mk.verify_sign(id, msg, &h, &s)) {
        Outcome::Ret(Ok(())) => {}
        o => ctx.violation(&format!("verify_sign:{}:valid-signature-rejected:{}", cls, oc(&o)), json!({"case": wit(ks, id, msg, Some(&used)), "h": hex::encode(r9::b32(&hb))})),
    }
}

struct Sample {
    ks: BigUint,
    id: Vec<u8>,
    msg: Vec<u8>,
    h: BigUint,
    s: (BigUint, BigUint),
}

fn probe(ctx: &mut Ctx, smp: &Sample, ks: &BigUint, id: &[u8], msg: &[u8], h: &BigUint, s: &Point, s_aff: Option<&(BigUint, BigUint)>, cls: &str) {
    ctx.eval();
    ctx.class(cls);
    let mk = sign_master(ks);
    let hl = limbs(h);
    ctx.distinct(cls, &[&r9::b32(h), &crate::mon::limbs_to_be(&s.x), &crate::mon::limbs_to_be(&s.y), id, msg, &r9::b32(ks)]);
    let o = guard(|| mk.verify_sign(id, msg, &hl, s));
    let w = || json!({"class": cls, "original": wit(&smp.ks, &smp.id, &smp.msg, None), "ks": hex::encode(r9::b32(ks)), "id": hx(id), "msg": hx(msg), "h": hex::encode(r9::b32(h)), "S": s_aff.map(g1_hex).unwrap_or_else(|| "non-affine/invalid".into())});
    match &o {
        Outcome::Ret(Err(_)) => {}
        Outcome::Ret(Ok(())) => {
            let ppubs = r9::g2_mul(ks, &r9::g2_gen()).unwrap();
            let ok = match s_aff {
                Some(sa) => r9::verify(&ppubs, id, msg, h, sa),
                None => false,
            };
            if !ok {
                ctx.violation(&format!("verify_sign:{}:accepted", cls), w());
            } else {
                ctx.class("accepted_and_reference_agrees");
            }
        }
        Outcome::Panic(m) => ctx.violation(&format!("verify_sign:{}:panic", cls), json!({"case": w(), "panic": m})),
        Outcome::StepLimit(_) => ctx.violation(&format!("verify_sign:{}:steplimit", cls), w()),
    }
}

fn forgeries(ctx: &mut Ctx, smp: &Sample, p: &mut Prng, base_idx: &mut u64) {
    let pr = r9::params();
    let s_lib = lib_g1_affine(&smp.s);
    let mut mine = |ctx: &Ctx| {
        *base_idx += 1;
        ctx.mine(*base_idx)
    };
    // sanity: the reference-made signature is accepted (two-sided)
    if mine(ctx) {
        ctx.eval();
        ctx.class("ref_made_accepted");
        let mk = sign_master(&smp.ks);
        let hl = limbs(&smp.h);
        match guard(|| mk.verify_sign(&smp.id, &smp.msg, &hl, &s_lib)) {
            Outcome::Ret(Ok(())) => {}
            o => ctx.violation(&format!("verify_sign:reference-made-signature:{}", oc(&o)), json!({"case": wit(&smp.ks, &smp.id, &smp.msg, None), "h": hex::encode(r9::b32(&smp.h)), "S": g1_hex(&smp.s)})),
        }
    }
    // bit flips of h
    for bit in 0..256u64 {
        if !mine(ctx) {
            continue;
        }
        let mut hb = r9::b32(&smp.h);
        hb[(bit / 8) as usize] ^= 0x80 >> (bit % 8);
        let h2 = r9::from_b(&hb);
        let cls = if h2 >= pr.n { "bitflip_h_ge_N" } else { "bitflip_h" };
        probe(ctx, smp, &smp.ks, &smp.id, &smp.msg, &h2, &s_lib, Some(&smp.s), cls);
    }
    // bit flips of S's affine coordinates (reduced mod p)
    for bit in 0..512u64 {
        if !mine(ctx) {
            continue;
        }
        let mut sb = r9::pt_bytes(&smp.s);
        sb[(bit / 8) as usize] ^= 0x80 >> (bit % 8);
        let s2 = (r9::from_b(&sb[..32]) % &pr.p, r9::from_b(&sb[32..]) % &pr.p);
        probe(ctx, smp, &smp.ks, &smp.id, &smp.msg, &smp.h, &lib_g1_affine(&s2), Some(&s2), "bitflip_S");
    }
    // h boundary values
    let two256m1: BigUint = (BigUint::one() << 256) - 1u32;
    for (name, hv) in [("h=0", BigUint::zero()), ("h=1", BigUint::one()), ("h=N-2", &pr.n - 2u32), ("h=N-1", &pr.n - 1u32), ("h=N", pr.n.clone()), ("h=N+1", &pr.n + 1u32), ("h=2^256-1", two256m1)] {
        if !mine(ctx) {
            continue;
        }
        probe(ctx, smp, &smp.ks, &smp.id, &smp.msg, &hv, &s_lib, Some(&smp.s), name);
    }
    // alias of the valid h modulo N (fits in 256 bits for ~40% of signatures: N ~ 0.71 * 2^256)
    if mine(ctx) {
        let two256: BigUint = BigUint::one() << 256;
        if &smp.h + &pr.n < two256 {
            probe(ctx, smp, &smp.ks, &smp.id, &smp.msg, &(&smp.h + &pr.n), &s_lib, Some(&smp.s), "h+N_alias");
        } else {
            ctx.class("h+N_does_not_fit");
        }
    }
    // S replaced
    let others: Vec<(&str, Option<(BigUint, BigUint)>)> = vec![
        ("S=-S", r9::g1_neg(&Some(smp.s.clone()))),
        ("S=2S", r9::g1_add(&Some(smp.s.clone()), &Some(smp.s.clone()))),
        ("S=P1", r9::g1_gen()),
        ("S=random_multiple", r9::g1_mul(&rand_scalar(p, &pr.n), &r9::g1_gen())),
        ("S=offcurve_y_plus_1", Some((smp.s.0.clone(), (&smp.s.1 + 1u32) % &pr.p))),
        ("S=offcurve_random", Some((rand_scalar(p, &pr.p), rand_scalar(p, &pr.p)))),
        ("S=(0,0)", Some((BigUint::zero(), BigUint::zero()))),
    ];
    for (name, sv) in others {
        if !mine(ctx) {
            continue;
        }
        if let Some(sv) = sv {
            probe(ctx, smp, &smp.ks, &smp.id, &smp.msg, &smp.h, &lib_g1_affine(&sv), Some(&sv), name);
        }
    }
    // S = point at infinity in Jacobian form
    if mine(ctx) {
        probe(ctx, smp, &smp.ks, &smp.id, &smp.msg, &smp.h, &Point::zero(), None, "S=infinity");
    }
    // the same valid S in another Jacobian representation must still be accepted
    if mine(ctx) {
        ctx.eval();
        ctx.class("S_rerandomised_Z");
        let s2 = r9::lib_g1(&smp.s, &rand_scalar(p, &pr.p));
        let mk = sign_master(&smp.ks);
        let hl = limbs(&smp.h);
        match guard(|| mk.verify_sign(&smp.id, &smp.msg, &hl, &s2)) {
            Outcome::Ret(Ok(())) => {}
            o => ctx.violation(&format!("verify_sign:valid-S-with-Z!=1:{}", oc(&o)), json!({"case": wit(&smp.ks, &smp.id, &smp.msg, None)})),
        }
    }
    // other message / identity / master key
    if mine(ctx) {
        let mut m = smp.msg.clone();
        m.push(1);
        probe(ctx, smp, &smp.ks, &smp.id, &m, &smp.h, &s_lib, Some(&smp.s), "msg_changed");
    }
    if mine(ctx) && !smp.msg.is_empty() {
        let mut m = smp.msg.clone();
        let k = p.below(m.len() as u64 * 8) as usize;
        m[k / 8] ^= 1 << (k % 8);
        probe(ctx, smp, &smp.ks, &smp.id, &m, &smp.h, &s_lib, Some(&smp.s), "msg_changed");
    }
    if mine(ctx) {
        let mut i2 = smp.id.clone();
        i2.push(b'x');
        probe(ctx, smp, &smp.ks, &i2, &smp.msg, &smp.h, &s_lib, Some(&smp.s), "id_changed");
    }
    if smp.id.len() > 8192 {
        // identities that agree on their first 8191 / 8192 bytes are different identities
        for (k, cut) in [8191usize, 8192, smp.id.len() - 1].iter().enumerate() {
            if mine(ctx) {
                let i2 = smp.id[..*cut].to_vec();
                probe(ctx, smp, &smp.ks, &i2, &smp.msg, &smp.h, &s_lib, Some(&smp.s), "id_changed_beyond_8191_bytes");
                let mut i3 = smp.id.clone();
                let last = i3.len() - 1 - k;
                i3[last] ^= 0x20;
                probe(ctx, smp, &smp.ks, &i3, &smp.msg, &smp.h, &s_lib, Some(&smp.s), "id_changed_beyond_8191_bytes");
            }
        }
    }
    if mine(ctx) {
        let ks2 = rand_scalar(p, &(&pr.n - 1u32));
        probe(ctx, smp, &ks2, &smp.id, &smp.msg, &smp.h, &s_lib, Some(&smp.s), "master_key_changed");
    }
}

pub fn run(ctx: &mut Ctx) {
    for (n, ok) in r9::selftest(false) {
        ctx.selftest(&n, ok);
    }
    ctx.require(&["annex_kat", "fixed_r_exact", "free_r", "ref_made_accepted", "bitflip_h", "bitflip_h_ge_N", "bitflip_S", "h=0", "h=N-1", "h=N", "h=2^256-1", "h+N_alias", "S=-S", "S=offcurve_y_plus_1", "S=(0,0)", "S=infinity", "S_rerandomised_Z", "msg_changed", "id_changed", "master_key_changed", "msg_empty", "id_empty", "ks=H1(id)_doubling_in_verify", "verifier_has_public_key_only", "interleaved_master_keys_same_id", "id_beyond_2^16_bits", "msg_beyond_2^16_bits", "id_changed_beyond_8191_bytes", "many_calls_one_process", "interleaved_opposite_master_keys", "id_msg_length_sweep", "key_extraction_reads_one_table_entry", "id_with_nul_bytes"]);
    let pr = r9::params();
    // --- Annex example
    if ctx.shard == 0 {
        let ks = r9::hexn("000130E78459D78545CB54C587E02CF480CE0B66340F319F348A1D5B1F2DC5F4");
        let r = r9::hexn("00033C8616B06704813203DFD00965022ED15975C662337AED648835DC4B1CBE");
        sign_case(ctx, &ks, b"Alice", b"Chinese IBS standard", Some(&r), "annex_kat");
        ctx.sample(json!({"annex": {"ks": "000130E7..C5F4", "id": "Alice", "msg": "Chinese IBS standard", "r": "00033C86..1CBE", "h": "823C4B21..5ADB"}}));
    }
    // --- positive cases
    let n = ctx.n(64, 3000);
    let mut prng = ctx.prng("positive");
    for i in 0..n {
        let sub = prng.next();
        if !ctx.mine(i) {
            continue;
        }
        let mut p = Prng::new(sub, "c");
        let ks = scalar_for(&mut p, i % 28);
        // identities / messages beyond the 2^16-bit and 2^16-byte thresholds (length fields, counters, truncating casts)
        const LONG: [usize; 8] = [8185, 8186, 8191, 8192, 8193, 20000, 65536, 70001];
        // and, for messages only, the next length-field byte of the hash (2 MiB = 2^24 bits) and 16 MiB
        const VERY_LONG: [usize; 3] = [(1 << 21) - 400, 1 << 21, (1 << 24) + 1];
        let idlen = if i % 9 == 0 { 0 } else if i % 16 == 5 { LONG[((i / 16) % 8) as usize] } else { p.range(1, 64) };
        let id = p.bytes(idlen);
        let mlen = if i % 7 == 0 { 0 } else if i % 32 == 29 { VERY_LONG[((i / 32) % 3) as usize] } else if i % 16 == 13 { LONG[((i / 16 + 3) % 8) as usize] } else if i % 5 == 0 { p.range(200, 1024) } else { p.range(1, 100) };
        let msg = p.bytes(mlen);
        if idlen >= 8185 {
            ctx.class("id_beyond_2^16_bits");
        }
        if mlen >= 8185 {
            ctx.class("msg_beyond_2^16_bits");
        }
        if idlen == 0 {
            ctx.class("id_empty");
        }
        if mlen == 0 {
            ctx.class("msg_empty");
        }
        let r = if i % 6 == 0 { &pr.n - 2u32 - BigUint::from(i % 4) } else if i % 10 == 4 { BigUint::from(1 + i % 3) } else if i % 10 == 7 { sparse_scalar(&mut p, 1 + (i / 10) % 14) } else if i % 10 == 9 { crate::sm2x::run_scalar(&mut p, &(&pr.n - 1u32)) } else { rand_scalar(&mut p, &(&pr.n - 1u32)) };
        // crafted master key ks = H1(ID||01): the verifier's [h1]P2 + Ppub-s is then a doubling
        let ks = if i % 8 == 3 {
            ctx.class("ks=H1(id)_doubling_in_verify");
            r9::h1(&id, r9::HID_SIGN)
        } else {
            ks
        };
        if i % 2 == 0 {
            sign_case(ctx, &ks, &id, &msg, Some(&r), "positive");
        } else {
            sign_case(ctx, &ks, &id, &msg, None, "positive");
        }
        if i % 16 == 0 {
            ctx.sample(json!({"sign_case": wit(&ks, &id, &msg, Some(&r))}));
        }
    }
    // --- identities containing NUL bytes, trailing blanks or newlines, non-UTF-8 bytes (hashed exactly as given)
    {
        let mut pl = ctx.prng("nul_ids");
        for (k, id) in [b"Bob\0".to_vec(), b"\0Bob".to_vec(), b"Bo\0b".to_vec(), vec![0u8], vec![0u8; 4], b"Bob\0\0".to_vec(), b"Bob ".to_vec(), b" Bob".to_vec(), b"Bob\n".to_vec(), vec![0xffu8, 0xfe, 0x80], b"Alice\x01".to_vec(), b"Alice\x02".to_vec(), b"Alice\x03".to_vec(), vec![1u8], vec![3u8]].iter().enumerate() {
            let sub = pl.next();
            if !ctx.mine(k as u64) {
                continue;
            }
            let mut p = Prng::new(sub, "ni");
            let ks = rand_scalar(&mut p, &(&pr.n - 1u32));
            let r = rand_scalar(&mut p, &(&pr.n - 1u32));
            let msg = p.bytes(21);
            ctx.class("id_with_nul_bytes");
            sign_case(ctx, &ks, id, &msg, Some(&r), "id_with_nul_bytes");
        }
    }
    // --- identity lengths 0..=130 and message lengths 0..=130 (hash input lengths of H1 and H2 take every residue modulo the
    // block size of the hash underneath); master keys solved so that the extraction reads one given entry of the
    // fixed-base table (quick: a quarter of the 37 x 64 entries chosen by the seed, thorough: all)
    {
        let mut pl = ctx.prng("len_sweep");
        for len in 0..=130u64 {
            let sub = pl.next();
            if !ctx.mine(len) {
                continue;
            }
            let mut p = Prng::new(sub, "ls");
            let ks = rand_scalar(&mut p, &(&pr.n - 1u32));
            let r = rand_scalar(&mut p, &(&pr.n - 1u32));
            let (id, msg) = (p.bytes(len as usize), p.bytes(7));
            ctx.class("id_msg_length_sweep");
            sign_case(ctx, &ks, &id, &msg, Some(&r), "id_length_sweep");
            let (id, msg) = (p.bytes(5), p.bytes(len as usize));
            sign_case(ctx, &ks, &id, &msg, Some(&r), "msg_length_sweep");
        }
        let mut ti = 0u64;
        for i in 0..37usize {
            for j in 0..64u64 {
                ti += 1;
                let sub = pl.next();
                if !ctx.mine(ti) {
                    continue;
                }
                let mut p = Prng::new(sub, "tb");
                let t2 = BigUint::from(j + 1) << (7 * i);
                if t2 >= pr.n || t2 == BigUint::from(1u32) {
                    continue;
                }
                let id = p.bytes(6);
                let h = r9::h1(&id, r9::HID_SIGN);
                let Some(inv) = ((&pr.n + 1u32 - &t2) % &pr.n).modinv(&pr.n) else { continue };
                let ks = (&t2 * &h % &pr.n) * inv % &pr.n;
                if ks.is_zero() {
                    continue;
                }
                ctx.class("key_extraction_reads_one_table_entry");
                // every entry: the extracted key itself; a quarter of them (all in the thorough tier): a whole signature
                ctx.eval();
                match (guard(|| sign_master(&ks).extract_key(&id)), r9::g1_mul(&t2, &r9::g1_gen())) {
                    (Outcome::Ret(Some(key)), Some(e)) if r9::ref_g1(&key.ds) == Some(e.clone()) => {}
                    (o, _) => ctx.violation(&format!("extract_key(sign):table_entry_key:{}", if o.is_ret() { "wrong-key" } else { o.class() }), json!({"ks": hex::encode(r9::b32(&ks)), "id": hx(&id), "table_row": i, "table_entry": j})),
                }
                if ctx.thorough || (ti + ctx.seed) % 4 == 0 {
                    let (msg, r) = (p.bytes(9), rand_scalar(&mut p, &(&pr.n - 1u32)));
                    sign_case(ctx, &ks, &id, &msg, Some(&r), "table_entry_key");
                }
            }
        }
    }
    // --- many calls in one process: anything that depends on the number of calls made so far (a counter that wraps at
    // 256, a table refreshed every K uses, a recycled scratch pool) shows only here. One key, one message; every 25th
    // verification gets a tampered h and must fail.
    if ctx.shard == 0 {
        let mut pm = ctx.prng("many");
        let ks = rand_scalar(&mut pm, &(&pr.n - 1u32));
        let id = b"many-calls".to_vec();
        let msg = pm.bytes(40);
        let mk = sign_master(&ks);
        if let (Some(key), r) = (sign_key_from_ref(&ks, &id), rand_scalar(&mut pm, &(&pr.n - 1u32))) {
            if let Some((h, s)) = r9::sign(&ks, &id, &msg, &r) {
                let (hl, sl) = (limbs(&h), lib_g1_affine(&s));
                let hbad = limbs(&((&h + 1u32) % &pr.n));
                for i in 0..300u32 {
                    ctx.eval();
                    ctx.class("many_calls_one_process");
                    let bad = i % 25 == 24;
                    let o = guard(|| mk.verify_sign(&id, &msg, if bad { &hbad } else { &hl }, &sl));
                    match (bad, &o) {
                        (false, Outcome::Ret(Ok(_))) | (true, Outcome::Ret(Err(_))) => {}
                        _ => {
                            ctx.violation(&format!("verify_sign:call-number-dependent:{}", if bad { "tampered-accepted-or-crash" } else { "valid-rejected" }), json!({"call_number": i, "case": wit(&ks, &id, &msg, Some(&r))}));
                            break;
                        }
                    }
                }
                for i in 0..120u32 {
                    let r2_ = rand_scalar(&mut pm, &(&pr.n - 1u32));
                    ctx.eval();
                    ctx.class("many_calls_one_process");
                    rng_prepare(&[&r2_]);
                    let o = guard(|| key.sign(&msg));
                    let seen = rng_seen();
                    if let (Outcome::Ret(Ok((lh, ls))), Some(used)) = (&o, seen.accepted.last()) {
                        if let Some((eh, es)) = r9::sign(&ks, &id, &msg, used) {
                            if r9::from_limbs(lh) != eh || r9::ref_g1(ls) != Some(es) {
                                ctx.violation("sign:call-number-dependent:signature-differs-from-standard", json!({"call_number": i, "case": wit(&ks, &id, &msg, Some(used))}));
                                break;
                            }
                        }
                    } else {
                        ctx.violation(&format!("sign:call-number-dependent:{}", oc(&o)), json!({"call_number": i}));
                        break;
                    }
                }
            }
        }
    } else {
        ctx.class("many_calls_one_process");
    }
    // --- verifier-only key objects and interleaved master keys
    // (a) a relying party has Ppub-s but not ks: verification must depend on the public part only
    // (b) the same identity under two master keys, verified alternately on one thread: results must not
    //     depend on what was verified before
    let nh = ctx.n(6, 200);
    let mut prng = ctx.prng("verifier-only");
    for i in 0..nh {
        let sub = prng.next();
        if !ctx.mine(i) {
            continue;
        }
        let mut p = Prng::new(sub, "v");
        let (ksa, ksb) = (rand_scalar(&mut p, &(&pr.n - 1u32)), rand_scalar(&mut p, &(&pr.n - 1u32)));
        // every other history: OPPOSITE master keys, ksB = N - ksA, whose public keys are P and -P (same x coordinate)
        let ksb = if i % 2 == 1 {
            ctx.class("interleaved_opposite_master_keys");
            &pr.n - &ksa
        } else {
            ksb
        };
        let idl = p.range(1, 12);
        let id = p.bytes(idl);
        let msg = p.bytes(20);
        let (ra, rb) = (rand_scalar(&mut p, &(&pr.n - 1u32)), rand_scalar(&mut p, &(&pr.n - 1u32)));
        let (Some((ha, sa)), Some((hb, sb))) = (r9::sign(&ksa, &id, &msg, &ra), r9::sign(&ksb, &id, &msg, &rb)) else { continue };
        let mka = sign_master(&ksa);
        let mkb = sign_master(&ksb);
        // public-only objects: ks replaced by placeholders
        let placeholders: [[u64; 4]; 3] = [[0; 4], [1, 0, 0, 0], limbs(&ksb)];
        let (sla, slb) = (lib_g1_affine(&sa), lib_g1_affine(&sb));
        for ph in placeholders {
            let pub_only = gm_sm9::key::Sm9SignMasterKey { ks: ph, ppubs: mka.ppubs };
            ctx.eval();
            ctx.class("verifier_has_public_key_only");
            let hl = limbs(&ha);
            match guard(|| pub_only.verify_sign(&id, &msg, &hl, &sla)) {
                Outcome::Ret(Ok(())) => {}
                o => ctx.violation(&format!("verify_sign:verifier-without-ks:valid-signature-rejected:{}", oc(&o)), json!({"case": wit(&ksa, &id, &msg, Some(&ra)), "ks_field": hex::encode(crate::mon::limbs_to_be(&ph))})),
            }
        }
        // interleaving A / B on the same identity
        let script: [(bool, bool); 7] = [(true, true), (false, false), (true, true), (false, true), (false, false), (true, false), (true, true)];
        for (step, (use_a_key, use_a_sig)) in script.iter().enumerate() {
            ctx.eval();
            ctx.class("interleaved_master_keys_same_id");
            let mk = if *use_a_key { &mka } else { &mkb };
            let (h, sl) = if *use_a_sig { (&ha, &sla) } else { (&hb, &slb) };
            let hl = limbs(h);
            let o = guard(|| mk.verify_sign(&id, &msg, &hl, sl));
            let want_ok = use_a_key == use_a_sig;
            let got_ok = matches!(o, Outcome::Ret(Ok(())));
            let is_err = matches!(o, Outcome::Ret(Err(_)));
            if want_ok != got_ok || (!want_ok && !is_err) {
                ctx.violation(&format!("verify_sign:interleaved-master-keys:step-{}:{}", if want_ok { "valid-rejected" } else { "invalid-not-rejected" }, oc(&o)), json!({"ksA": hex::encode(r9::b32(&ksa)), "ksB": hex::encode(r9::b32(&ksb)), "id": hx(&id), "step": step, "script(key A?, signature of A?)": format!("{:?}", script)}));
                break;
            }
        }
    }
    // --- forged samples (the same samples on every shard; the fault space is partitioned)
    let nf = ctx.n(2, 60);
    let mut prng = ctx.prng("forged");
    let mut idx = 0u64;
    for i in 0..nf {
        let ks = scalar_for(&mut prng, 100);
        let idl = if i % 2 == 1 { 8192 + prng.range(1, 200) } else { prng.range(1, 20) };
        let id = prng.bytes(idl);
        let ml = prng.range(0, 60);
        let msg = prng.bytes(ml);
        let mut r = rand_scalar(&mut prng, &(&pr.n - 1u32));
        let sub = prng.next();
        let Some((mut h, mut s)) = r9::sign(&ks, &id, &msg, &r) else { continue };
        if i % 2 == 0 {
            // every other sample: a signature whose h + N still fits in 256 bits (alias forgery) and whose h with the top
            // bit flipped is >= N (so that the required class bitflip_h_ge_N is certain to occur): h in [N - 2^255, 2^256 - N),
            // 10.7 % of all h; 200 tries leave a 1e-10 chance of not finding one
            let two256: BigUint = BigUint::one() << 256;
            let two255: BigUint = BigUint::one() << 255;
            let mut tries = 0;
            while (&h + &pr.n >= two256 || &h + &two255 < pr.n) && tries < 200 {
                tries += 1;
                r = rand_scalar(&mut prng, &(&pr.n - 1u32));
                if let Some((h2, s2)) = r9::sign(&ks, &id, &msg, &r) {
                    h = h2;
                    s = s2;
                }
            }
        }
        let smp = Sample { ks, id, msg, h, s };
        let mut p = Prng::new(sub, "f");
        forgeries(ctx, &smp, &mut p, &mut idx);
        if i == 0 && ctx.shard == 0 {
            ctx.sample(json!({"forged_sample": {"case": wit(&smp.ks, &smp.id, &smp.msg, None), "h": hex::encode(r9::b32(&smp.h)), "S": g1_hex(&smp.s)}, "faults": "256 bit flips of h, 512 of S, h in {0,1,N-2,N-1,N,N+1,2^256-1}, S in {-S,2S,P1,random,off-curve,(0,0),infinity}, changed msg/id/master key"}));
        }
    }
    ctx.exhaustive("all 256 + 512 single-bit flips of (h, S) for each forged sample", true);
}
