//! C01 — SM3 digest equals GB/T 32905 for every message; the function is pure.
use crate::corpus;
use crate::mon::{guard, hx, Ctx, Outcome};
use crate::refs::sm3 as rsm3;
use serde_json::json;

fn content(class: usize, len: usize, prng: &mut crate::mon::Prng) -> Vec<u8> {
    match class {
        0 => vec![0u8; len],
        1 => vec![0xffu8; len],
        2 => (0..len).map(|i| (i & 0xff) as u8).collect(),
        _ => prng.bytes(len),
    }
}

fn check(ctx: &mut Ctx, op: &str, m: &[u8], expect: &[u8; 32], note: &str) -> Option<[u8; 32]> {
    ctx.eval();
    let len = m.len();
    let r = len % 64;
    ctx.class(&format!("lenmod64={:02}", r));
    if len == 0 {
        ctx.class("empty");
    }
    if (56..=63).contains(&r) {
        ctx.class("pad_two_block");
    } else {
        ctx.class("pad_one_block");
    }
    if len >= 128 {
        ctx.class("ge3_blocks");
    }
    if (len as u64) * 8 >= (1u64 << 32) {
        ctx.class("bitlen_ge_2^32");
    }
    match guard(|| gm_sm3::sm3_hash(m)) {
        Outcome::Ret(d) => {
            if &d != expect {
                ctx.violation(
                    &format!("{}:lenmod64={}:digest-mismatch", op, r),
                    json!({"op": op, "note": note, "len": len, "msg": hx(m), "expected": hex::encode(expect), "actual": hex::encode(d)}),
                );
            }
            Some(d)
        }
        o => {
            ctx.violation(
                &format!("{}:lenmod64={}:{}", op, r, o.class()),
                json!({"op": op, "note": note, "len": len, "msg": hx(m), "outcome": format!("{:?}", o)}),
            );
            None
        }
    }
}

pub fn run(ctx: &mut Ctx) {
    for (n, ok) in rsm3::selftest() {
        ctx.selftest(&n, ok);
    }
    let req: Vec<String> = (0..64).map(|r| format!("lenmod64={:02}", r)).collect();
    let reqs: Vec<&str> = req.iter().map(|s| s.as_str()).collect();
    ctx.require(&reqs);
    ctx.require(&["empty", "pad_two_block", "pad_one_block", "ge3_blocks", "bitlen_ge_2^32", "purity_rehash", "purity_threads", "openssl_corpus"]);

    // --- OpenSSL corpus: anchors the reference (selftest) and checks the library directly
    let c = corpus::load("sm3_openssl.json");
    let mut ref_ok = true;
    for (i, v) in c["vectors"].as_array().unwrap().iter().enumerate() {
        let m = corpus::hexf(v, "msg");
        let d = corpus::hexf(v, "digest");
        let mut e = [0u8; 32];
        e.copy_from_slice(&d);
        if rsm3::sm3(&m) != e {
            ref_ok = false;
        }
        if ctx.mine(i as u64) {
            ctx.class("openssl_corpus");
            ctx.distinct("sm3", &[&m]);
            check(ctx, "sm3_hash", &m, &e, "openssl corpus");
        }
    }
    ctx.selftest("reference sm3 == OpenSSL on 311 corpus messages", ref_ok);

    // --- every length 0..=4096 in four content classes
    let mut prng = ctx.prng("sweep");
    let mut idx = 0u64;
    for len in 0..=4096usize {
        for class in 0..4 {
            let m = content(class, len, &mut prng);
            idx += 1;
            if !ctx.mine(idx) {
                continue;
            }
            let e = rsm3::sm3(&m);
            ctx.distinct("sm3", &[&m]);
            check(ctx, "sm3_hash", &m, &e, "length sweep");
            if len % 997 == 3 && class == 3 {
                ctx.sample(json!({"op": "sm3_hash", "len": len, "content": "random", "digest": hex::encode(e)}));
            }
        }
    }
    ctx.exhaustive("lengths 0..=4096 x {00,ff,counter,random}", true);

    // --- every single-bit-set message of 192 bytes
    for bit in 0..(192 * 8) as u64 {
        if !ctx.mine(bit) {
            continue;
        }
        let mut m = vec![0u8; 192];
        m[(bit / 8) as usize] = 0x80 >> (bit % 8);
        let e = rsm3::sm3(&m);
        ctx.distinct("sm3", &[&m]);
        ctx.class("single_bit_192");
        check(ctx, "sm3_hash", &m, &e, "single bit set");
    }
    ctx.exhaustive("single-bit-set messages of 192 bytes", true);

    // --- random multi-block messages up to 1 MiB
    let n = ctx.n(500, 20_000);
    let mut prng = ctx.prng("multi");
    for i in 0..n {
        let len = if i % 4 == 0 { prng.range(0, 1 << 20) } else { prng.range(0, 20_000) };
        let sub = prng.next();
        if !ctx.mine(i) {
            continue;
        }
        let mut p2 = crate::mon::Prng::new(sub, "m");
        let m = p2.bytes(len);
        let e = rsm3::sm3(&m);
        ctx.distinct("sm3", &[&m]);
        ctx.class("random_multiblock");
        check(ctx, "sm3_hash", &m, &e, "random multi-block");
    }

    // --- size thresholds x every residue modulo the block size: 2^k + r for r in 0..=64 (a bulk / streaming path that
    // starts at some size has its own padding decision)
    {
        let ks: Vec<u32> = if ctx.thorough { vec![13, 16, 20, 22, 24, 26, 28] } else { vec![16, 20, 24] };
        let mut pt = ctx.prng("threshold_residues");
        let mut ti = 0u64;
        for k in ks {
            // one buffer per threshold, hashed through prefixes of every length
            let buf = pt.bytes(4096);
            for r in 0..=64usize {
                ti += 1;
                if !ctx.mine(ti) {
                    continue;
                }
                let len = (1usize << k) + r;
                let mut m = vec![0xa5u8; len];
                m[..4096].copy_from_slice(&buf);
                m[len - 1] = r as u8;
                let mut h = rsm3::Sm3::new();
                for ch in m.chunks(1 << 20) {
                    h.update(ch);
                }
                let e = h.finish();
                ctx.distinct("sm3", &[&(k as u64).to_be_bytes(), &(r as u64).to_be_bytes()]);
                ctx.class("size_threshold_x_residue");
                check(ctx, "sm3_hash", &m, &e, &format!("2^{} + {} bytes", k, r));
            }
        }
        ctx.exhaustive("lengths 2^k + r, r in 0..=64, k in {16, 20, 24} (thorough: also 13, 22, 26, 28)", true);
    }

    // --- purity: same inputs re-hashed after unrelated calls, in permuted order, and from threads
    let mut prng = ctx.prng("purity");
    let npure = 2000u64;
    let mut msgs: Vec<Vec<u8>> = vec![];
    for i in 0..npure {
        let len = prng.range(0, 300);
        let m = prng.bytes(len);
        if ctx.mine(i) {
            msgs.push(m);
        }
    }
    let first: Vec<Option<[u8; 32]>> = msgs
        .iter()
        .map(|m| {
            let e = rsm3::sm3(m);
            check(ctx, "sm3_hash", m, &e, "purity first pass")
        })
        .collect();
    // unrelated calls in between, then reversed order
    for k in 0..50usize {
        let _ = guard(|| gm_sm3::sm3_hash(&vec![k as u8; k * 37]));
    }
    for (j, m) in msgs.iter().enumerate().rev() {
        ctx.eval();
        ctx.class("purity_rehash");
        if let (Outcome::Ret(d2), Some(d1)) = (guard(|| gm_sm3::sm3_hash(m)), first[j]) {
            if d1 != d2 {
                ctx.violation("sm3_hash:purity:digest-changed", json!({"msg": hx(m), "first": hex::encode(d1), "second": hex::encode(d2)}));
            }
        }
    }
    if ctx.shard == 0 {
        let shared: Vec<Vec<u8>> = msgs.iter().take(64).cloned().collect();
        let expect: Vec<[u8; 32]> = shared.iter().map(|m| rsm3::sm3(m)).collect();
        let mut bad = vec![];
        std::thread::scope(|s| {
            let mut hs = vec![];
            for t in 0..8usize {
                let shared = &shared;
                let expect = &expect;
                hs.push(s.spawn(move || {
                    let mut bad = vec![];
                    for r in 0..20usize {
                        for j in 0..shared.len() {
                            let k = (j * 7 + t * 13 + r) % shared.len();
                            let d = gm_sm3::sm3_hash(&shared[k]);
                            if d != expect[k] {
                                bad.push(k);
                            }
                        }
                    }
                    bad
                }));
            }
            for h in hs {
                if let Ok(b) = h.join() {
                    bad.extend(b);
                }
            }
        });
        ctx.evals(8 * 20 * shared.len() as u64);
        ctx.class_n("purity_threads", 8 * 20 * shared.len() as u64);
        if let Some(k) = bad.first() {
            ctx.violation("sm3_hash:purity-threads:digest-mismatch", json!({"msg": hx(&shared[*k])}));
        }
    }

    // --- big all-zero messages (bit length >= 2^32); digests frozen from OpenSSL/hashlib streaming
    let bigs: Vec<&str> = if ctx.thorough { vec!["2^29", "2^29+1", "2^30", "2^31", "2^32"] } else { vec!["2^29"] };
    for (k, name) in bigs.iter().enumerate() {
        // spread over shards from the end so that they run in parallel with the small work
        if (ctx.nshards - 1 - (k % ctx.nshards)) != ctx.shard {
            continue;
        }
        let v = &c["big_zero"][*name];
        let len = v["len"].as_u64().unwrap() as usize;
        let d = corpus::hexf(v, "digest");
        let mut e = [0u8; 32];
        e.copy_from_slice(&d);
        let m = vec![0u8; len];
        // the streaming reference must agree with the frozen digest as well
        let mut h = rsm3::Sm3::new();
        for ch in m.chunks(1 << 20) {
            h.update(ch);
        }
        ctx.selftest(&format!("reference sm3 == frozen digest for {} zero bytes", name), h.finish() == e);
        ctx.class("big_message");
        ctx.distinct("sm3", &[name.as_bytes()]);
        ctx.journal_call("sm3_hash", &format!("zero message of {} bytes", len));
        check(ctx, "sm3_hash", &m, &e, &format!("{} zero bytes", name));
        ctx.journal_ret("done");
        // purity right after a message whose length needs the upper half of the length field: short messages of every
        // padding shape, the two-block shapes first (rotated per big message), must hash as if nothing came before
        let mut after: Vec<usize> = vec![56, 57, 58, 59, 60, 61, 62, 63, 119, 120, 127, 0, 1, 55, 64, 3];
        after.rotate_left(k % 8);
        for (j, al) in after.iter().enumerate() {
            let sm: Vec<u8> = (0..*al).map(|x| (x * 7 + j) as u8).collect();
            let es = rsm3::sm3(&sm);
            ctx.class("short_message_right_after_big_message");
            check(ctx, "sm3_hash", &sm, &es, &format!("{} bytes right after {} zero bytes", al, name));
        }
        ctx.sample(json!({"op": "sm3_hash", "len": len, "content": "zero", "digest": hex::encode(e)}));
    }
    ctx.note("length-field bytes 5..7 (messages >= 128 GiB) are out of reach on this machine; bytes 0..4 are exercised");
}
