//! C10 — SM9 encryption round-trips, conforms to GM/T 0044.4, and is tamper-evident.
use crate::mon::{guard, hx, Ctx, Outcome, Prng};
use crate::refs::sm3 as r3;
use crate::refs::sm9 as r9;
use crate::sm9x::*;
use gm_sm9::fields::FieldElement;
use gm_sm9::key::Sm9EncKey;
use gm_sm9::verif_hooks as hk;
use num_bigint::BigUint;
use num_traits::Zero;
use serde_json::json;

fn wit(ke: &BigUint, id: &[u8], msg: &[u8], r: Option<&BigUint>) -> serde_json::Value {
    json!({"ke": hex::encode(r9::b32(ke)), "id": hx(id), "msg": hx(msg), "msg_len": msg.len(), "r": r.map(|r| hex::encode(r9::b32(r)))})
}

fn oc<T, E>(o: &Outcome<Result<T, E>>) -> &'static str {
    match o {
        Outcome::Ret(Ok(_)) => "ok",
        Outcome::Ret(Err(_)) => "err",
        Outcome::Panic(_) => "panic",
        Outcome::StepLimit(_) => "steplimit",
    }
}

fn enc_case(ctx: &mut Ctx, ke: &BigUint, id: &[u8], msg: &[u8], r: Option<&BigUint>, cls: &str) {
    let mut mk = enc_master(ke);
    // an encryptor only has Ppub-e: for every third case the ke field is a placeholder
    let real_mk = mk;
    if msg.len() % 3 == 1 {
        mk.ke = if msg.len() % 2 == 0 { [0; 4] } else { [7, 0, 0, 0] };
        ctx.class("encryptor_has_public_key_only");
    }
    ctx.eval();
    ctx.class(cls);
    match r {
        Some(r) => rng_prepare(&[r]),
        None => rng_prepare(&[]),
    }
    let o = guard(|| mk.encrypt(id, msg));
    let seen = rng_seen();
    let ct = match o {
        Outcome::Ret(ct) => ct,
        o => {
            ctx.violation(&format!("encrypt:{}:{}", cls, o.class()), json!({"case": wit(ke, id, msg, r), "outcome": format!("{:?}", o)}));
            return;
        }
    };
    ctx.distinct("enc", &[&ct]);
    let Some(used) = seen.accepted.last().cloned() else {
        ctx.violation(&format!("encrypt:{}:no-scalar-drawn", cls), wit(ke, id, msg, r));
        return;
    };
    if let Some(r) = r {
        if &used != r || seen.pending != 0 {
            // a generator may legitimately be stricter than [1, N-1] (the SM9 one refuses scalars whose lowest
            // limb is zero): the operation then ran on a fresh draw, which is compared below like a free one
            ctx.class("injected_r_rejected_by_generator");
            if seen.candidates.first() != Some(r) {
                ctx.violation(&format!("encrypt:{}:injected-candidate-never-reached-the-generator", cls), wit(ke, id, msg, Some(r)));
                return;
            }
        } else {
            ctx.class("fixed_r_exact");
        }
    } else {
        ctx.class("free_r");
    }
    if ct.len() != 65 + 32 + msg.len() {
        ctx.violation(&format!("encrypt:{}:ciphertext-length", cls), json!({"case": wit(ke, id, msg, Some(&used)), "len": ct.len()}));
        return;
    }
    match r9::encrypt(ke, id, msg, &used) {
        Some(e) => {
            if e != ct {
                let part = if e[..65] != ct[..65] {
                    "C1"
                } else if e[97..] != ct[97..] {
                    "C2"
                } else {
                    "C3"
                };
                ctx.violation(&format!("encrypt:{}:ciphertext-differs-from-standard:{}", cls, part), json!({"case": wit(ke, id, msg, Some(&used)), "expected": hx(&e), "actual": hx(&ct)}));
                return;
            }
        }
        None => {
            // GM/T 0044.4 A6: K1 all zero -> back to A2. The library must not have produced a ciphertext from this r
            ctx.class("ref_retry_condition");
            ctx.violation(&format!("encrypt:{}:all-zero-K1-not-retried", cls), json!({"case": wit(ke, id, msg, Some(&used)), "ct": hx(&ct)}));
            return;
        }
    }
    // library key extraction + decryption round trip
    ctx.eval();
    let key = match guard(|| real_mk.extract_key(id)) {
        Outcome::Ret(Some(k)) => k,
        o => {
            if r9::extract_enc_key(ke, id, r9::HID_ENC).is_some() {
                ctx.violation(&format!("extract_key(enc):{}:{}", cls, o.class()), wit(ke, id, msg, None));
            }
            return;
        }
    };
    expect_decrypt(ctx, &key, ke, id, &ct, msg, "roundtrip");
}

fn expect_decrypt(ctx: &mut Ctx, key: &Sm9EncKey, ke: &BigUint, id: &[u8], ct: &[u8], msg: &[u8], cls: &str) {
    ctx.eval();
    ctx.class(cls);
    match guard(|| key.decrypt(id, ct)) {
        Outcome::Ret(Ok(m)) if m == msg => {}
        o => {
            let what = if let Outcome::Ret(Ok(_)) = &o { "wrong-plaintext" } else { oc(&o) };
            ctx.violation(&format!("decrypt:{}:{}", cls, what), json!({"case": wit(ke, id, msg, None), "ct": hx(ct), "outcome": format!("{:?}", o.class())}));
        }
    }
}

struct Sample {
    ke: BigUint,
    id: Vec<u8>,
    msg: Vec<u8>,
    ct: Vec<u8>,
    key: Sm9EncKey,
}

fn probe(ctx: &mut Ctx, s: &Sample, id: &[u8], ct: &[u8], cls: &str) {
    ctx.eval();
    ctx.class(cls);
    ctx.distinct(cls, &[ct, id, &r9::b32(&s.ke)]);
    let o = guard(|| s.key.decrypt(id, ct));
    let w = || json!({"class": cls, "original": wit(&s.ke, &s.id, &s.msg, None), "original_ct": hx(&s.ct), "id_used": hx(id), "tampered_ct": hx(ct), "tampered_len": ct.len()});
    match o {
        Outcome::Ret(Err(_)) => {}
        Outcome::Ret(Ok(m)) => {
            let what = if m == s.msg { "accepted-with-original-plaintext" } else { "returned-different-plaintext" };
            ctx.violation(&format!("decrypt:{}:{}", cls, what), json!({"case": w(), "returned": hx(&m)}));
        }
        Outcome::Panic(p) => ctx.violation(&format!("decrypt:{}:panic", cls), json!({"case": w(), "panic": p})),
        Outcome::StepLimit(_) => ctx.violation(&format!("decrypt:{}:steplimit", cls), w()),
    }
}

/// C1 = arbitrary (x, y); w is taken from the library's own pairing on that input, so that C2/C3 are
/// exactly what a decryptor without a curve check recomputes.
fn crafted(ctx: &mut Ctx, s: &Sample, x: &BigUint, y: &BigUint, pc: u8, cls: &str) {
    let mut c1 = vec![pc];
    c1.extend_from_slice(&r9::b32(x));
    c1.extend_from_slice(&r9::b32(y));
    let c1pt = hk::point_from_bytes(&c1);
    let w = match guard(|| hk::pairing(&s.key.de, &c1pt).to_bytes_be()) {
        Outcome::Ret(w) => w,
        _ => {
            ctx.class("crafted_pairing_not_computable");
            return;
        }
    };
    let mut z = c1[1..65].to_vec();
    z.extend_from_slice(&w);
    z.extend_from_slice(&s.id);
    let k = r3::kdf(&z, s.msg.len() + 32);
    let (k1, k2) = k.split_at(s.msg.len());
    let c2: Vec<u8> = s.msg.iter().zip(k1.iter()).map(|(a, b)| a ^ b).collect();
    let c3 = r9::mac(k2, &c2);
    let mut ct = c1;
    ct.extend_from_slice(&c3);
    ct.extend_from_slice(&c2);
    probe(ctx, s, &s.id, &ct, cls);
}

fn fault_space(ctx: &mut Ctx, s: &Sample, p: &mut Prng, idx: &mut u64) {
    let pr = r9::params();
    let mut mine = |ctx: &Ctx| {
        *idx += 1;
        ctx.mine(*idx)
    };
    if mine(ctx) {
        expect_decrypt(ctx, &s.key, &s.ke, &s.id, &s.ct, &s.msg, "ref_made_decrypts");
    }
    for bit in 0..s.ct.len() * 8 {
        if !mine(ctx) {
            continue;
        }
        let mut t = s.ct.clone();
        t[bit / 8] ^= 0x80 >> (bit % 8);
        let byte = bit / 8;
        let cls = if byte == 0 {
            "bitflip_pc_byte"
        } else if byte < 65 {
            "bitflip_c1"
        } else if byte < 97 {
            "bitflip_c3"
        } else {
            "bitflip_c2"
        };
        probe(ctx, s, &s.id, &t, cls);
    }
    for len in 0..s.ct.len() {
        if !mine(ctx) {
            continue;
        }
        let cls = if len < 65 { "truncated_inside_c1" } else if len < 97 { "truncated_inside_c3" } else { "truncated_body" };
        probe(ctx, s, &s.id, &s.ct[..len], cls);
    }
    if mine(ctx) {
        let mut e = s.ct.clone();
        e.push(7);
        probe(ctx, s, &s.id, &e, "extended");
    }
    if mine(ctx) {
        let mut i2 = s.id.clone();
        i2.push(b'x');
        probe(ctx, s, &i2, &s.ct, "id_changed");
    }
    if mine(ctx) && !s.id.is_empty() {
        probe(ctx, s, &s.id[..s.id.len() - 1], &s.ct, "id_changed");
    }
    // non-canonical encodings of the same C1: coordinate + p (fits in 256 bits for ~29% of coordinates), tag untouched
    let c1 = (r9::from_b(&s.ct[1..33]), r9::from_b(&s.ct[33..65]));
    {
        let two256: BigUint = BigUint::from(1u32) << 256;
        for (which, v) in [(0usize, &c1.0), (1usize, &c1.1)] {
            if mine(ctx) {
                if v + &pr.p < two256 {
                    let mut t = s.ct.clone();
                    t[1 + 32 * which..33 + 32 * which].copy_from_slice(&r9::b32(&(v + &pr.p)));
                    probe(ctx, s, &s.id, &t, "c1_coordinate_plus_p_alias");
                } else {
                    ctx.class("c1_coordinate_plus_p_does_not_fit");
                }
            }
        }
    }
    // crafted C1
    if mine(ctx) {
        crafted(ctx, s, &BigUint::zero(), &BigUint::zero(), 0x04, "c1_zero_zero");
    }
    if mine(ctx) {
        crafted(ctx, s, &c1.0, &((&c1.1 + 1u32) % &pr.p), 0x04, "c1_offcurve_y_plus_1");
    }
    if mine(ctx) {
        crafted(ctx, s, &((&c1.0 + 1u32) % &pr.p), &c1.1, 0x04, "c1_offcurve_x_plus_1");
    }
    for _ in 0..3 {
        let (x, y) = (rand_scalar(p, &pr.p), rand_scalar(p, &pr.p));
        if mine(ctx) && !r9::g1_on_curve(&x, &y) {
            crafted(ctx, s, &x, &y, 0x04, "c1_offcurve_random");
        }
    }
    // valid curve point but wrong point-format byte, with a tag that matches
    for pc in [0x00u8, 0x02, 0x03, 0x05, 0x06, 0x07, 0x44, 0xff] {
        if mine(ctx) {
            crafted(ctx, s, &c1.0, &c1.1, pc, "pc_byte_illegal_valid_tag");
        }
    }
    // C1 replaced by another valid point / its negative (tag now wrong)
    if mine(ctx) {
        let o = r9::g1_mul(&rand_scalar(p, &pr.n), &r9::g1_gen()).unwrap();
        let mut t = vec![0x04];
        t.extend_from_slice(&r9::pt_bytes(&o));
        t.extend_from_slice(&s.ct[65..]);
        probe(ctx, s, &s.id, &t, "c1_other_point");
    }
    if mine(ctx) {
        let o = r9::g1_neg(&Some(c1.clone())).unwrap();
        let mut t = vec![0x04];
        t.extend_from_slice(&r9::pt_bytes(&o));
        t.extend_from_slice(&s.ct[65..]);
        probe(ctx, s, &s.id, &t, "c1_negated");
    }
    if mine(ctx) {
        let mut t = s.ct.clone();
        for b in t[65..97].iter_mut() {
            *b = 0;
        }
        probe(ctx, s, &s.id, &t, "c3_zeroed");
    }
    // C3 replaced by OTHER tags over the same data and session key: HMAC-SM3(K2, C2) (the pre-standard construction),
    // SM3(K2 || C2), SM3(C2): only SM3(C2 || K2) is the standard's MAC, anything else must be rejected
    if mine(ctx) {
        if let Some(de) = r9::extract_enc_key(&s.ke, &s.id, r9::HID_ENC) {
            let c1 = (r9::from_b(&s.ct[1..33]), r9::from_b(&s.ct[33..65]));
            if let Some(w) = r9::pairing(&c1, &de) {
                let c2 = &s.ct[97..];
                let mut z = s.ct[1..65].to_vec();
                z.extend_from_slice(&r9::f12bytes(&w));
                z.extend_from_slice(&s.id);
                let k = r3::kdf(&z, c2.len() + 32);
                let k2 = &k[c2.len()..];
                let tags: [(&str, [u8; 32]); 3] = [("hmac_sm3(K2,C2)", r3::hmac(k2, c2)), ("sm3(K2||C2)", r3::sm3_parts(&[k2, c2])), ("sm3(C2)", r3::sm3(c2))];
                for (nm, t32) in tags {
                    let mut t = s.ct.clone();
                    t[65..97].copy_from_slice(&t32);
                    if t != s.ct {
                        probe(ctx, s, &s.id, &t, &format!("c3_other_tag:{}", nm));
                        ctx.class("c3_replaced_by_other_keyed_tag");
                    }
                }
            }
        }
    }
    // C3 changed so that a folded (XOR / sum) comparison cannot see it: two bytes swapped, the same mask on two bytes,
    // bytes reversed, rotated
    for k in 0..6u64 {
        if !mine(ctx) {
            continue;
        }
        let mut t = s.ct.clone();
        let c3 = &mut t[65..97];
        let (a, b) = (p.below(32) as usize, p.below(32) as usize);
        match k {
            0 => c3.swap(a, (a + 1 + b % 31) % 32),
            1 | 2 => {
                let m = 1u8 << p.below(8);
                c3[a] ^= m;
                c3[(a + 1 + b % 31) % 32] ^= m;
            }
            3 => c3.reverse(),
            4 => c3.rotate_left(1 + b % 31),
            _ => {
                c3[a] = c3[a].wrapping_add(1);
                let j = (a + 1 + b % 31) % 32;
                c3[j] = c3[j].wrapping_sub(1);
            }
        }
        if t != s.ct {
            probe(ctx, s, &s.id, &t, "c3_fold_preserving_change");
        }
    }
    // the same mask on bytes 4 / 8 / 16 / 24 apart: invisible to a comparison that folds 32- or 64-bit lanes by XOR
    for offs in [vec![4usize], vec![8], vec![16], vec![24], vec![8, 16, 24], vec![4, 8, 12]] {
        let a = p.below(8) as usize;
        let m = 1 + p.below(255) as u8;
        if !mine(ctx) {
            continue;
        }
        let mut t = s.ct.clone();
        let c3 = &mut t[65..97];
        c3[a] ^= m;
        for o in offs {
            c3[a + o] ^= m;
        }
        probe(ctx, s, &s.id, &t, "c3_fold_preserving_change");
    }
}

pub fn run(ctx: &mut Ctx) {
    for (n, ok) in r9::selftest(false) {
        ctx.selftest(&n, ok);
    }
    ctx.require(&["annex_kat", "len_sweep", "fixed_r_exact", "free_r", "roundtrip", "ref_made_decrypts", "bitflip_pc_byte", "bitflip_c1", "bitflip_c2", "bitflip_c3", "truncated_inside_c1", "truncated_inside_c3", "truncated_body", "id_changed", "c1_zero_zero", "c1_offcurve_y_plus_1", "c1_offcurve_random", "pc_byte_illegal_valid_tag", "c1_other_point", "c1_coordinate_plus_p_alias", "c3_zeroed", "msg_len=255", "msg_len=1", "id_empty", "encryptor_has_public_key_only", "interleaved_keys_decrypt", "k1_all_zero_retry", "ke=H1(id)_doubling_in_QB", "crafted_valid_c1_decrypts", "long_msg_or_id", "kdf_beyond_255_blocks", "id_beyond_2^16_bits", "many_calls_one_process", "id_length_sweep", "c3_fold_preserving_change", "id_with_nul_bytes", "c3_replaced_by_other_keyed_tag"]);
    let pr = r9::params();
    if ctx.shard == 0 {
        let ke = r9::hexn("0001EDEE3778F441F8DEA3D9FA0ACC4E07EE36C93F9A08618AF4AD85CEDE1C22");
        let r = r9::hexn("0000AAC0541779C8FC45E3E2CB25C12B5D2576B2129AE8BB5EE2CBE5EC9E785C");
        enc_case(ctx, &ke, b"Bob", b"Chinese IBE standard", Some(&r), "annex_kat");
        // the Annex ciphertext itself must decrypt
        if let (Some(ct), Some(key)) = (r9::encrypt(&ke, b"Bob", b"Chinese IBE standard", &r), enc_key_from_ref(&ke, b"Bob", r9::HID_ENC)) {
            expect_decrypt(ctx, &key, &ke, b"Bob", &ct, b"Chinese IBE standard", "annex_ciphertext_decrypts");
        }
        ctx.sample(json!({"annex": {"ke": "0001EDEE..1C22", "id": "Bob", "msg": "Chinese IBE standard", "r": "0000AAC0..785C", "C3": "BA672387..F367"}}));
    }
    // --- reference-made ciphertexts whose C1 is a VALID point crafted so that the addition x^3 + 5 of the on-curve test
    // lands on a carry / reduction boundary: they must decrypt
    {
        let mut pc = ctx.prng("crafted_pts");
        let reps = ctx.n(1, 6);
        for _ in 0..reps {
            let sub = pc.next();
            let mut q = Prng::new(sub, "cp");
            for (name, pt) in crafted_g1_points(&mut q, 1, ctx.shard as u64, ctx.nshards as u64) {
                let ke = rand_scalar(&mut q, &(&pr.n - 1u32));
                let idl = 1 + q.below(12) as usize;
                let id = q.bytes(idl);
                let mlen = 1 + q.below(60) as usize;
                let msg = q.bytes(mlen);
                let (Some(de), Some(key)) = (r9::extract_enc_key(&ke, &id, r9::HID_ENC), enc_key_from_ref(&ke, &id, r9::HID_ENC)) else { continue };
                let Some(w) = r9::pairing(&pt, &de) else { continue };
                let mut z = r9::pt_bytes(&pt);
                z.extend_from_slice(&r9::f12bytes(&w));
                z.extend_from_slice(&id);
                let k = r3::kdf(&z, msg.len() + 32);
                let (k1, k2) = k.split_at(msg.len());
                if k1.iter().all(|&b| b == 0) {
                    continue;
                }
                let c2: Vec<u8> = msg.iter().zip(k1.iter()).map(|(a, b)| a ^ b).collect();
                let mut ct = vec![0x04];
                ct.extend_from_slice(&r9::pt_bytes(&pt));
                ct.extend_from_slice(&r9::mac(k2, &c2));
                ct.extend_from_slice(&c2);
                if r9::decrypt(&de, &id, &ct).as_deref() != Some(&msg[..]) {
                    ctx.violation("harness:crafted-c1-ciphertext-rejected-by-reference", json!({"class": name}));
                    continue;
                }
                ctx.class(&format!("crafted:{}", name));
                expect_decrypt(ctx, &key, &ke, &id, &ct, &msg, "crafted_valid_c1_decrypts");
            }
        }
    }
    // --- crafted r for which K1 of a 1-byte message is all zero: the standard's retry condition (A6)
    let kz = crate::corpus::load("sm9_k1_zero.json");
    for (i, v) in kz["k1_zero"].as_array().unwrap().iter().enumerate() {
        let ke = r9::from_b(&crate::corpus::hexf(v, "ke"));
        let id = crate::corpus::hexf(v, "id");
        let r = r9::from_b(&crate::corpus::hexf(v, "r"));
        ctx.selftest(&format!("K1-all-zero witness {} reproduces in the reference", i), r9::encrypt(&ke, &id, &[0x5a], &r).is_none());
        if !ctx.mine(i as u64) {
            continue;
        }
        ctx.class("k1_all_zero_retry");
        ctx.eval();
        let mk = enc_master(&ke);
        let good = rand_scalar(&mut ctx.prng(&format!("k1z{}", i)), &(&pr.n - 1u32));
        rng_prepare(&[&r, &good]);
        let o = guard(|| mk.encrypt(&id, &[0x5a]));
        let seen = rng_seen();
        match o {
            Outcome::Ret(ct) => {
                // the crafted r must have been drawn and abandoned; the ciphertext must be the standard one for the next draw
                let used = seen.accepted.last().cloned();
                let expect = used.as_ref().and_then(|u| r9::encrypt(&ke, &id, &[0x5a], u));
                if seen.accepted.first() != Some(&r) || used.as_ref() == Some(&r) || expect.as_deref() != Some(&ct[..]) {
                    ctx.violation("encrypt:k1-all-zero:not-retried", json!({"case": wit(&ke, &id, &[0x5a], Some(&r)), "ct": hx(&ct), "note": "C2 equals the plaintext byte"}));
                }
            }
            o => ctx.violation(&format!("encrypt:k1-all-zero:{}", o.class()), wit(&ke, &id, &[0x5a], Some(&r))),
        }
        // the decryptor must refuse such a ciphertext as well (B3): build it with the library-independent formulae
        let ppube = r9::g1_mul(&ke, &r9::g1_gen()).unwrap();
        let qb = r9::g1_add(&r9::g1_mul(&r9::h1(&id, r9::HID_ENC), &r9::g1_gen()), &Some(ppube.clone()));
        let c1 = r9::g1_mul(&r, &qb).unwrap();
        let w = r9::f12pow(&r9::pairing(&ppube, &pr.p2).unwrap(), &r);
        let mut z = r9::pt_bytes(&c1);
        z.extend_from_slice(&r9::f12bytes(&w));
        z.extend_from_slice(&id);
        let k = r3::kdf(&z, 33);
        let c2 = vec![0x5au8 ^ k[0]];
        let c3 = r9::mac(&k[1..], &c2);
        let mut ct = vec![4u8];
        ct.extend_from_slice(&r9::pt_bytes(&c1));
        ct.extend_from_slice(&c3);
        ct.extend_from_slice(&c2);
        if let Some(key) = enc_key_from_ref(&ke, &id, r9::HID_ENC) {
            ctx.eval();
            match guard(|| key.decrypt(&id, &ct)) {
                Outcome::Ret(Err(_)) => {}
                o => ctx.violation(&format!("decrypt:k1-all-zero:{}", oc(&o)), json!({"ct": hx(&ct)})),
            }
        }
    }
    // --- every message length 1..=255
    let reps = ctx.n(1, 20);
    let mut prng = ctx.prng("sweep");
    let mut idx = 0u64;
    for rep in 0..reps {
        for len in 1..=255usize {
            idx += 1;
            let sub = prng.next();
            if !ctx.mine(idx) {
                continue;
            }
            let mut p = Prng::new(sub, "c");
            let ke = scalar_for(&mut p, idx % 30);
            let idlen = if idx % 17 == 0 { 0 } else { p.range(1, 40) };
            if idlen == 0 {
                ctx.class("id_empty");
            }
            let id = p.bytes(idlen);
            // crafted master key ke = H1(ID||03): Q_B = [H1]P1 + Ppub-e is then a doubling of equal points
            let ke = if len % 16 == 5 {
                ctx.class("ke=H1(id)_doubling_in_QB");
                r9::h1(&id, r9::HID_ENC)
            } else {
                ke
            };
            let msg = if len % 13 == 0 { vec![0u8; len] } else { p.bytes(len) };
            let r = match idx % 17 {
                0 => BigUint::from(1 + idx % 3),
                1 => &pr.n - 2u32 - BigUint::from(idx % 2),
                2 | 3 => sparse_scalar(&mut p, 1 + (idx / 17) % 14),
                4 => crate::sm2x::run_scalar(&mut p, &(&pr.n - 1u32)),
                _ => rand_scalar(&mut p, &(&pr.n - 1u32)),
            };
            ctx.class(&format!("msg_len={}", len));
            if (len + rep as usize) % 2 == 0 {
                enc_case(ctx, &ke, &id, &msg, Some(&r), "len_sweep");
            } else {
                enc_case(ctx, &ke, &id, &msg, None, "len_sweep");
            }
            if rep == 0 && len == 100 {
                ctx.sample(json!({"encrypt_case": wit(&ke, &id, &msg, Some(&r))}));
            }
        }
    }
    // --- messages and identities beyond the 256-block / 2^16-bit / 2^16-byte thresholds (KDF counter bytes, SM3 length
    // field, truncating casts)
    {
        let mut pl = ctx.prng("long");
        let cases: [(usize, usize); 8] = [(8129, 3), (8160, 3), (8161, 5), (8193, 8186), (70001, 4), (33, 8192), (256, 20000), (65536, 70001)];
        let reps = ctx.n(1, 4);
        for rep in 0..reps {
            for (ci, (mlen, idl)) in cases.iter().enumerate() {
                let sub = pl.next();
                if !ctx.mine((ci as u64) * 2 + rep + 3) {
                    continue;
                }
                let mut p = Prng::new(sub, "lg");
                let ke = scalar_for(&mut p, 100);
                let id = p.bytes(*idl);
                let msg = p.bytes(*mlen);
                let r = rand_scalar(&mut p, &(&pr.n - 1u32));
                ctx.class("long_msg_or_id");
                if *mlen > 8160 {
                    ctx.class("kdf_beyond_255_blocks");
                }
                if *idl >= 8186 {
                    ctx.class("id_beyond_2^16_bits");
                }
                enc_case(ctx, &ke, &id, &msg, if ci % 2 == 0 { Some(&r) } else { None }, "long");
            }
        }
    }
    ctx.exhaustive("message lengths 1..=255", true);
    // --- identities containing NUL bytes, trailing blanks or newlines, non-UTF-8 bytes: an identity is a byte string and is
    // hashed exactly as given
    {
        let mut pl = ctx.prng("nul_ids");
        for (k, id) in [b"Bob\0".to_vec(), b"\0Bob".to_vec(), b"Bo\0b".to_vec(), vec![0u8], vec![0u8; 4], b"Bob\0\0".to_vec(), b"Bob ".to_vec(), b" Bob".to_vec(), b"Bob\n".to_vec(), vec![0xffu8, 0xfe, 0x80], b"Alice\x01".to_vec(), b"Alice\x02".to_vec(), b"Alice\x03".to_vec(), vec![1u8], vec![3u8]].iter().enumerate() {
            let sub = pl.next();
            if !ctx.mine(k as u64) {
                continue;
            }
            let mut p = Prng::new(sub, "ni");
            let ke = rand_scalar(&mut p, &(&pr.n - 1u32));
            let r = rand_scalar(&mut p, &(&pr.n - 1u32));
            let msg = p.bytes(21);
            ctx.class("id_with_nul_bytes");
            enc_case(ctx, &ke, id, &msg, Some(&r), "id_with_nul_bytes");
        }
    }
    // --- identity lengths 0..=130 (the inputs of H1 and of the KDF, 452 + |ID| bytes, take every residue modulo the block
    // size of the hash underneath)
    {
        let mut pl = ctx.prng("id_sweep");
        for len in 0..=130u64 {
            let sub = pl.next();
            if !ctx.mine(len) {
                continue;
            }
            let mut p = Prng::new(sub, "ls");
            let ke = rand_scalar(&mut p, &(&pr.n - 1u32));
            let r = rand_scalar(&mut p, &(&pr.n - 1u32));
            let (id, msg) = (p.bytes(len as usize), p.bytes(19));
            ctx.class("id_length_sweep");
            enc_case(ctx, &ke, &id, &msg, Some(&r), "id_length_sweep");
        }
        ctx.exhaustive("identity lengths 0..=130", true);
    }
    // --- many calls in one process (call-count dependent faults): 300 decryptions of one valid ciphertext, every 25th one
    // with a flipped C2 bit; 100 encryptions with injected r compared with the reference
    if ctx.shard == 0 {
        let mut pm = ctx.prng("many");
        let ke = rand_scalar(&mut pm, &(&pr.n - 1u32));
        let id = b"many-calls".to_vec();
        let msg = pm.bytes(33);
        let r = rand_scalar(&mut pm, &(&pr.n - 1u32));
        if let (Some(ct), Some(key)) = (r9::encrypt(&ke, &id, &msg, &r), enc_key_from_ref(&ke, &id, r9::HID_ENC)) {
            let mut bad = ct.clone();
            let l = bad.len();
            bad[l - 1] ^= 1;
            for i in 0..300u32 {
                ctx.eval();
                ctx.class("many_calls_one_process");
                let tam = i % 25 == 24;
                let o = guard(|| key.decrypt(&id, if tam { &bad } else { &ct }));
                match (tam, &o) {
                    (false, Outcome::Ret(Ok(m))) if *m == msg => {}
                    (true, Outcome::Ret(Err(_))) => {}
                    _ => {
                        ctx.violation(&format!("decrypt:call-number-dependent:{}", if tam { "tampered-accepted-or-crash" } else { "valid-rejected-or-wrong" }), json!({"call_number": i, "case": wit(&ke, &id, &msg, Some(&r))}));
                        break;
                    }
                }
            }
            let mk = enc_master(&ke);
            for i in 0..100u32 {
                let r2_ = rand_scalar(&mut pm, &(&pr.n - 1u32));
                ctx.eval();
                ctx.class("many_calls_one_process");
                rng_prepare(&[&r2_]);
                let o = guard(|| mk.encrypt(&id, &msg));
                let seen = rng_seen();
                match (&o, seen.accepted.last()) {
                    (Outcome::Ret(c), Some(used)) => {
                        if let Some(e) = r9::encrypt(&ke, &id, &msg, used) {
                            if *c != e {
                                ctx.violation("encrypt:call-number-dependent:ciphertext-differs-from-standard", json!({"call_number": i, "case": wit(&ke, &id, &msg, Some(used))}));
                                break;
                            }
                        }
                    }
                    _ => {
                        ctx.violation("encrypt:call-number-dependent:crash", json!({"call_number": i}));
                        break;
                    }
                }
            }
        }
    } else {
        ctx.class("many_calls_one_process");
    }
    // --- two master keys, same identity: decryptions interleaved on one thread must not depend on history
    let nh = ctx.n(4, 100);
    let mut prng = ctx.prng("interleave");
    for i in 0..nh {
        let sub = prng.next();
        if !ctx.mine(i) {
            continue;
        }
        let mut p = Prng::new(sub, "i");
        let (kea, keb) = (rand_scalar(&mut p, &(&pr.n - 1u32)), rand_scalar(&mut p, &(&pr.n - 1u32)));
        // every other history: opposite master keys keB = N - keA (public keys P and -P share their x coordinate)
        let keb = if i % 2 == 1 { &pr.n - &kea } else { keb };
        let id = p.bytes(6);
        let (ma, mb) = (p.bytes(30), p.bytes(30));
        let (ra, rb) = (rand_scalar(&mut p, &(&pr.n - 1u32)), rand_scalar(&mut p, &(&pr.n - 1u32)));
        let (Some(cta), Some(ctb)) = (r9::encrypt(&kea, &id, &ma, &ra), r9::encrypt(&keb, &id, &mb, &rb)) else { continue };
        let (Some(ka), Some(kb)) = (enc_key_from_ref(&kea, &id, r9::HID_ENC), enc_key_from_ref(&keb, &id, r9::HID_ENC)) else { continue };
        let script: [(bool, bool); 7] = [(true, true), (false, false), (true, true), (false, true), (false, false), (true, false), (true, true)];
        for (step, (use_a_key, use_a_ct)) in script.iter().enumerate() {
            ctx.eval();
            ctx.class("interleaved_keys_decrypt");
            let key = if *use_a_key { &ka } else { &kb };
            let (ct, m) = if *use_a_ct { (&cta, &ma) } else { (&ctb, &mb) };
            let o = guard(|| key.decrypt(&id, ct));
            let ok = match (&o, use_a_key == use_a_ct) {
                (Outcome::Ret(Ok(got)), true) => got == m,
                (Outcome::Ret(Err(_)), false) => true,
                _ => false,
            };
            if !ok {
                ctx.violation(&format!("decrypt:interleaved-keys:{}:{}", if use_a_key == use_a_ct { "valid-not-decrypted" } else { "wrong-key-not-rejected" }, oc(&o)), json!({"keA": hex::encode(r9::b32(&kea)), "keB": hex::encode(r9::b32(&keb)), "id": hx(&id), "step": step}));
                break;
            }
        }
    }
    // --- encryption under two master keys alternately on one thread; every other pair opposite (ke, N - ke)
    {
        let nh = ctx.n(4, 64);
        let mut pe = ctx.prng("interleave_enc");
        for i in 0..nh {
            let sub = pe.next();
            if !ctx.mine(i) {
                continue;
            }
            let mut p = Prng::new(sub, "ie");
            let kea = rand_scalar(&mut p, &(&pr.n - 1u32));
            let keb = if i % 2 == 0 { &pr.n - &kea } else { rand_scalar(&mut p, &(&pr.n - 1u32)) };
            let id = p.bytes(5);
            for step in 0..4 {
                let r = rand_scalar(&mut p, &(&pr.n - 1u32));
                let msg = p.bytes(17);
                ctx.class("interleaved_keys_encrypt");
                enc_case(ctx, if step % 2 == 0 { &kea } else { &keb }, &id, &msg, Some(&r), "interleaved_keys_encrypt");
            }
        }
    }
    // --- tamper samples (same on every shard, fault space partitioned)
    let nt = ctx.n(2, 40);
    let mut prng = ctx.prng("tamper");
    let mut fidx = 0u64;
    for i in 0..nt {
        let ke = scalar_for(&mut prng, 100);
        let idl = prng.range(1, 16);
        let id = prng.bytes(idl);
        let ml = if i == 0 { 21 } else { prng.range(1, 48) };
        let msg = prng.bytes(ml);
        let mut r = rand_scalar(&mut prng, &(&pr.n - 1u32));
        let sub = prng.next();
        if i % 2 == 0 {
            // a sample whose C1.x (or y) has an alias x + p below 2^256
            let two256: BigUint = BigUint::from(1u32) << 256;
            let qb = r9::g1_add(&r9::g1_mul(&r9::h1(&id, r9::HID_ENC), &r9::g1_gen()), &r9::g1_mul(&ke, &r9::g1_gen()));
            for _ in 0..40 {
                let c1 = r9::g1_mul(&r, &qb).unwrap();
                if &c1.0 + &pr.p < two256 || &c1.1 + &pr.p < two256 {
                    break;
                }
                r = rand_scalar(&mut prng, &(&pr.n - 1u32));
            }
        }
        let (Some(ct), Some(key)) = (r9::encrypt(&ke, &id, &msg, &r), enc_key_from_ref(&ke, &id, r9::HID_ENC)) else { continue };
        let s = Sample { ke, id, msg, ct, key };
        let mut p = Prng::new(sub, "t");
        fault_space(ctx, &s, &mut p, &mut fidx);
        if i == 0 && ctx.shard == 0 {
            ctx.sample(json!({"tamper_sample": {"case": wit(&s.ke, &s.id, &s.msg, None), "ct": hx(&s.ct)}, "faults": "every bit flip, every truncation, changed identity, crafted C1 ((0,0), off-curve, illegal PC byte) with a tag computed from the library's own pairing, substituted C1, zeroed C3"}));
        }
    }
    ctx.exhaustive("every single-bit flip and truncation of each tamper sample", true);
    let _ = Zero::is_zero(&BigUint::zero());
}

/// One-time search (never run by a check): r values for which K1 of a 1-byte (and 2-byte) message is all zero.
pub fn tool_k1_zero_search() {
    let pr = r9::params();
    let ke = r9::hexn("0001EDEE3778F441F8DEA3D9FA0ACC4E07EE36C93F9A08618AF4AD85CEDE1C22");
    let id = b"Bob";
    let ppube = r9::g1_mul(&ke, &r9::g1_gen()).unwrap();
    let qb = r9::g1_add(&r9::g1_mul(&r9::h1(id, r9::HID_ENC), &r9::g1_gen()), &Some(ppube.clone()));
    let g = r9::pairing(&ppube, &pr.p2).unwrap();
    let mut out = vec![];
    let mut r = BigUint::from(1000u32);
    while out.len() < 3 {
        r += 1u32;
        let c1 = r9::g1_mul(&r, &qb).unwrap();
        let w = r9::f12pow(&g, &r);
        let mut z = r9::pt_bytes(&c1);
        z.extend_from_slice(&r9::f12bytes(&w));
        z.extend_from_slice(id);
        let k = r3::kdf(&z, 33);
        if k[0] == 0 {
            out.push(json!({"ke": hex::encode(r9::b32(&ke)), "id": hex::encode(id), "r": hex::encode(r9::b32(&r)), "mlen": 1}));
        }
    }
    println!("{}", serde_json::to_string_pretty(&json!({"k1_zero": out})).unwrap());
}
