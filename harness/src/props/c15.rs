//! C15 — SM2 key agreement: both sides agree, conform to GB/T 32918.3, detect tampering.
use crate::mon::{guard, hx, Ctx, Outcome, Prng};
use crate::refs::sm2 as r2;
use crate::sm2x::*;
use gm_sm2::exchange::Exchange;
use gm_sm2::p256_ecc::Point;
use gm_sm2::verif_hooks as hk;
use num_bigint::BigUint;
use num_traits::{One, Zero};
use serde_json::json;

#[derive(Clone, Copy, Debug, PartialEq)]
enum Kind {
    OtherPoint,
    Negated,
    OffCurve,
    BitFlipHash,
    /// hashes: a byte permutation of the genuine value (reversed / rotated / two bytes swapped); points: other point
    PermutedHash,
    /// hashes: all 00 or all ff ("field not sent"); points: other point
    ConstantHash,
}

struct Case {
    da: BigUint,
    db: BigUint,
    ida: String,
    idb: String,
    klen: usize,
    ra: BigUint,
    rb: BigUint,
    /// bit 0: R_A, 1: R_B, 2: S_B, 3: S_A tampered in transit
    subset: u8,
    kind: Kind,
    /// honest run in which A calls exchange_1 twice and B calls exchange_2 twice (the later call counts)
    repeat: bool,
}

fn wit(c: &Case) -> serde_json::Value {
    json!({"dA": hex::encode(r2::b32(&c.da)), "dB": hex::encode(r2::b32(&c.db)), "idA": c.ida, "idB": c.idb, "klen": c.klen, "rA": hex::encode(r2::b32(&c.ra)), "rB": hex::encode(r2::b32(&c.rb)), "tampered_subset(RA,RB,SB,SA)": format!("{:04b}", c.subset), "kind": format!("{:?}", c.kind)})
}

fn tamper_point(pt: &(BigUint, BigUint), kind: Kind, p: &mut Prng) -> (BigUint, BigUint) {
    let c = r2::curve();
    match kind {
        Kind::OtherPoint | Kind::BitFlipHash | Kind::PermutedHash | Kind::ConstantHash => r2::mul(&rand_scalar(p, &c.n), &r2::g()).unwrap(),
        Kind::Negated => r2::neg(&Some(pt.clone())).unwrap(),
        Kind::OffCurve => (pt.0.clone(), (&pt.1 + 1u32) % &c.p),
    }
}

fn tamper_hash(h: &[u8; 32], p: &mut Prng, kind: Kind) -> [u8; 32] {
    let mut o = *h;
    if kind == Kind::ConstantHash {
        let v = if p.below(2) == 0 { [0u8; 32] } else { [0xffu8; 32] };
        return if v == *h { [0x55; 32] } else { v };
    }
    if kind == Kind::PermutedHash {
        match p.below(4) {
            0 => o.reverse(),
            1 => o.rotate_left(1 + p.below(31) as usize),
            2 => {
                let (a, b) = (p.below(32) as usize, p.below(32) as usize);
                o.swap(a, b);
            }
            _ => {
                // two different bytes XORed with the same mask: the XOR of all byte differences is zero
                let (a, b) = (p.below(16) as usize, 16 + p.below(16) as usize);
                let m = 1 + p.below(255) as u8;
                o[a] ^= m;
                o[b] ^= m;
            }
        }
        if o == *h {
            o[0] ^= 1;
        }
        return o;
    }
    let k = p.below(256) as usize;
    o[k / 8] ^= 1 << (k % 8);
    o
}

fn lib_point(pt: &(BigUint, BigUint), p: &mut Prng, rerandomise: bool) -> Point {
    let lam = if rerandomise { rand_scalar(p, &r2::curve().p) } else { BigUint::one() };
    r2::to_lib_point(pt, &lam)
}

fn history(ctx: &mut Ctx, c: &Case, p: &mut Prng) {
    let cur = r2::curve();
    // key objects by provenance (constructor / gen_keypair / Jacobian public point)
    let how = (c.klen as u64 + c.subset as u64) % 3;
    ctx.class(provenance(how));
    let (Some((_, ska)), Some((_, skb))) = (lib_keys(&c.da, how, p), lib_keys(&c.db, how + 1, p)) else {
        ctx.violation("Sm2PrivateKey::new:d-in-[1,n-2]:not-ok", wit(c));
        return;
    };
    let pa = r2::mul(&c.da, &r2::g()).unwrap();
    let pb = r2::mul(&c.db, &r2::g()).unwrap();
    let (za, zb) = (r2::za(c.ida.as_bytes(), &pa), r2::za(c.idb.as_bytes(), &pb));
    ctx.class(&format!("subset={:04b}", c.subset));
    if c.subset != 0 {
        ctx.class(&format!("kind={:?}", c.kind));
    }
    ctx.distinct("hist", &[&r2::b32(&c.da), &r2::b32(&c.db), c.ida.as_bytes(), c.idb.as_bytes(), &(c.klen as u32).to_be_bytes(), &r2::b32(&c.ra), &r2::b32(&c.rb), &[c.subset, c.kind as u8]]);
    // an identity equal to the default ID is passed as `None` (the API's way of saying "default ID")
    let opt = |s: &'static str| if s == "1234567812345678" { None } else { Some(s) };
    let (ida_s, idb_s): (&'static str, &'static str) = (leak(c.ida.clone()), leak(c.idb.clone()));
    let mk = |own: &gm_sm2::key::Sm2PrivateKey, own_id: &'static str, peer: &gm_sm2::key::Sm2PrivateKey, peer_id: &'static str| guard(|| Exchange::new(c.klen, opt(own_id), &own.public_key, own, opt(peer_id), &peer.public_key));
    ctx.eval();
    let (mut a, mut b) = match (mk(&ska, ida_s, &skb, idb_s), mk(&skb, idb_s, &ska, ida_s)) {
        (Outcome::Ret(Ok(a)), Outcome::Ret(Ok(b))) => (a, b),
        _ => {
            ctx.violation("Exchange::new:valid-keys:not-ok", wit(c));
            return;
        }
    };
    // ---- step 1 (A)
    ctx.eval();
    if c.repeat && c.subset == 0 {
        // a first call whose result is discarded: the later call must stand on its own
        let r0 = (&c.ra + 12345u32) % &cur.n;
        rng_prepare(&[&r0]);
        match guard(|| a.exchange_1()) {
            Outcome::Ret(Ok(_)) => ctx.class("step_repeated"),
            _ => {
                ctx.class("step_repeated_refused");
                return;
            }
        }
    }
    rng_prepare(&[&c.ra]);
    let ra_lib = match guard(|| a.exchange_1()) {
        Outcome::Ret(Ok(p)) => p,
        o => {
            ctx.violation(&format!("exchange_1:{}", o.class()), wit(c));
            return;
        }
    };
    let seen = rng_seen();
    if seen.accepted.last() != Some(&c.ra) {
        ctx.violation("exchange_1:injected-valid-rA-not-used", wit(c));
        return;
    }
    let ra_ref = r2::mul(&c.ra, &r2::g()).unwrap();
    if r2::from_lib_point(&ra_lib) != Some(ra_ref.clone()) {
        ctx.violation("exchange_1:R_A!=[rA]G", wit(c));
        return;
    }
    // transit A -> B
    let ra_b = if c.subset & 1 != 0 { tamper_point(&ra_ref, c.kind, p) } else { ra_ref.clone() };
    // an honest R may reach the peer in any Jacobian representation of the same point
    let rerand = c.klen % 3 == 1;
    if rerand {
        ctx.class("honest_R_rerandomised_representation");
    }
    let ra_b_lib = if c.subset & 1 != 0 { lib_point(&ra_b, p, false) } else if rerand { lib_point(&ra_ref, p, true) } else { ra_lib };
    // reference views
    let rb_ref = r2::mul(&c.rb, &r2::g()).unwrap();
    let ref_b = r2::exchange(&c.db, &c.rb, &rb_ref, &pa, &ra_b, &za, &zb, false, c.klen);
    // ---- step 2 (B)
    ctx.eval();
    if c.repeat && c.subset == 0 {
        let r0 = (&c.rb + 54321u32) % &cur.n;
        rng_prepare(&[&r0]);
        match guard(|| b.exchange_2(&ra_b_lib)) {
            Outcome::Ret(Ok(_)) => ctx.class("step_repeated"),
            _ => {
                ctx.class("step_repeated_refused");
                return;
            }
        }
    }
    rng_prepare(&[&c.rb]);
    let o2 = guard(|| b.exchange_2(&ra_b_lib));
    let seen = rng_seen();
    let (rb_lib, sb_lib) = match (o2, &ref_b) {
        (Outcome::Ret(Err(_)), None) => {
            ctx.class("step2_rejects_invalid_RA");
            return;
        }
        (Outcome::Ret(Ok(_)), None) => {
            ctx.violation("exchange_2:invalid-R_A:accepted", wit(c));
            return;
        }
        (Outcome::Ret(Ok(v)), Some(_)) => v,
        (o, _) => {
            let cl = if let Outcome::Ret(Err(_)) = &o { "err" } else { o.class() };
            ctx.violation(&format!("exchange_2:valid-R_A:{}", cl), wit(c));
            return;
        }
    };
    let ref_b = ref_b.unwrap();
    if seen.accepted.last() != Some(&c.rb) {
        ctx.violation("exchange_2:injected-valid-rB-not-used", wit(c));
        return;
    }
    if r2::from_lib_point(&rb_lib) != Some(rb_ref.clone()) {
        ctx.violation("exchange_2:R_B!=[rB]G", wit(c));
        return;
    }
    if sb_lib != ref_b.s_b {
        ctx.violation("exchange_2:S_B-differs-from-standard", json!({"case": wit(c), "expected": hex::encode(ref_b.s_b), "actual": hex::encode(sb_lib)}));
        return;
    }
    let kb = hk::exchange_key(&b);
    if kb.as_deref() != Some(&ref_b.key[..]) {
        ctx.violation(&format!("exchange_2:{}", if kb.as_ref().map(|k| k.len()) != Some(c.klen) { "K_B-wrong-length" } else { "K_B-differs-from-standard" }), json!({"case": wit(c), "expected": hx(&ref_b.key), "actual": kb.map(|k| hx(&k))}));
        return;
    }
    // transit B -> A
    let rb_a = if c.subset & 2 != 0 { tamper_point(&rb_ref, c.kind, p) } else { rb_ref.clone() };
    let rb_a_lib = if c.subset & 2 != 0 { lib_point(&rb_a, p, false) } else if rerand { lib_point(&rb_ref, p, true) } else { rb_lib };
    let sb_a = if c.subset & 4 != 0 { tamper_hash(&sb_lib, p, c.kind) } else { sb_lib };
    let ref_a = r2::exchange(&c.da, &c.ra, &ra_ref, &pb, &rb_a, &za, &zb, true, c.klen);
    // ---- step 3 (A)
    ctx.eval();
    let o3 = guard(|| a.exchange_3(&rb_a_lib, sb_a));
    let a_should_accept = match &ref_a {
        None => false,
        Some(r) => r.s_b == sb_a,
    };
    let sa_lib = match (o3, a_should_accept) {
        (Outcome::Ret(Err(_)), false) => {
            ctx.class("step3_rejects");
            return;
        }
        (Outcome::Ret(Ok(_)), false) => {
            ctx.violation(&format!("exchange_3:tampered({:04b},{:?}):accepted", c.subset & 7, c.kind), wit(c));
            return;
        }
        (Outcome::Ret(Ok(v)), true) => v,
        (o, _) => {
            let cl = if let Outcome::Ret(Err(_)) = &o { "err" } else { o.class() };
            ctx.violation(&format!("exchange_3:honest-so-far:{}", cl), wit(c));
            return;
        }
    };
    let ref_a = ref_a.unwrap();
    if sa_lib != ref_a.s_a {
        ctx.violation("exchange_3:S_A-differs-from-standard", json!({"case": wit(c), "expected": hex::encode(ref_a.s_a), "actual": hex::encode(sa_lib)}));
        return;
    }
    let ka = hk::exchange_key(&a);
    if ka.as_deref() != Some(&ref_a.key[..]) {
        ctx.violation("exchange_3:K_A-differs-from-standard", json!({"case": wit(c), "expected": hx(&ref_a.key), "actual": ka.map(|k| hx(&k))}));
        return;
    }
    // transit A -> B
    let sa_b = if c.subset & 8 != 0 { tamper_hash(&sa_lib, p, c.kind) } else { sa_lib };
    // ---- step 4 (B)
    ctx.eval();
    let o4 = guard(|| b.exchange_4(sa_b, &ra_b_lib));
    let b_should_accept = ref_b.s_a == sa_b;
    match (o4, b_should_accept) {
        (Outcome::Ret(Ok(true)), true) => {
            ctx.class("both_accept");
            if c.subset != 0 {
                ctx.violation(&format!("exchange:tampered({:04b},{:?}):both-sides-accept", c.subset, c.kind), wit(c));
            } else if ka != kb {
                ctx.violation("exchange:honest:keys-differ", wit(c));
            } else {
                ctx.class("honest_keys_equal");
            }
        }
        (Outcome::Ret(Ok(false)), false) | (Outcome::Ret(Err(_)), false) => ctx.class("step4_rejects"),
        (Outcome::Ret(Ok(true)), false) => ctx.violation(&format!("exchange_4:tampered({:04b},{:?}):accepted", c.subset, c.kind), wit(c)),
        (o, true) => {
            let cl = match &o {
                Outcome::Ret(Ok(false)) => "false",
                Outcome::Ret(Err(_)) => "err",
                o => o.class(),
            };
            ctx.violation(&format!("exchange_4:honest:{}", cl), wit(c));
        }
        (o, false) => ctx.violation(&format!("exchange_4:tampered:{}", o.class()), wit(c)),
    }
    // replays on the same objects after an honest run: an altered message must still be refused (nothing computed for the
    // genuine messages may stand in for the altered ones)
    if c.subset == 0 {
        let other = tamper_point(&rb_ref, Kind::OtherPoint, p);
        let other_lib = lib_point(&other, p, false);
        let would_accept = matches!(r2::exchange(&c.da, &c.ra, &ra_ref, &pb, &other, &za, &zb, true, c.klen), Some(r) if r.s_b == sb_lib);
        ctx.eval();
        ctx.class("replay_step3_with_altered_RB_after_honest_run");
        match guard(|| a.exchange_3(&other_lib, sb_lib)) {
            Outcome::Ret(Ok(_)) if !would_accept => ctx.violation("exchange_3:replay-with-altered-R_B-after-honest-run:accepted", wit(c)),
            Outcome::Ret(_) => {}
            o => ctx.violation(&format!("exchange_3:replay-with-altered-R_B-after-honest-run:{}", o.class()), wit(c)),
        }
        let bad = tamper_hash(&sa_lib, p, Kind::BitFlipHash);
        ctx.eval();
        ctx.class("replay_step4_with_altered_SA_after_honest_run");
        match guard(|| b.exchange_4(bad, &ra_b_lib)) {
            Outcome::Ret(Ok(true)) => ctx.violation("exchange_4:replay-with-altered-S_A-after-honest-run:accepted", wit(c)),
            Outcome::Ret(_) => {}
            o => ctx.violation(&format!("exchange_4:replay-with-altered-S_A-after-honest-run:{}", o.class()), wit(c)),
        }
    }
    let _ = cur;
}

/// B's side alone for an arbitrary VALID point as R_A (its discrete logarithm need not be known): B must answer with
/// the standard's R_B, S_B and key.
fn responder_with_point(ctx: &mut Ctx, c: &Case, ra_pt: &(BigUint, BigUint), cls: &str) {
    let (Some(ska), Some(skb)) = (lib_sk(&c.da), lib_sk(&c.db)) else { return };
    let pa = r2::mul(&c.da, &r2::g()).unwrap();
    let pb = r2::mul(&c.db, &r2::g()).unwrap();
    let (za, zb) = (r2::za(c.ida.as_bytes(), &pa), r2::za(c.idb.as_bytes(), &pb));
    let w = json!({"case": wit(c), "class": cls, "R_A": hex::encode(r2::encode(ra_pt, false))});
    ctx.eval();
    ctx.class(cls);
    ctx.distinct("resp", &[&r2::b32(&ra_pt.0), &r2::b32(&c.db), &r2::b32(&c.rb)]);
    let Outcome::Ret(Ok(mut b)) = guard(|| Exchange::new(c.klen, Some(&c.idb), &skb.public_key, &skb, Some(&c.ida), &ska.public_key)) else {
        ctx.violation("Exchange::new:valid-keys:not-ok", w);
        return;
    };
    let rb_ref = r2::mul(&c.rb, &r2::g()).unwrap();
    let Some(refb) = r2::exchange(&c.db, &c.rb, &rb_ref, &pa, ra_pt, &za, &zb, false, c.klen) else { return };
    rng_prepare(&[&c.rb]);
    let o = guard(|| b.exchange_2(&r2::to_lib_point(ra_pt, &BigUint::one())));
    let seen = rng_seen();
    match o {
        Outcome::Ret(Ok((rb_lib, sb))) if seen.accepted.last() == Some(&c.rb) => {
            let kb = hk::exchange_key(&b);
            if r2::from_lib_point(&rb_lib) != Some(rb_ref) || sb != refb.s_b || kb.as_deref() != Some(&refb.key[..]) {
                ctx.violation(&format!("exchange_2:{}:differs-from-standard", cls), w);
            }
        }
        Outcome::Ret(Ok(_)) => {}
        o => {
            let cl = if let Outcome::Ret(Err(_)) = &o { "err" } else { o.class() };
            ctx.violation(&format!("exchange_2:{}:valid-R_A:{}", cls, cl), w);
        }
    }
}

pub fn run(ctx: &mut Ctx) {
    for (n, ok) in r2::selftest() {
        ctx.selftest(&n, ok);
    }
    ctx.require(&["annex_kat", "honest_keys_equal", "step2_rejects_invalid_RA", "step3_rejects", "step4_rejects", "klen=1", "klen=16", "klen=200", "kind=OffCurve", "kind=Negated", "kind=OtherPoint", "kind=BitFlipHash", "kind=PermutedHash", "kind=ConstantHash", "klen_needs_more_than_255_kdf_blocks", "honest_R_rerandomised_representation", "id_non_ascii_utf8", "key_from_gen_keypair", "key_with_jacobian_public_point", "degenerate_dA_shared_point_infinity_at_B", "degenerate_dB_shared_point_infinity_at_A", "coincident_dA_P_eq_xbarR_doubling_at_B", "coincident_dB_P_eq_xbarR_doubling_at_A", "crafted_valid_R_A", "derived_key_all_zero", "same_static_key_both_parties", "same_id_both_parties", "many_calls_one_process", "id_length_sweep", "shared_point_coordinate_leading_zero", "one_party_default_id_as_None", "same_ephemeral_both_parties"]);
    for s in 0..16 {
        ctx.required.push(format!("subset={:04b}", s));
    }
    let c = r2::curve();
    let mut paux = ctx.prng("aux");
    if ctx.shard == 0 {
        let case = Case {
            da: r2::hexn("81EB26E941BB5AF16DF116495F90695272AE2CD63D6C4AE1678418BE48230029"),
            db: r2::hexn("785129917D45A9EA5437A59356B82338EAADDA6CEB199088F14AE10DEFA229B5"),
            ida: "1234567812345678".into(),
            idb: "1234567812345678".into(),
            klen: 16,
            ra: r2::hexn("D4DE15474DB74D06491C440D305E012400990F3E390C7E87153C12DB2EA60BB3"),
            rb: r2::hexn("7E07124814B309489125EAED101113164EBF0F3458C5BD88335C1F9D596243D6"),
            subset: 0,
            kind: Kind::OtherPoint,
            repeat: false,
        };
        ctx.class("annex_kat");
        history(ctx, &case, &mut paux);
        ctx.sample(json!({"annex": {"K": "6C89347354DE2484C60B4AB1FDE4C6E5", "S_B": "D3A0FE15..F8EB", "S_A": "18C7894B..DB88"}}));
    }
    // --- the convenience constructor build_ex_pair (fresh key pairs inside): honest run must agree and confirm
    if ctx.shard == 0 {
        for klen in [1usize, 16, 48] {
            ctx.eval();
            ctx.class("build_ex_pair");
            rng_prepare(&[]);
            let r = guard(|| {
                let (mut a, mut b) = gm_sm2::exchange::build_ex_pair(klen, "alice@example", "bob@example").ok()?;
                let ra = a.exchange_1().ok()?;
                let (rb, sb) = b.exchange_2(&ra).ok()?;
                let sa = a.exchange_3(&rb, sb).ok()?;
                let ok = b.exchange_4(sa, &ra).ok()?;
                Some((ok, hk::exchange_key(&a), hk::exchange_key(&b)))
            });
            match r {
                Outcome::Ret(Some((true, Some(ka), Some(kb)))) if ka == kb && ka.len() == klen => {}
                o => ctx.violation("build_ex_pair:honest-run:failed", json!({"klen": klen, "outcome": format!("{:?}", o.class())})),
            }
        }
    }
    // --- R_A crafted so that an addition of B's on-curve test lands on a carry / reduction boundary (valid points)
    {
        let mut pc = ctx.prng("crafted_pts");
        let reps = ctx.n(1, 8);
        for _ in 0..reps {
            let sub = pc.next();
            let mut q = Prng::new(sub, "cp");
            for (name, pt) in crafted_points_sharded(&mut q, 1, ctx.shard as u64, ctx.nshards as u64) {
                let case = Case {
                    da: rand_scalar(&mut q, &(&c.n - 1u32)),
                    db: rand_scalar(&mut q, &(&c.n - 1u32)),
                    ida: ascii_id(&mut q, 8),
                    idb: ascii_id(&mut q, 9),
                    klen: 1 + q.below(64) as usize,
                    ra: BigUint::zero(),
                    rb: rand_scalar(&mut q, &c.n),
                    subset: 0,
                    kind: Kind::OtherPoint,
                    repeat: false,
                };
                ctx.class(&format!("crafted:{}", name));
                responder_with_point(ctx, &case, &pt, "crafted_valid_R_A");
            }
        }
    }
    // --- an honest run whose derived key happens to be all zero (klen = 1: one r_B in 256): GB/T 32918.3 has no
    // "key must be non-zero" step, so the run must succeed like any other. r_B is searched with the reference.
    {
        let reps = ctx.n(1, 8);
        let mut pz = ctx.prng("zero_key");
        for rep in 0..reps {
            let sub = pz.next();
            if !ctx.mine(rep + 5) {
                continue;
            }
            let mut q = Prng::new(sub, "zk");
            let (da, db) = (rand_scalar(&mut q, &(&c.n - 1u32)), rand_scalar(&mut q, &(&c.n - 1u32)));
            let (ida, idb) = (ascii_id(&mut q, 5), ascii_id(&mut q, 7));
            let ra = rand_scalar(&mut q, &c.n);
            let (pa, pb) = (r2::mul(&da, &r2::g()).unwrap(), r2::mul(&db, &r2::g()).unwrap());
            let (za, zb) = (r2::za(ida.as_bytes(), &pa), r2::za(idb.as_bytes(), &pb));
            let ra_pt = r2::mul(&ra, &r2::g()).unwrap();
            let mut found = None;
            for _ in 0..6000 {
                let rb = rand_scalar(&mut q, &c.n);
                let rb_pt = r2::mul(&rb, &r2::g()).unwrap();
                if let Some(o) = r2::exchange(&db, &rb, &rb_pt, &pa, &ra_pt, &za, &zb, false, 1) {
                    if o.key == [0u8] {
                        found = Some(rb);
                        break;
                    }
                }
            }
            let Some(rb) = found else { continue };
            let case = Case { da, db, ida, idb, klen: 1, ra, rb, subset: 0, kind: Kind::OtherPoint, repeat: false };
            ctx.class("derived_key_all_zero");
            history(ctx, &case, &mut q);
            if rep == 0 {
                ctx.sample(json!({"derived_key_all_zero": wit(&case)}));
            }
        }
    }
    // --- r_B searched (by the reference) so that a coordinate of the shared point V begins with a zero byte (1 in 128)
    {
        let mut pz = ctx.prng("v_zero");
        for which in 0..2u64 {
            let sub = pz.next();
            if !ctx.mine(which + 9) {
                continue;
            }
            let mut q = Prng::new(sub, "vz");
            let (da, db) = (rand_scalar(&mut q, &(&c.n - 1u32)), rand_scalar(&mut q, &(&c.n - 1u32)));
            let (ida, idb) = (ascii_id(&mut q, 6), ascii_id(&mut q, 8));
            let ra = rand_scalar(&mut q, &c.n);
            let (pa, pb) = (r2::mul(&da, &r2::g()).unwrap(), r2::mul(&db, &r2::g()).unwrap());
            let (za, zb) = (r2::za(ida.as_bytes(), &pa), r2::za(idb.as_bytes(), &pb));
            let ra_pt = r2::mul(&ra, &r2::g()).unwrap();
            let mut found = None;
            for _ in 0..4000 {
                let rb = rand_scalar(&mut q, &c.n);
                let rb_pt = r2::mul(&rb, &r2::g()).unwrap();
                if let Some(o) = r2::exchange(&db, &rb, &rb_pt, &pa, &ra_pt, &za, &zb, false, 16) {
                    let b = if which == 0 { r2::b32(&o.shared.0) } else { r2::b32(&o.shared.1) };
                    if b[0] == 0 {
                        found = Some(rb);
                        break;
                    }
                }
            }
            let Some(rb) = found else { continue };
            let case = Case { da, db, ida, idb, klen: 16, ra, rb, subset: 0, kind: Kind::OtherPoint, repeat: false };
            ctx.class("shared_point_coordinate_leading_zero");
            history(ctx, &case, &mut q);
        }
    }
    // --- identity lengths 0..=130 for either party: the hash input of Z_A / Z_B (194 + |ID| bytes) then takes every
    // residue modulo the SM3 block size, including the padding corner cases of the hash underneath
    {
        let mut pi = ctx.prng("id_sweep");
        for len in 0..=130usize {
            let sub = pi.next();
            if !ctx.mine(len as u64) {
                continue;
            }
            let mut q = Prng::new(sub, "ids");
            let (ida, idb) = if len % 2 == 0 { (ascii_id(&mut q, len), ascii_id(&mut q, 9)) } else { (ascii_id(&mut q, 7), ascii_id(&mut q, len)) };
            let case = Case { da: rand_scalar(&mut q, &(&c.n - 1u32)), db: rand_scalar(&mut q, &(&c.n - 1u32)), ida, idb, klen: 16, ra: rand_scalar(&mut q, &c.n), rb: rand_scalar(&mut q, &c.n), subset: 0, kind: Kind::OtherPoint, repeat: false };
            ctx.class("id_length_sweep");
            history(ctx, &case, &mut q);
        }
        ctx.exhaustive("identity lengths 0..=130 (alternating parties)", true);
    }
    // --- many runs in one process (call-count dependent faults): 300 honest exchanges with fresh scalars
    if ctx.shard == 0 {
        let mut pm = ctx.prng("many");
        let (da, db) = (rand_scalar(&mut pm, &(&c.n - 1u32)), rand_scalar(&mut pm, &(&c.n - 1u32)));
        for _ in 0..300u32 {
            let case = Case { da: da.clone(), db: db.clone(), ida: "many-A".into(), idb: "many-B".into(), klen: 16, ra: rand_scalar(&mut pm, &c.n), rb: rand_scalar(&mut pm, &c.n), subset: 0, kind: Kind::OtherPoint, repeat: false };
            ctx.class("many_calls_one_process");
            let before = ctx.violations.len();
            history(ctx, &case, &mut pm);
            if ctx.violations.len() != before {
                break;
            }
        }
    } else {
        ctx.class("many_calls_one_process");
    }
    let n = ctx.n(600, 40_000);
    let mut prng = ctx.prng("hist");
    let kinds = [Kind::OtherPoint, Kind::Negated, Kind::OffCurve, Kind::BitFlipHash, Kind::PermutedHash, Kind::ConstantHash];
    for i in 0..n {
        let sub = prng.next();
        if !ctx.mine(i) {
            continue;
        }
        let mut p = Prng::new(sub, "h");
        let klen = match i % 10 {
            0 => 1,
            1 => 16,
            2 => 200,
            3 => 32,
            4 => 33,
            7 if i % 20 == 7 => [255usize, 256, 8160, 8161, 8193, 70_000, 2_100_000, (1 << 24) + 1][((i / 20) % 8) as usize],
            _ => p.range(1, 200),
        };
        ctx.class(&format!("klen={}", klen));
        if klen > 8160 {
            ctx.class("klen_needs_more_than_255_kdf_blocks");
        }
        let la = p.range(0, 40);
        let lb = p.range(1, 40);
        let (ida, idb) = if i % 5 == 2 {
            ctx.class("id_non_ascii_utf8");
            (utf8_id(&mut p, la.min(12)), utf8_id(&mut p, lb.min(12)))
        } else {
            (ascii_id(&mut p, la), ascii_id(&mut p, lb))
        };
        let mut case = Case {
            da: key_for(&mut p, i % 30),
            db: key_for(&mut p, (i / 3) % 45),
            ida,
            idb,
            klen,
            ra: rand_scalar(&mut p, &c.n),
            rb: rand_scalar(&mut p, &c.n),
            subset: if i % 3 == 0 { 0 } else { ((i / 3) % 16) as u8 },
            kind: kinds[((i / 48) % 6) as usize],
            repeat: i % 3 == 0 && i % 7 == 3,
        };
        // aliasing: both parties hold the same static key pair and / or the same identity
        if i % 50 == 13 || i % 50 == 41 {
            case.db = case.da.clone();
            ctx.class("same_static_key_both_parties");
        }
        if i % 50 == 29 || i % 50 == 41 {
            case.idb = case.ida.clone();
            ctx.class("same_id_both_parties");
        }
        // opposite static keys dB = n - dA (P_B = -P_A shares x with P_A), with the same identity
        if i % 50 == 3 || i % 50 == 37 {
            let dn = &c.n - &case.da;
            if !case.da.is_zero() && dn < &c.n - 1u32 {
                case.db = dn;
                case.idb = case.ida.clone();
                case.subset = 0;
                ctx.class("opposite_static_keys_same_id");
            }
        }
        // both parties happen to draw the same ephemeral scalar (R_B = R_A): an honest run like any other
        if i % 50 == 21 {
            case.rb = case.ra.clone();
            case.subset = 0;
            ctx.class("same_ephemeral_both_parties");
        }
        // exactly one party (or both) uses the default ID, handed to the API as `None`
        if i % 50 == 17 || i % 50 == 47 {
            case.ida = "1234567812345678".into();
            ctx.class("one_party_default_id_as_None");
        }
        if i % 50 == 33 || i % 50 == 47 {
            case.idb = "1234567812345678".into();
            ctx.class("one_party_default_id_as_None");
        }
        // degenerate static keys: d = -xbar(R) r mod n makes P + [xbar]R = O, so the peer's shared point is the
        // point at infinity and that peer must report failure (B at step 2 for A's key, A at step 3 for B's key)
        if i % 25 == 7 || i % 25 == 19 {
            let for_a = i % 25 == 7;
            let r = if for_a { case.ra.clone() } else { case.rb.clone() };
            let rp = r2::mul(&r, &r2::g()).unwrap();
            let d = (&c.n - (r2::xbar(&rp.0) * &r) % &c.n) % &c.n;
            if !d.is_zero() && d < &c.n - 1u32 {
                if for_a {
                    case.da = d;
                    ctx.class("degenerate_dA_shared_point_infinity_at_B");
                } else {
                    case.db = d;
                    ctx.class("degenerate_dB_shared_point_infinity_at_A");
                }
                case.subset = 0;
            }
        }
        // coincident static keys: d = +xbar(R) r mod n makes P = [xbar]R, so the peer's P + [xbar]R is a DOUBLING of two
        // different Jacobian representations of one point; the shared point is ordinary and the honest run must succeed
        if i % 25 == 11 || i % 25 == 23 {
            let for_a = i % 25 == 11;
            let r = if for_a { case.ra.clone() } else { case.rb.clone() };
            let rp = r2::mul(&r, &r2::g()).unwrap();
            let d = (r2::xbar(&rp.0) * &r) % &c.n;
            if !d.is_zero() && d < &c.n - 1u32 {
                if for_a {
                    case.da = d;
                    ctx.class("coincident_dA_P_eq_xbarR_doubling_at_B");
                } else {
                    case.db = d;
                    ctx.class("coincident_dB_P_eq_xbarR_doubling_at_A");
                }
                case.subset = 0;
            }
        }
        history(ctx, &case, &mut p);
        if i % 100 == 0 {
            ctx.sample(json!({"history": wit(&case)}));
        }
    }
    ctx.exhaustive("all 16 subsets of {R_A, R_B, S_B, S_A} tampered", true);
    ctx.note("the point at infinity as R has no encoding in the standard and is excluded from the must-fail set");
}
