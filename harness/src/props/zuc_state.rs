//! State-level monitor of the ZUC engine (used by C08 and C18): the library is started from crafted LFSR/FSM
//! register states through the `gm_rs_verif` hook and every single step is compared with the reference.
//! Key/IV loading reaches only a 2^-30-per-word sliver of the boundary states of the mod (2^31-1) feedback sum;
//! here the sum of the six (work mode) or seven (initialisation mode) terms is placed on and next to every
//! multiple of 2^31 and of 2^31-1.
use crate::mon::{guard, Ctx, Outcome, Prng};
use crate::refs::zuc as rzuc;
use gm_zuc::verif_hooks as zh;
use serde_json::json;

const P31: u64 = 0x7FFF_FFFF;

/// 31-bit cyclic left shift (the specification's "<<<_31")
fn rot31(a: u32, k: u32) -> u32 {
    (((a as u64) << k | (a as u64) >> (31 - k)) & P31) as u32
}
/// the cell whose rotation by k is the term t
fn cell_for_term(t: u32, k: u32) -> u32 {
    rot31(t, 31 - k)
}

fn cell(p: &mut Prng) -> u32 {
    match p.below(8) {
        0 => 1,
        1 => 0x7FFF_FFFF,
        2 => 0x7FFF_FFFE,
        3 => 0x4000_0000,
        4 => 0x3FFF_FFFF,
        _ => 1 + p.below(P31) as u32,
    }
}

fn sjson(s: &[u32; 16], r1: u32, r2: u32) -> serde_json::Value {
    json!({"s": s.iter().map(|v| format!("{:08x}", v)).collect::<Vec<_>>(), "r1": format!("{:08x}", r1), "r2": format!("{:08x}", r2)})
}

fn step_case(ctx: &mut Ctx, s: [u32; 16], r1: u32, r2: u32, u: Option<u32>, cls: &str) {
    ctx.eval();
    ctx.class(cls);
    let mut r = rzuc::Zuc::from_state(s, r1, r2);
    r.lfsr_step(u);
    let want = r.state();
    let sb: Vec<u8> = s.iter().flat_map(|v| v.to_be_bytes()).collect();
    ctx.distinct("zuc_state", &[&sb, &u.unwrap_or(0xFFFF_FFFF).to_be_bytes()]);
    let got = guard(|| {
        let mut z = zh::from_state(s, r1, r2);
        match u {
            Some(u) => zh::lfsr_init_step(&mut z, u),
            None => zh::lfsr_work_step(&mut z),
        }
        zh::state(&z)
    });
    let op = if u.is_some() { "lfsr_with_initialization_mode" } else { "lfsr_with_work_mode" };
    match got {
        Outcome::Ret(g) if g == want => {}
        Outcome::Ret(g) => ctx.violation(&format!("ZUC::{}:{}:wrong-state", op, cls), json!({"state": sjson(&s, r1, r2), "u": u.map(|u| format!("{:08x}", u)), "expected_s15": format!("{:08x}", want.0[15]), "actual_s15": format!("{:08x}", g.0[15])})),
        o => ctx.violation(&format!("ZUC::{}:{}:{}", op, cls, o.class()), json!({"state": sjson(&s, r1, r2)})),
    }
}

pub fn run(ctx: &mut Ctx) {
    ctx.require(&["zuc_state:feedback_sum_at_boundary_work", "zuc_state:feedback_sum_at_boundary_init", "zuc_state:cell_grid", "zuc_state:fsm_step", "zuc_state:keystream_from_state"]);
    let mut p = ctx.prng("zuc_state");
    // --- feedback sum placed at m*2^31 + d and m*(2^31-1) + d, d in -8..=8
    let taps: [(usize, u32); 4] = [(4, 20), (10, 21), (13, 17), (15, 15)];
    let reps = ctx.n(2, 40);
    let mut idx = 0u64;
    for rep in 0..reps {
        for init in [false, true] {
            for m in 1..=(if init { 6u64 } else { 5 }) {
                for base in [m << 31, m * P31] {
                    for d in -8i64..=8 {
                        let target = (base as i64 + d) as u64;
                        let sub = p.next();
                        idx += 1;
                        if !ctx.mine(idx) {
                            continue;
                        }
                        let mut q = Prng::new(sub ^ rep, "fb");
                        // s0 contributes s0 and s0*2^8; u (init mode) is a free 31-bit value; the other four terms are free in [1, 2^31-1]
                        let mut made = None;
                        for _ in 0..200 {
                            let s0 = 1 + q.below(P31) as u32;
                            let fixed = s0 as u64 + rot31(s0, 8) as u64;
                            let u = if init { Some(match q.below(4) { 0 => 0u32, 1 => 0x7FFF_FFFF, _ => q.below(1 << 31) as u32 }) } else { None };
                            let fixed = fixed + u.unwrap_or(0) as u64;
                            if target < fixed + 4 || target > fixed + 4 * P31 {
                                continue;
                            }
                            let mut rest = target - fixed;
                            let mut terms = [0u32; 4];
                            for i in 0..4 {
                                let left = (3 - i) as u64;
                                let lo = if rest > left * P31 { rest - left * P31 } else { 1 }.max(1);
                                let hi = (rest - left).min(P31);
                                let t = lo + q.below(hi - lo + 1);
                                terms[i] = t as u32;
                                rest -= t;
                            }
                            made = Some((s0, u, terms));
                            break;
                        }
                        let Some((s0, u, terms)) = made else { continue };
                        let mut s = [0u32; 16];
                        for c in s.iter_mut() {
                            *c = 1 + q.below(P31) as u32;
                        }
                        s[0] = s0;
                        for (i, (ci, k)) in taps.iter().enumerate() {
                            s[*ci] = cell_for_term(terms[i], *k);
                        }
                        // the harness's own construction: the six/seven terms must add up to the target
                        let sum: u64 = s[0] as u64 + rot31(s[0], 8) as u64 + taps.iter().map(|(ci, k)| rot31(s[*ci], *k) as u64).sum::<u64>() + u.unwrap_or(0) as u64;
                        if sum != target {
                            ctx.violation("harness:zuc_state:crafted-sum-not-reproduced", json!({"target": target, "sum": sum}));
                            continue;
                        }
                        step_case(ctx, s, q.next() as u32, q.next() as u32, u, if init { "zuc_state:feedback_sum_at_boundary_init" } else { "zuc_state:feedback_sum_at_boundary_work" });
                    }
                }
            }
        }
    }
    // --- grid: the five tapped cells over boundary words (7^5 states), work mode and initialisation mode with boundary u
    let grid: [u32; 7] = [1, 2, 0x3FFF_FFFF, 0x4000_0000, 0x7FFF_FFFD, 0x7FFF_FFFE, 0x7FFF_FFFF];
    let us: [u32; 5] = [0, 1, 0x4000_0000, 0x7FFF_FFFE, 0x7FFF_FFFF];
    let mut gi = 0u64;
    for a in grid {
        for b in grid {
            for c in grid {
                for d in grid {
                    for e in grid {
                        gi += 1;
                        if !ctx.mine(gi) {
                            continue;
                        }
                        let mut s = [0x1234_5678u32 & 0x7FFF_FFFF; 16];
                        s[0] = a;
                        s[4] = b;
                        s[10] = c;
                        s[13] = d;
                        s[15] = e;
                        step_case(ctx, s, 0, 0, None, "zuc_state:cell_grid");
                        step_case(ctx, s, 0, 0, Some(us[(gi % 5) as usize]), "zuc_state:cell_grid");
                    }
                }
            }
        }
    }
    ctx.exhaustive("tapped LFSR cells (s0,s4,s10,s13,s15) over {1,2,2^30-1,2^30,2^31-4,2^31-3,2^31-2,2^31-1}^5 minus one word, both LFSR modes", true);
    // --- FSM step and whole keystream words from random / boundary register states
    let n = ctx.n(400, 40_000);
    for i in 0..n {
        let sub = p.next();
        if !ctx.mine(i) {
            continue;
        }
        let mut q = Prng::new(sub, "st");
        let mut s = [0u32; 16];
        for c in s.iter_mut() {
            *c = cell(&mut q);
        }
        let rb = |q: &mut Prng| match q.below(6) {
            0 => 0u32,
            1 => 0xFFFF_FFFF,
            2 => 0x8000_0000,
            _ => q.next() as u32,
        };
        let (r1, r2) = (rb(&mut q), rb(&mut q));
        ctx.eval();
        ctx.class("zuc_state:fsm_step");
        let mut r = rzuc::Zuc::from_state(s, r1, r2);
        let want = r.br_f();
        let wst = r.state();
        match guard(|| {
            let mut z = zh::from_state(s, r1, r2);
            let o = zh::br_f(&mut z);
            (o, zh::state(&z))
        }) {
            Outcome::Ret((o, st)) if o == want && st == wst => {}
            o => ctx.violation("ZUC::bit_reconstruction+f:wrong", json!({"state": sjson(&s, r1, r2), "outcome": if o.is_ret() { "differs".to_string() } else { o.class().to_string() }})),
        }
        ctx.eval();
        ctx.class("zuc_state:keystream_from_state");
        let nw = 1 + (i % 40) as usize;
        let mut r = rzuc::Zuc::from_state(s, r1, r2);
        let want = r.words(nw);
        let wst = r.state();
        match guard(|| {
            let mut z = zh::from_state(s, r1, r2);
            let o = z.generate_keystream(nw);
            (o, zh::state(&z))
        }) {
            Outcome::Ret((o, st)) if o == want && st == wst => {}
            o => ctx.violation("ZUC::generate_keystream:from-crafted-state:wrong", json!({"state": sjson(&s, r1, r2), "words": nw, "outcome": if o.is_ret() { "differs".to_string() } else { o.class().to_string() }})),
        }
    }
    ctx.sample(json!({"zuc_state_case": "LFSR started from crafted cells: feedback sum = m*2^31 + d and m*(2^31-1) + d for m in 1..=5 (6 in initialisation mode), d in -8..=8; one step compared with the reference"}));
}
