//! C11 — SM2 curve and field arithmetic implement the group law exactly.
use crate::mon::{guard, Ctx, Outcome, Prng};
use crate::refs::sm2::{self as r2, Pt};
use crate::sm2x::*;
use gm_sm2::p256_ecc::{g_mul, Point};
use gm_sm2::u256::*;
use gm_sm2::verif_hooks as hk;
use gm_sm2::verif_hooks::{fn64, fp64, FieldModOperation};
use num_bigint::BigUint;
use num_traits::{One, Zero};
use serde_json::json;

type L = [u64; 4];

fn h(a: &L) -> String {
    hex::encode(crate::mon::limbs_to_be(a))
}

fn big(a: &L) -> BigUint {
    r2::from_limbs(a)
}

fn lim(x: &BigUint) -> L {
    r2::to_limbs(x)
}

/// boundary-limb values, values around the moduli, random values; all < m
fn operands(m: &BigUint, other: &BigUint, p: &mut Prng, nrand: usize) -> Vec<BigUint> {
    let limbs = [0u64, 1, 1 << 32, 1 << 63, u64::MAX];
    let mut v: Vec<BigUint> = vec![];
    for a in limbs {
        for b in limbs {
            for c in limbs {
                for d in limbs {
                    v.push(big(&[a, b, c, d]));
                }
            }
        }
    }
    let two256: BigUint = BigUint::one() << 256;
    let r = &two256 % m;
    let anchors: Vec<BigUint> = vec![BigUint::zero(), m.clone(), other.clone(), &two256 - m, &two256 - other, r.clone(), (&r * &r) % m, m >> 1, (m >> 1) + 1u32];
    for a in anchors {
        for k in 0..=4u32 {
            v.push(&a + k);
            if a >= BigUint::from(k) {
                v.push(&a - k);
            }
        }
    }
    for _ in 0..nrand {
        v.push(r2::from_b(&p.bytes(32)));
    }
    v.retain(|x| x < m);
    v.sort();
    v.dedup();
    v
}

struct Fld<'a> {
    ctx: &'a mut Ctx,
}

impl<'a> Fld<'a> {
    fn chk1(&mut self, op: &str, a: &L, got: Outcome<L>, want: &BigUint) {
        self.ctx.eval();
        self.ctx.class(op);
        match got {
            Outcome::Ret(g) if &big(&g) == want => {}
            Outcome::Ret(g) => self.ctx.violation(&format!("{}:wrong-value", op), json!({"op": op, "a": h(a), "expected": hex::encode(r2::b32(want)), "actual": h(&g)})),
            o => self.ctx.violation(&format!("{}:{}", op, o.class()), json!({"op": op, "a": h(a), "outcome": format!("{:?}", o)})),
        }
    }
    fn chk2(&mut self, op: &str, a: &L, b: &L, got: Outcome<L>, want: &BigUint) {
        self.ctx.eval();
        self.ctx.class(op);
        match got {
            Outcome::Ret(g) if &big(&g) == want => {}
            Outcome::Ret(g) => self.ctx.violation(&format!("{}:wrong-value", op), json!({"op": op, "a": h(a), "b": h(b), "expected": hex::encode(r2::b32(want)), "actual": h(&g)})),
            o => self.ctx.violation(&format!("{}:{}", op, o.class()), json!({"op": op, "a": h(a), "b": h(b), "outcome": format!("{:?}", o)})),
        }
    }
}

fn sub_mod(a: &BigUint, b: &BigUint, m: &BigUint) -> BigUint {
    (a + m - b) % m
}

fn field_layer(ctx: &mut Ctx) {
    let c = r2::curve();
    let p = &c.p;
    let n = &c.n;
    let two256: BigUint = BigUint::one() << 256;
    let rp = &c.r_p;
    let rpi = &c.r_p_inv;
    let rn = &c.r_n;
    let rni = rn.modinv(n).unwrap();
    let p_prime = &two256 - p.modinv(&two256).unwrap(); // -p^-1 mod 2^256
    let mut prng = ctx.prng("field");
    let nrand = ctx.n(60, 600) as usize;
    let ops_p = operands(p, n, &mut prng, nrand);
    let ops_n = operands(n, p, &mut prng, nrand);
    let two = BigUint::from(2u32);
    let half_p = two.modinv(p).unwrap();
    let mut f = Fld { ctx };
    // --- unary, mod p (Montgomery domain where it matters)
    let mut idx = 0u64;
    for a in &ops_p {
        idx += 1;
        if !f.ctx.mine(idx) {
            continue;
        }
        let la = lim(a);
        f.ctx.distinct("fp1", &[&r2::b32(a)]);
        f.chk1("fp_double", &la, guard(|| la.fp_double()), &((a * 2u32) % p));
        f.chk1("fp_triple", &la, guard(|| la.fp_triple()), &((a * 3u32) % p));
        f.chk1("fp_neg", &la, guard(|| la.fp_neg()), &sub_mod(&BigUint::zero(), a, p));
        f.chk1("fp_div2", &la, guard(|| la.fp_div2()), &((a * &half_p) % p));
        f.chk1("fp_sqr", &la, guard(|| la.fp_sqr()), &((a * a * rpi) % p));
        f.chk1("fp_to_mont", &la, guard(|| hk::fp_to_mont(&la)), &((a * rp) % p));
        f.chk1("fp_from_mont", &la, guard(|| hk::fp_from_mont(&la)), &((a * rpi) % p));
        // inverse / sqrt / pow are Montgomery-domain functions: f(xR) = g(x) R
        let x = (a * rpi) % p;
        if !x.is_zero() {
            f.chk1("fp_inv", &la, guard(|| la.fp_inv()), &((x.modinv(p).unwrap() * rp) % p));
        } else {
            f.chk1("fp_inv(0)", &la, guard(|| la.fp_inv()), &BigUint::zero());
        }
        match (guard(|| fp64::fp_sqrt(&la)), r2::sqrt_p(&x)) {
            (Outcome::Ret(Ok(r)), Some(_)) => {
                f.ctx.eval();
                f.ctx.class("fp_sqrt_residue");
                let rv = (big(&r) * rpi) % p;
                if (&rv * &rv) % p != x {
                    f.ctx.violation("fp_sqrt:residue:wrong-root", json!({"a": h(&la), "root": h(&r)}));
                }
            }
            (Outcome::Ret(Err(_)), None) => {
                f.ctx.eval();
                f.ctx.class("fp_sqrt_nonresidue");
            }
            (Outcome::Ret(Ok(r)), None) => f.ctx.violation("fp_sqrt:nonresidue:returned-ok", json!({"a": h(&la), "root": h(&r)})),
            (Outcome::Ret(Err(_)), Some(_)) => f.ctx.violation("fp_sqrt:residue:returned-err", json!({"a": h(&la)})),
            (o, _) => f.ctx.violation(&format!("fp_sqrt:{}", o.class()), json!({"a": h(&la)})),
        }
        // bytes
        f.ctx.eval();
        if let Outcome::Ret(b) = guard(|| la.to_byte_be()) {
            if b != r2::b32(a) || <L as FieldModOperation>::from_byte_be(&b) != la {
                f.ctx.violation("to_byte_be/from_byte_be:wrong", json!({"a": h(&la)}));
            }
        }
    }
    // --- unary mod n
    idx = 0;
    for a in &ops_n {
        idx += 1;
        if !f.ctx.mine(idx) {
            continue;
        }
        let la = lim(a);
        f.ctx.distinct("fn1", &[&r2::b32(a)]);
        f.chk1("fn_to_mont", &la, guard(|| fn64::fn_to_mont(&la)), &((a * rn) % n));
        f.chk1("fn_from_mont", &la, guard(|| fn64::fn_from_mont(&la)), &((a * &rni) % n));
        if !a.is_zero() {
            f.chk1("fn_inv", &la, guard(|| fn64::fn_inv(&la)), &a.modinv(n).unwrap());
            f.chk1("fn_pow(n-2)", &la, guard(|| fn64::fn_pow(&la, &fn64::SM2_N_MINUS_TWO)), &a.modinv(n).unwrap());
        }
    }
    // --- binary: a over everything, b over a thinned set
    let stride = if f.ctx.thorough { 1 } else { 23 };
    idx = 0;
    for (i, a) in ops_p.iter().enumerate() {
        for (j, b) in ops_p.iter().enumerate() {
            if (i * 7 + j) % stride != 0 {
                continue;
            }
            idx += 1;
            if !f.ctx.mine(idx) {
                continue;
            }
            let (la, lb) = (lim(a), lim(b));
            f.ctx.distinct("fp2", &[&r2::b32(a), &r2::b32(b)]);
            f.chk2("fp_add", &la, &lb, guard(|| la.fp_add(&lb)), &((a + b) % p));
            f.chk2("fp_sub", &la, &lb, guard(|| la.fp_sub(&lb)), &sub_mod(a, b, p));
            let prod = a * b;
            let t = ((&prod % &two256) * &p_prime) % &two256;
            if &prod + t * p >= (BigUint::one() << 512) {
                f.ctx.class("fp_mont_mul_carry_out_of_2^512");
            }
            f.chk2("fp_mul", &la, &lb, guard(|| la.fp_mul(&lb)), &((&prod * rpi) % p));
            f.chk2("fp_mont_mul", &la, &lb, guard(|| hk::fp_mont_mul(&la, &lb)), &((&prod * rpi) % p));
            // raw limb primitives on the same operands
            f.ctx.eval();
            f.ctx.class("u256_primitives");
            let (s, cy) = u256_add(&la, &lb);
            let sum = a + b;
            if big(&s) != &sum % &two256 || cy != (sum >= two256) {
                f.ctx.violation("u256_add:wrong", json!({"a": h(&la), "b": h(&lb)}));
            }
            let (d, bw) = u256_sub(&la, &lb);
            if big(&d) != (&two256 + a - b) % &two256 || bw != (a < b) {
                f.ctx.violation("u256_sub:wrong", json!({"a": h(&la), "b": h(&lb)}));
            }
            let m = u256_mul(&la, &lb);
            let mut mv = BigUint::zero();
            for k in (0..8).rev() {
                mv = (mv << 64) + m[k];
            }
            if mv != prod {
                f.ctx.violation("u256_mul:wrong", json!({"a": h(&la), "b": h(&lb)}));
            }
            let cmp = u256_cmp(&la, &lb);
            let want = if a > b { 1 } else if a < b { -1 } else { 0 };
            if cmp != want {
                f.ctx.violation("u256_cmp:wrong", json!({"a": h(&la), "b": h(&lb)}));
            }
            if big(&u256_bits_and(&la, &lb)) != (a & b) {
                f.ctx.violation("u256_bits_and:wrong", json!({"a": h(&la), "b": h(&lb)}));
            }
            // 512-bit add / sub on (a||b) and (b||m): limbs little-endian
            let big8 = |x: &[u64; 8]| -> BigUint {
                let mut v = BigUint::zero();
                for k in (0..8).rev() {
                    v = (v << 64) + x[k];
                }
                v
            };
            let x8: [u64; 8] = [la[0], la[1], la[2], la[3], lb[0], lb[1], lb[2], lb[3]];
            let y8: [u64; 8] = [lb[0], lb[1], lb[2], lb[3], m[4], m[5], m[6], m[7]];
            let two512: BigUint = BigUint::one() << 512;
            let (s8, c8) = u512_add(&x8, &y8);
            let (d8, b8) = u512_sub(&x8, &y8);
            let (xv, yv) = (big8(&x8), big8(&y8));
            f.ctx.class("u512_primitives");
            if big8(&s8) != (&xv + &yv) % &two512 || c8 != (&xv + &yv >= two512) {
                f.ctx.violation("u512_add:wrong", json!({"a": h(&la), "b": h(&lb)}));
            }
            if big8(&d8) != (&two512 + &xv - &yv) % &two512 || b8 != (xv < yv) {
                f.ctx.violation("u512_sub:wrong", json!({"a": h(&la), "b": h(&lb)}));
            }
        }
    }
    idx = 0;
    for (i, a) in ops_n.iter().enumerate() {
        for (j, b) in ops_n.iter().enumerate() {
            if (i * 5 + j) % stride != 0 {
                continue;
            }
            idx += 1;
            if !f.ctx.mine(idx) {
                continue;
            }
            let (la, lb) = (lim(a), lim(b));
            f.ctx.distinct("fn2", &[&r2::b32(a), &r2::b32(b)]);
            f.chk2("fn_add", &la, &lb, guard(|| fn64::fn_add(&la, &lb)), &((a + b) % n));
            f.chk2("fn_sub", &la, &lb, guard(|| fn64::fn_sub(&la, &lb)), &sub_mod(a, b, n));
            f.chk2("fn_mul", &la, &lb, guard(|| fn64::fn_mul(&la, &lb)), &((a * b) % n));
        }
    }
    // --- operand pairs whose INTEGER product has a boundary shape (see sm2x::product_shapes): mod n directly, and mod p
    // both on the stored limbs (raw Montgomery multiplication) and on field elements
    {
        let reps = f.ctx.n(4, 200);
        let mut ps = f.ctx.prng("prodshape");
        let mut pi = 0u64;
        for _ in 0..reps {
            for (name, a, b) in product_shapes(n, &mut ps) {
                pi += 1;
                if !f.ctx.mine(pi) {
                    continue;
                }
                let (la, lb) = (lim(&a), lim(&b));
                f.ctx.class("fn_mul_product_shape");
                f.ctx.class(&format!("fn_mul:{}", name.split(':').next().unwrap()));
                f.ctx.distinct("fn2", &[&r2::b32(&a), &r2::b32(&b)]);
                f.chk2("fn_mul", &la, &lb, guard(|| fn64::fn_mul(&la, &lb)), &((&a * &b) % n));
            }
            for (name, a, b) in product_shapes(p, &mut ps) {
                pi += 1;
                if !f.ctx.mine(pi) {
                    continue;
                }
                let (la, lb) = (lim(&a), lim(&b));
                f.ctx.class("fp_mul_product_shape");
                f.ctx.class(&format!("fp_mul:{}", name.split(':').next().unwrap()));
                f.ctx.distinct("fp2", &[&r2::b32(&a), &r2::b32(&b)]);
                // stored limbs a, b: Montgomery product a*b*R^-1
                f.chk2("fp_mul", &la, &lb, guard(|| la.fp_mul(&lb)), &((&a * &b % p) * rpi % p));
                f.chk2("fp_mont_mul", &la, &lb, guard(|| hk::fp_mont_mul(&la, &lb)), &((&a * &b % p) * rpi % p));
            }
        }
    }
    // --- crafted Montgomery products landing on 0, 1, m-1, and exponentiations
    let ncraft = f.ctx.n(300, 30_000);
    for i in 0..ncraft {
        let a = rand_scalar(&mut prng, p);
        let an = rand_scalar(&mut prng, n);
        let e = r2::from_b(&prng.bytes(32));
        if !f.ctx.mine(i) {
            continue;
        }
        for (tn, target) in [("0", BigUint::zero()), ("1", BigUint::one()), ("m-1", p - 1u32)] {
            // b with a*b*R^-1 = target  ->  b = target * R * a^-1
            let b = (&target * rp % p) * a.modinv(p).unwrap() % p;
            let (la, lb) = (lim(&a), lim(&b));
            f.ctx.class(&format!("fp_mul_product={}", tn));
            f.chk2("fp_mul", &la, &lb, guard(|| la.fp_mul(&lb)), &target);
        }
        for (tn, target) in [("1", BigUint::one()), ("m-1", n - 1u32)] {
            let b = (&target * an.modinv(n).unwrap()) % n;
            let (la, lb) = (lim(&an), lim(&b));
            f.ctx.class(&format!("fn_mul_product={}", tn));
            f.chk2("fn_mul", &la, &lb, guard(|| fn64::fn_mul(&la, &lb)), &target);
        }
        if i % 8 == 0 {
            let (la, le) = (lim(&a), lim(&e));
            let x = (&a * rpi) % p;
            f.chk2("fp_pow", &la, &le, guard(|| fp64::fp_pow(&la, &le)), &((x.modpow(&e, p) * rp) % p));
            let (lan, _) = (lim(&an), 0);
            f.chk2("fn_pow", &lan, &le, guard(|| fn64::fn_pow(&lan, &le)), &an.modpow(&e, n));
        }
    }
}

fn pt_json(p: &Point) -> serde_json::Value {
    json!({"x": h(&p.x), "y": h(&p.y), "z": h(&p.z)})
}

fn same(ctx: &mut Ctx, op: &str, cls: &str, got: Outcome<Point>, want: &Pt, inputs: serde_json::Value) {
    ctx.eval();
    ctx.class(cls);
    match got {
        Outcome::Ret(g) => {
            let ga = r2::from_lib_point(&g);
            if &ga != want {
                ctx.violation(
                    &format!("{}:{}:wrong-point", op, cls),
                    json!({"op": op, "class": cls, "inputs": inputs, "expected": want.as_ref().map(|(x, y)| format!("({},{})", hex::encode(r2::b32(x)), hex::encode(r2::b32(y)))).unwrap_or("infinity".into()), "actual": pt_json(&g)}),
                );
            }
        }
        o => ctx.violation(&format!("{}:{}:{}", op, cls, o.class()), json!({"op": op, "inputs": inputs, "outcome": format!("{:?}", o)})),
    }
}

fn lambda(p: &mut Prng, kind: u64) -> BigUint {
    match kind % 4 {
        0 => BigUint::one(),
        1 => BigUint::from(2u32),
        2 => &r2::curve().p - 1u32,
        _ => rand_scalar(p, &r2::curve().p),
    }
}

fn table_layer(ctx: &mut Ctx) {
    // every one of the 32 x 255 entries = Montgomery affine [j * 256^i]G
    let t = hk::precomputed();
    let mut base = r2::g();
    let mut scalar_base = BigUint::one();
    for i in 0..32usize {
        let mut acc: Pt = None;
        for j in 1..=255usize {
            acc = r2::add(&acc, &base);
            if !ctx.mine((i * 255 + j) as u64) {
                continue;
            }
            ctx.eval();
            ctx.class("table_entry");
            let (x, y) = acc.clone().unwrap();
            let (lx, ly) = (t[i][2 * j - 2], t[i][2 * j - 1]);
            ctx.distinct("tab", &[&[i as u8, j as u8]]);
            if r2::from_mont_p(&lx) != x || r2::from_mont_p(&ly) != y || big(&lx) >= r2::curve().p || big(&ly) >= r2::curve().p {
                ctx.violation("SM2P256_PRECOMPUTED:entry:wrong", json!({"row": i, "j": j, "x": h(&lx), "y": h(&ly)}));
            }
            // the same entry through the public fixed-base multiplication
            let k = &scalar_base * BigUint::from(j);
            let lk = lim(&k);
            same(ctx, "g_mul", "single_byte_scalar", guard(|| g_mul(&lk)), &acc, json!({"k": h(&lk)}));
        }
        for _ in 0..8 {
            base = r2::dbl(&base);
        }
        scalar_base <<= 8;
    }
    ctx.exhaustive("32 x 255 fixed-base table entries (through the hook) and every single-byte scalar b*256^i through g_mul", true);
}

fn group_layer(ctx: &mut Ctx) {
    let c = r2::curve();
    let n = ctx.n(400, 40_000);
    let mut prng = ctx.prng("group");
    for i in 0..n {
        let sub = prng.next();
        if !ctx.mine(i) {
            continue;
        }
        let mut p = Prng::new(sub, "g");
        // P: multiple of G or of a random curve point
        let kp = if (i % 25 == 7 && (i / 25) % 2 == 0) || i % 25 == 13 { BigUint::one() } else if i % 9 == 0 { BigUint::from(1 + p.below(5)) } else { rand_scalar(&mut p, &c.n) };
        let base: Pt = if i % 25 == 7 {
            // the curve point with x = 0 (32 zero bytes as a coordinate)
            ctx.class("base_point_with_zero_x");
            Some((BigUint::zero(), r2::sqrt_p(&c.b).unwrap()))
        } else if i % 25 == 13 {
            // curve points with a tiny or near-p x: at x = 1 the tangent slope 3x^2 + a is zero (a = -3)
            let cands: Vec<BigUint> = vec![BigUint::one(), BigUint::from(2u32), BigUint::from(3u32), BigUint::from(4u32), &c.p - 2u32, &c.p - 3u32, &c.p - 4u32, &c.p - 5u32];
            let on: Vec<(BigUint, BigUint)> = cands.iter().filter_map(r2::point_from_x).collect();
            ctx.class("base_point_with_special_x");
            Some(on[((i / 25) as usize) % on.len()].clone())
        } else if i % 3 == 0 {
            // random curve point from x
            let mut x = rand_scalar(&mut p, &c.p);
            loop {
                let rhs = (&x * &x * &x + &c.a * &x + &c.b) % &c.p;
                if let Some(y) = r2::sqrt_p(&rhs) {
                    break Some((x, y));
                }
                x += 1u32;
            }
        } else {
            r2::g()
        };
        let pa = r2::mul(&kp, &base).unwrap();
        let qa = r2::mul(&rand_scalar(&mut p, &c.n), &base).unwrap();
        let (l1, l2) = (lambda(&mut p, i), lambda(&mut p, i / 4 + 1));
        let lp = r2::to_lib_point(&pa, &l1);
        let lq = r2::to_lib_point(&qa, &l2);
        ctx.distinct("grp", &[&r2::b32(&pa.0), &r2::b32(&qa.0), &r2::b32(&l1), &r2::b32(&l2)]);
        let inp = |a: &Point, b: &Point| json!({"P": pt_json(a), "Q": pt_json(b)});
        // P + Q generic
        same(ctx, "point_add", "P_ne_Q", guard(|| lp.point_add(&lq)), &r2::add(&Some(pa.clone()), &Some(qa.clone())), inp(&lp, &lq));
        // two distinct points stored with the same Z (a co-Z shortcut must still scale nothing away)
        {
            let lqz = r2::to_lib_point(&qa, &l1);
            same(ctx, "point_add", "P_ne_Q_same_stored_Z", guard(|| lp.point_add(&lqz)), &r2::add(&Some(pa.clone()), &Some(qa.clone())), inp(&lp, &lqz));
        }
        // P + P, same representation and different Z
        same(ctx, "point_add", "P_eq_Q_same_repr", guard(|| lp.point_add(&lp)), &r2::dbl(&Some(pa.clone())), inp(&lp, &lp));
        let mut l3 = lambda(&mut p, i + 1);
        if l3 == l1 {
            l3 = (&l1 + 1u32) % &c.p;
            if l3.is_zero() {
                l3 = BigUint::from(2u32);
            }
        }
        let lp2 = r2::to_lib_point(&pa, &l3);
        same(ctx, "point_add", "P_eq_Q_diff_Z", guard(|| lp.point_add(&lp2)), &r2::dbl(&Some(pa.clone())), inp(&lp, &lp2));
        // P + (-P)
        let na = r2::neg(&Some(pa.clone())).unwrap();
        let ln1 = r2::to_lib_point(&na, &l1);
        let ln2 = r2::to_lib_point(&na, &l3);
        same(ctx, "point_add", "P_eq_negQ_same_Z", guard(|| lp.point_add(&ln1)), &None, inp(&lp, &ln1));
        // -P stored with the SAME X and Y words as P and Z negated: (X, Y, -Z) = (x(-l)^2, (-y)(-l)^3, -l)
        let lnz = r2::to_lib_point(&na, &(&c.p - &l1));
        same(ctx, "point_add", "P_plus_negP_same_stored_XY", guard(|| lp.point_add(&lnz)), &None, inp(&lp, &lnz));
        same(ctx, "point_add", "Q_plus_negP_same_stored_XY_right_after_Q_plus_P", guard(|| { let _ = lq.point_add(&lp); lq.point_add(&lnz) }), &r2::add(&Some(qa.clone()), &Some(na.clone())), inp(&lq, &lnz));
        same(ctx, "point_dbl", "negP_same_stored_XY_right_after_P", guard(|| { let _ = lp.point_dbl(); lnz.point_dbl() }), &r2::dbl(&Some(na.clone())), inp(&lnz, &lnz));
        same(ctx, "point_add", "P_eq_negQ_diff_Z", guard(|| lp.point_add(&ln2)), &None, inp(&lp, &ln2));
        // infinity operands: canonical (1,1,0) and arbitrary (X,Y,0)
        let inf1 = Point::zero();
        let inf2 = Point { x: lp.x, y: lq.y, z: [0; 4] };
        for (k, inf) in [(0, &inf1), (1, &inf2)] {
            let cls = if k == 0 { "infinity_canonical" } else { "infinity_arbitrary_XY" };
            same(ctx, "point_add", cls, guard(|| lp.point_add(inf)), &Some(pa.clone()), inp(&lp, inf));
            same(ctx, "point_add", cls, guard(|| inf.point_add(&lp)), &Some(pa.clone()), inp(inf, &lp));
            same(ctx, "point_add", cls, guard(|| inf.point_add(inf)), &None, inp(inf, inf));
            same(ctx, "point_dbl", cls, guard(|| inf.point_dbl()), &None, inp(inf, inf));
            same(ctx, "neg", cls, guard(|| inf.neg()), &None, inp(inf, inf));
            let lk = lim(&kp);
            same(ctx, "scalar_mul", cls, guard(|| inf.scalar_mul(&lk)), &None, inp(inf, inf));
        }
        // doubling, negation
        same(ctx, "point_dbl", "finite", guard(|| lp.point_dbl()), &r2::dbl(&Some(pa.clone())), inp(&lp, &lp));
        same(ctx, "neg", "finite", guard(|| lp.neg()), &Some(na.clone()), inp(&lp, &lp));
        // affine conversion and predicates
        ctx.eval();
        ctx.class("to_affine_point");
        if let Outcome::Ret(a) = guard(|| lp.to_affine_point()) {
            if r2::from_mont_p(&a.x) != pa.0 || r2::from_mont_p(&a.y) != pa.1 || r2::from_mont_p(&a.z) != BigUint::one() {
                ctx.violation("to_affine_point:finite:wrong", json!({"P": pt_json(&lp), "got": pt_json(&a)}));
            }
            ctx.eval();
            ctx.class("predicates");
            if !a.is_valid_affine_point() || !lp.is_valid() || !a.is_valid() {
                ctx.violation("is_valid:curve-point:false", json!({"P": pt_json(&lp)}));
            }
        }
        ctx.eval();
        if let Outcome::Ret(b) = guard(|| lp.to_byte_be(i % 2 == 0)) {
            if b != r2::encode(&pa, i % 2 == 0) {
                ctx.violation("to_byte_be:wrong-encoding", json!({"P": pt_json(&lp), "got": hex::encode(&b)}));
            }
            ctx.eval();
            ctx.class("from_byte");
            match guard(|| hk::point_from_byte(&b)) {
                Outcome::Ret(Ok(q)) => {
                    if r2::from_lib_point(&q) != Some(pa.clone()) {
                        ctx.violation("from_byte:wrong-point", json!({"bytes": hex::encode(&b)}));
                    }
                }
                o => ctx.violation(&format!("from_byte:valid-encoding:{}", o.class()), json!({"bytes": hex::encode(&b)})),
            }
        }
        // off-curve: (x, y+1) in the same representation must be invalid for both predicates
        let off = ((pa.0).clone(), (&pa.1 + 1u32) % &c.p);
        let lo = r2::to_lib_point(&off, &l1);
        ctx.eval();
        ctx.class("predicates_offcurve");
        if lo.is_valid() {
            ctx.violation("is_valid:off-curve-jacobian:true", json!({"P": pt_json(&lo)}));
        }
        let lo1 = r2::to_lib_point(&off, &BigUint::one());
        if lo1.is_valid_affine_point() || lo1.is_valid() {
            ctx.violation("is_valid_affine_point:off-curve:true", json!({"P": pt_json(&lo1)}));
        }
        // scalar multiplication, variable and fixed base
        let two256m1: BigUint = (BigUint::one() << 256) - 1u32;
        let scalars: Vec<(&str, BigUint)> = match i % 6 {
            0 => vec![("k=0", BigUint::zero()), ("k=1", BigUint::one()), ("k=2", BigUint::from(2u32))],
            1 => vec![("k=n-1", &c.n - 1u32), ("k=n", c.n.clone()), ("k=n+1", &c.n + 1u32)],
            2 => vec![("k=n+small", &c.n + BigUint::from(1 + p.below(300))), ("k=2^256-1", two256m1.clone())],
            3 => vec![("k=single_nibble", BigUint::from(1 + p.below(15)) << (4 * p.below(64) as usize)), ("k=sparse_limbs", sparse_scalar(&mut p, 1 + (i / 6) % 14))],
            4 => vec![("k=runs_of_ones", run_scalar(&mut p, &c.n)), ("k=runs_of_ones", run_scalar(&mut p, &c.n))],
            _ => vec![("k=random", r2::from_b(&p.bytes(32)))],
        };
        for (cls, k) in scalars {
            let lk = lim(&k);
            let want = r2::mul(&k, &Some(pa.clone()));
            same(ctx, "scalar_mul", cls, guard(|| lp.scalar_mul(&lk)), &want, json!({"P": pt_json(&lp), "k": h(&lk)}));
            same(ctx, "g_mul", cls, guard(|| g_mul(&lk)), &r2::mul(&k, &r2::g()), json!({"k": h(&lk)}));
            // immediately afterwards on related points: -P (same x), P in another representation, then P again
            same(ctx, "scalar_mul", "consecutive_negated_base", guard(|| ln1.scalar_mul(&lk)), &r2::neg(&want), json!({"P": pt_json(&ln1), "k": h(&lk)}));
            same(ctx, "scalar_mul", "consecutive_same_point_other_Z", guard(|| lp2.scalar_mul(&lk)), &want, json!({"P": pt_json(&lp2), "k": h(&lk)}));
            same(ctx, "scalar_mul", "consecutive_negated_base_same_stored_XY", guard(|| { let _ = lp.scalar_mul(&lk); lnz.scalar_mul(&lk) }), &r2::neg(&want), json!({"P": pt_json(&lnz), "k": h(&lk)}));
            same(ctx, "scalar_mul", "consecutive_repeat", guard(|| lp.scalar_mul(&lk)), &want, json!({"P": pt_json(&lp), "k": h(&lk)}));
            same(ctx, "scalar_mul", "consecutive_other_point", guard(|| lq.scalar_mul(&lk)), &r2::mul(&k, &Some(qa.clone())), json!({"P": pt_json(&lq), "k": h(&lk)}));
        }
    }
    // Jacobian representations whose STORED (Montgomery) Z limbs are boundary words: integer 1, single-limb units,
    // all-ones limbs, Montgomery one with one limb moved by one. A shortcut keyed on the raw limbs of Z
    // ("already affine") fires only for these.
    {
        let mont_one = lim(&((BigUint::one() << 256) - &c.p));
        let mut zs: Vec<L> = vec![[1, 0, 0, 0], [0, 1, 0, 0], [0, 0, 1, 0], [0, 0, 0, 1], [2, 0, 0, 0], [u64::MAX, 0, 0, 0], [0, 0, 0, u64::MAX >> 1], [u64::MAX, u64::MAX, 0, 0], [1, 1, 1, 1]];
        for j in 0..4 {
            let mut a = mont_one;
            a[j] = a[j].wrapping_add(1);
            zs.push(a);
            let mut b = mont_one;
            b[j] = b[j].wrapping_sub(1);
            zs.push(b);
        }
        zs.push(lim(&(&c.p - 1u32)));
        let mut pz = ctx.prng("craftedZ");
        let mut idx = 0u64;
        for zl in zs.iter().filter(|z| big(z) < c.p && big(z) != BigUint::zero()) {
            for bk in 0..3u32 {
                idx += 1;
                let sub = pz.next();
                if !ctx.mine(idx) {
                    continue;
                }
                let mut p = Prng::new(sub, "cz");
                let kp = match bk {
                    0 => BigUint::one(),
                    1 => BigUint::from(7u32),
                    _ => rand_scalar(&mut p, &c.n),
                };
                let pa = r2::mul(&kp, &r2::g()).unwrap();
                let l = r2::from_mont_p(zl);
                let lp = r2::to_lib_point(&pa, &l);
                ctx.eval();
                ctx.class("crafted_stored_Z_limbs");
                if lp.z != *zl {
                    ctx.violation("harness:crafted-Z-not-reproduced", json!({"z": h(zl), "got": h(&lp.z)}));
                    continue;
                }
                ctx.distinct("craftedZ", &[&r2::b32(&big(zl)), &r2::b32(&kp)]);
                let inp = json!({"P": pt_json(&lp), "affine_x": hex::encode(r2::b32(&pa.0))});
                match guard(|| lp.to_affine_point()) {
                    Outcome::Ret(a) => {
                        if r2::from_mont_p(&a.x) != pa.0 || r2::from_mont_p(&a.y) != pa.1 || r2::from_mont_p(&a.z) != BigUint::one() {
                            ctx.violation("to_affine_point:crafted_stored_Z_limbs:wrong", json!({"P": pt_json(&lp), "got": pt_json(&a)}));
                        }
                    }
                    o => ctx.violation(&format!("to_affine_point:crafted_stored_Z_limbs:{}", o.class()), inp.clone()),
                }
                match guard(|| (lp.to_byte_be(false), lp.is_valid())) {
                    Outcome::Ret((b, v)) => {
                        if b != r2::encode(&pa, false) || !v {
                            ctx.violation("to_byte_be/is_valid:crafted_stored_Z_limbs:wrong", json!({"P": pt_json(&lp), "got": hex::encode(&b), "is_valid": v}));
                        }
                    }
                    o => ctx.violation(&format!("to_byte_be:crafted_stored_Z_limbs:{}", o.class()), inp.clone()),
                }
                let qa = r2::mul(&rand_scalar(&mut p, &c.n), &r2::g()).unwrap();
                let lq = r2::to_lib_point(&qa, &BigUint::one());
                let lp1 = r2::to_lib_point(&pa, &BigUint::one());
                same(ctx, "point_add", "crafted_stored_Z_limbs", guard(|| lp.point_add(&lq)), &r2::add(&Some(pa.clone()), &Some(qa.clone())), inp.clone());
                same(ctx, "point_add", "crafted_stored_Z_limbs", guard(|| lq.point_add(&lp)), &r2::add(&Some(pa.clone()), &Some(qa.clone())), inp.clone());
                same(ctx, "point_add", "crafted_stored_Z_limbs", guard(|| lp.point_add(&lp1)), &r2::dbl(&Some(pa.clone())), inp.clone());
                same(ctx, "point_dbl", "crafted_stored_Z_limbs", guard(|| lp.point_dbl()), &r2::dbl(&Some(pa.clone())), inp.clone());
                same(ctx, "neg", "crafted_stored_Z_limbs", guard(|| lp.neg()), &r2::neg(&Some(pa.clone())), inp.clone());
                let k = rand_scalar(&mut p, &c.n);
                let lk = lim(&k);
                same(ctx, "scalar_mul", "crafted_stored_Z_limbs", guard(|| lp.scalar_mul(&lk)), &r2::mul(&k, &Some(pa.clone())), inp.clone());
            }
        }
    }
    // two distinct points with the SAME y: x2 = (-x1 +- sqrt(-3 x1^2 - 4a)) / 2 puts (x2, y) on the curve whenever (x1, y)
    // is; their sum is the third root (x3, -y). A chord shortcut keyed on equal y instead of equal x is wrong only here.
    {
        let mut pe = ctx.prng("equal_y");
        let want = ctx.n(6, 200);
        let mut made = 0u64;
        let inv2 = BigUint::from(2u32).modinv(&c.p).unwrap();
        for attempt in 0..(want * 12) {
            if made >= want {
                break;
            }
            let x1 = rand_scalar(&mut pe, &c.p);
            let l1 = rand_scalar(&mut pe, &c.p);
            let Some((_, y)) = r2::point_from_x(&x1) else { continue };
            let disc = (&c.p * 4u32 * &c.p + &c.p * 4u32 - (BigUint::from(3u32) * &x1 * &x1 + BigUint::from(4u32) * &c.a) % &c.p) % &c.p;
            let Some(sq) = r2::sqrt_p(&disc) else { continue };
            let x2 = ((&c.p - &x1 + &sq) % &c.p * &inv2) % &c.p;
            if x2 == x1 || !r2::on_curve(&x2, &y) {
                continue;
            }
            made += 1;
            if !ctx.mine(attempt) {
                continue;
            }
            let (pa, qa) = ((x1, y.clone()), (x2, y));
            for (la, lb) in [(BigUint::one(), BigUint::one()), (l1.clone(), BigUint::one()), (BigUint::one(), l1.clone()), (l1.clone(), (&l1 + 7u32) % &c.p)] {
                if la.is_zero() || lb.is_zero() {
                    continue;
                }
                let (lp, lq) = (r2::to_lib_point(&pa, &la), r2::to_lib_point(&qa, &lb));
                let want_pt = r2::add(&Some(pa.clone()), &Some(qa.clone()));
                same(ctx, "point_add", "distinct_points_equal_y", guard(|| lp.point_add(&lq)), &want_pt, json!({"P": pt_json(&lp), "Q": pt_json(&lq)}));
                same(ctx, "point_add", "distinct_points_equal_y", guard(|| lq.point_add(&lp)), &want_pt, json!({"P": pt_json(&lq), "Q": pt_json(&lp)}));
            }
        }
    }
    // bases that ARE the generator, its negative, or (the negative of) a precomputed-table point, affine and
    // re-randomised: a "this is G, use the fixed-base table" shortcut keyed on part of the coordinates fires only here
    {
        let mut pg = ctx.prng("gen_bases");
        let mut bi = 0u64;
        let two = BigUint::from(2u32);
        let mults: Vec<BigUint> = vec![BigUint::one(), two.clone(), BigUint::from(255u32), BigUint::one() << 8, BigUint::from(3u32) << 64, BigUint::one() << 248];
        for m in &mults {
            for negate in [false, true] {
                for zk in 0..2u64 {
                    bi += 1;
                    let sub = pg.next();
                    if !ctx.mine(bi) {
                        continue;
                    }
                    let mut p = Prng::new(sub, "gb");
                    let base = r2::mul(m, &r2::g()).unwrap();
                    let base = if negate { r2::neg(&Some(base)).unwrap() } else { base };
                    let lam = if zk == 0 { BigUint::one() } else { rand_scalar(&mut p, &c.p) };
                    let lb = r2::to_lib_point(&base, &lam);
                    for k in [BigUint::one(), two.clone(), &c.n - 1u32, rand_scalar(&mut p, &c.n), r2::from_b(&p.bytes(32))] {
                        let lk = lim(&k);
                        same(ctx, "scalar_mul", "base_is_(negated)_generator_or_table_point", guard(|| lb.scalar_mul(&lk)), &r2::mul(&k, &Some(base.clone())), json!({"P": pt_json(&lb), "k": h(&lk)}));
                    }
                    let other = r2::mul(&rand_scalar(&mut p, &c.n), &r2::g()).unwrap();
                    let lo = r2::to_lib_point(&other, &BigUint::one());
                    same(ctx, "point_add", "base_is_(negated)_generator_or_table_point", guard(|| lb.point_add(&lo)), &r2::add(&Some(base.clone()), &Some(other.clone())), json!({"P": pt_json(&lb), "Q": pt_json(&lo)}));
                    same(ctx, "point_dbl", "base_is_(negated)_generator_or_table_point", guard(|| lb.point_dbl()), &r2::dbl(&Some(base.clone())), json!({"P": pt_json(&lb)}));
                }
            }
        }
    }
    // n + j for every j in 1..=40 and the scalars around every window boundary (the 4-bit window adds a
    // table point to an accumulator; the accumulator equals that table point only for crafted scalars)
    let g_lib = r2::to_lib_point(&r2::g().unwrap(), &BigUint::one());
    for j in 0..=300u32 {
        if !ctx.mine(j as u64) {
            continue;
        }
        let k = &c.n + j;
        let lk = lim(&k);
        same(ctx, "scalar_mul", "k=n+j_sweep", guard(|| g_lib.scalar_mul(&lk)), &r2::mul(&BigUint::from(j), &r2::g()), json!({"P": "G", "k": h(&lk)}));
        same(ctx, "g_mul", "k=n+j_sweep", guard(|| g_mul(&lk)), &r2::mul(&BigUint::from(j), &r2::g()), json!({"k": h(&lk)}));
        // and n - j: the window recoding of scalars just below the order
        let k = &c.n - j;
        let lk = lim(&k);
        let want = r2::neg(&r2::mul(&BigUint::from(j), &r2::g()));
        same(ctx, "scalar_mul", "k=n-j_sweep", guard(|| g_lib.scalar_mul(&lk)), &want, json!({"P": "G", "k": h(&lk)}));
        same(ctx, "g_mul", "k=n-j_sweep", guard(|| g_mul(&lk)), &want, json!({"k": h(&lk)}));
    }
    ctx.exhaustive("scalars n+j and n-j for j in 0..=300 on G", true);
}

pub fn run(ctx: &mut Ctx) {
    for (n, ok) in r2::selftest() {
        ctx.selftest(&n, ok);
    }
    ctx.require(&["fp_add", "fp_sub", "fp_mul", "fp_sqr", "fp_double", "fp_triple", "fp_neg", "fp_div2", "fp_inv", "fp_pow", "fp_sqrt_residue", "fp_sqrt_nonresidue", "fp_to_mont", "fp_from_mont", "fn_add", "fn_sub", "fn_mul", "fn_pow", "fn_inv", "u256_primitives", "u512_primitives", "fp_mont_mul_carry_out_of_2^512", "fp_mul_product=0", "fp_mul_product=1", "fp_mul_product=m-1", "fn_mul_product_shape", "fp_mul_product_shape", "table_entry", "single_byte_scalar", "P_ne_Q", "P_eq_Q_same_repr", "P_eq_Q_diff_Z", "P_eq_negQ_same_Z", "P_eq_negQ_diff_Z", "infinity_canonical", "infinity_arbitrary_XY", "k=0", "k=n", "k=n+1", "k=n+small", "k=2^256-1", "k=random", "k=sparse_limbs", "k=runs_of_ones", "k=n+j_sweep", "k=n-j_sweep", "consecutive_negated_base", "consecutive_same_point_other_Z", "crafted_stored_Z_limbs", "base_point_with_zero_x", "base_point_with_special_x", "distinct_points_equal_y", "base_is_(negated)_generator_or_table_point", "to_affine_point", "predicates", "predicates_offcurve", "from_byte"]);
    field_layer(ctx);
    table_layer(ctx);
    group_layer(ctx);
    ctx.sample(json!({"group_law_case": "P = [k]B in Jacobian (l^2 x, l^3 y, l) with l in {1, 2, p-1, random}; P+Q, P+P (same / different Z), P+(-P), infinity operands, dbl, neg, [k]P and [k]G for k in {0,1,2,n-1,n,n+1,n+j,2^256-1,nibbles,random}"}));
    ctx.sample(json!({"field_case": "fp_mul(a,b) for a,b from {0,1,2^32,2^63,2^64-1}^4 ∪ {p,n,2^256-p,2^256-n,R,R^2,(p±1)/2}±4 ∪ random, compared with a*b*R^-1 mod p"}));
    ctx.note("affine conversion of the point at infinity has no specified value and is excluded");
}
