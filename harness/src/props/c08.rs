//! C08 — ZUC keystream matches the specification however it is requested.
use crate::mon::{guard, Ctx, Outcome, Prng};
use crate::refs::zuc as rzuc;
use gm_zuc::ZUC;
use serde_json::json;

/// Drive one generator through a request history and compare every returned word.
fn history(ctx: &mut Ctx, key: &[u8; 16], iv: &[u8; 16], reqs: &[usize], cls: &str) {
    ctx.class(cls);
    let total: usize = reqs.iter().sum();
    let mut r = rzuc::Zuc::new(key, iv);
    let expect = r.words(total);
    if r.zero_feedback_init > 0 {
        ctx.class("lfsr_zero_feedback_init");
    }
    if r.zero_feedback_work > 0 {
        ctx.class("lfsr_zero_feedback_work");
    }
    let w = json!({"key": hex::encode(key), "iv": hex::encode(iv), "requests": if reqs.len() <= 40 { json!(reqs) } else { json!(format!("{} requests, total {}", reqs.len(), total)) }});
    ctx.eval();
    let mut z = match guard(|| ZUC::new(key, iv)) {
        Outcome::Ret(z) => z,
        o => {
            ctx.violation(&format!("ZUC::new:{}:{}", cls, o.class()), json!({"case": w}));
            return;
        }
    };
    let mut off = 0usize;
    for (k, &n) in reqs.iter().enumerate() {
        ctx.eval();
        if n == 0 {
            ctx.class(if k == 0 { "zero_len_first" } else if k + 1 == reqs.len() { "zero_len_last" } else { "zero_len_middle" });
        }
        match guard(|| z.generate_keystream(n)) {
            Outcome::Ret(v) => {
                if v.len() != n {
                    ctx.violation(&format!("generate_keystream:{}:wrong-count", cls), json!({"case": w, "request_index": k, "asked": n, "got": v.len()}));
                    return;
                }
                if v[..] != expect[off..off + n] {
                    let bad = (0..n).find(|&i| v[i] != expect[off + i]).unwrap();
                    ctx.violation(
                        &format!("generate_keystream:{}:word-mismatch", cls),
                        json!({"case": w, "request_index": k, "stream_offset": off + bad, "expected": format!("{:08x}", expect[off + bad]), "actual": format!("{:08x}", v[bad])}),
                    );
                    return;
                }
                off += n;
            }
            o => {
                ctx.violation(&format!("generate_keystream:{}:{}", cls, o.class()), json!({"case": w, "request_index": k}));
                return;
            }
        }
    }
}

fn compositions(total: usize, cur: &mut Vec<usize>, out: &mut Vec<Vec<usize>>) {
    if total == 0 {
        out.push(cur.clone());
        return;
    }
    for first in 1..=total {
        cur.push(first);
        compositions(total - first, cur, out);
        cur.pop();
    }
}

pub fn run(ctx: &mut Ctx) {
    super::zuc_state::run(ctx);
    for (n, ok) in rzuc::selftest() {
        ctx.selftest(&n, ok);
    }
    ctx.require(&["official_vectors", "structured", "random_keys", "compositions", "compositions_with_zero", "zero_len_first", "zero_len_middle", "zero_len_last", "single_request", "all_ones_requests", "random_splits", "request_size_at_block_multiple", "lfsr_zero_feedback_init", "lfsr_zero_feedback_work"]);

    // --- official vectors through the library, several splits
    let k3 = [0x3d, 0x4c, 0x4b, 0xe9, 0x6a, 0x82, 0xfd, 0xae, 0xb5, 0x8f, 0x64, 0x1d, 0xb1, 0x7b, 0x45, 0x5b];
    let i3 = [0x84, 0x31, 0x9a, 0xa8, 0xde, 0x69, 0x15, 0xca, 0x1f, 0x6b, 0xda, 0x6b, 0xfb, 0xd8, 0xc7, 0x66];
    let k4 = [0x4d, 0x32, 0x0b, 0xfa, 0xd4, 0xc2, 0x85, 0xbf, 0xd6, 0xb8, 0xbd, 0x00, 0xf3, 0x9d, 0x8b, 0x41];
    let i4 = [0x52, 0x95, 0x9d, 0xab, 0xa0, 0xbf, 0x17, 0x6e, 0xce, 0x2d, 0xc3, 0x15, 0x04, 0x9e, 0xb5, 0x74];
    if ctx.shard == 0 {
        for (k, iv) in [([0u8; 16], [0u8; 16]), ([0xff; 16], [0xff; 16]), (k3, i3), (k4, i4)] {
            ctx.distinct("hist", &[&k, &iv, b"official"]);
            history(ctx, &k, &iv, &[2], "official_vectors");
            history(ctx, &k, &iv, &[2000], "official_vectors");
            history(ctx, &k, &iv, &[1, 0, 1, 1998], "official_vectors");
        }
        ctx.sample(json!({"official vector 4": {"key": hex::encode(k4), "iv": hex::encode(i4), "requests": [1, 0, 1, 1998], "z2000": "7a574cdb"}}));
    }

    // --- the LFSR feedback = 0 case: search (bounded, deterministic) for key/IVs whose initialisation hits
    // the "s16 = 0 -> 2^31-1" rule is hopeless at random (2^-31 per step); instead craft via the reference:
    // the rule is also exercised in work mode; we record how often the reference saw it and feed crafted
    // states below.
    crafted_zero_feedback(ctx);

    // --- structured keys / IVs
    let pats: Vec<[u8; 16]> = {
        let mut v = vec![[0u8; 16], [0xff; 16], [0x55; 16], [0xaa; 16], [0x80; 16], [0x01; 16], [0x7f; 16]];
        for bit in 0..128 {
            let mut b = [0u8; 16];
            b[bit / 8] = 0x80 >> (bit % 8);
            v.push(b);
        }
        v
    };
    let mut idx = 0u64;
    for (a, k) in pats.iter().enumerate() {
        for (b, iv) in pats.iter().enumerate() {
            if !(a < 7 || b < 7 || (a + b) % 32 == 0 || ctx.thorough) {
                continue;
            }
            idx += 1;
            if !ctx.mine(idx) {
                continue;
            }
            ctx.distinct("hist", &[k, iv, b"s"]);
            history(ctx, k, iv, &[3, 0, 5, 24], "structured");
        }
    }

    // --- all compositions of totals 1..=12, plain and with zero-length requests inserted at every position
    let mut prng = ctx.prng("comp");
    idx = 0;
    for total in 1..=12usize {
        let mut out = vec![];
        compositions(total, &mut vec![], &mut out);
        for comp in out {
            let key: [u8; 16] = prng.arr();
            let iv: [u8; 16] = prng.arr();
            idx += 1;
            if !ctx.mine(idx) {
                continue;
            }
            if comp.len() == 1 {
                ctx.class("single_request");
            }
            if comp.iter().all(|&x| x == 1) {
                ctx.class("all_ones_requests");
            }
            ctx.distinct("comp", &[&key, &iv, &comp.iter().map(|&x| x as u8).collect::<Vec<u8>>()]);
            history(ctx, &key, &iv, &comp, "compositions");
            for pos in 0..=comp.len() {
                let mut c2 = comp.clone();
                c2.insert(pos, 0);
                ctx.distinct("comp", &[&key, &iv, &c2.iter().map(|&x| x as u8).collect::<Vec<u8>>()]);
                history(ctx, &key, &iv, &c2, "compositions_with_zero");
            }
            if idx % 1000 == 7 {
                ctx.sample(json!({"key": hex::encode(key), "iv": hex::encode(iv), "requests": comp}));
            }
        }
    }
    ctx.exhaustive("compositions of totals 1..=12 into positive request sizes (4095), each also with one zero-length request at every position", true);

    // --- single requests whose size sits on or next to a power of two / a multiple of 1024, followed by a short request
    {
        let mut pb = ctx.prng("block_sizes");
        let sizes = [255usize, 256, 257, 511, 512, 513, 1023, 1024, 1025, 2047, 2048, 2049, 3072, 4096, 4097, 8192, 65535, 65536, 65537, (1 << 20) - 1, 1 << 20, (1 << 20) + 37, (1 << 21) + 5, (1 << 24) + 1];
        for (si, n) in sizes.iter().enumerate() {
            let key: [u8; 16] = pb.arr();
            let iv: [u8; 16] = pb.arr();
            if !ctx.mine(si as u64) {
                continue;
            }
            ctx.class("request_size_at_block_multiple");
            history(ctx, &key, &iv, &[*n, 3], "request_size_at_block_multiple");
            history(ctx, &key, &iv, &[5, *n], "request_size_at_block_multiple");
        }
    }

    // --- random keys, random splits of longer streams
    let n = ctx.n(400, 20_000);
    let maxw = ctx.n(1 << 16, 1 << 20) as usize;
    let mut prng = ctx.prng("splits");
    for i in 0..n {
        let key: [u8; 16] = prng.arr();
        let iv: [u8; 16] = prng.arr();
        let sub = prng.next();
        if !ctx.mine(i) {
            continue;
        }
        let mut p = Prng::new(sub, "s");
        let total = if i % 50 == 0 { maxw } else { p.range(1, 3000) };
        let mut reqs = vec![];
        let mut left = total;
        while left > 0 {
            let r = match p.below(4) {
                0 => 0,
                1 => 1,
                2 => p.range(1, 40),
                _ => p.range(1, total),
            }
            .min(left);
            reqs.push(r);
            left -= r;
            if reqs.len() > 5000 {
                reqs.push(left);
                break;
            }
        }
        ctx.class("random_keys");
        ctx.distinct("hist", &[&key, &iv, &(total as u64).to_le_bytes(), &(reqs.len() as u64).to_le_bytes()]);
        history(ctx, &key, &iv, &reqs, "random_splits");
    }
}

/// Key/IV pairs for which the reference observes an LFSR feedback congruent to 0 mod 2^31-1 (probability
/// 2^-31 per step) were found once by `gmverif tool zuc-zero-search` (reference generator only) and are
/// frozen in corpus/zuc_zero_feedback.json; each run re-confirms them in the reference and drives the
/// library through the same stream.
fn crafted_zero_feedback(ctx: &mut Ctx) {
    let c = crate::corpus::load("zuc_zero_feedback.json");
    for (i, v) in c["witnesses"].as_array().unwrap().iter().enumerate() {
        let key = crate::corpus::arr16(v, "key");
        let iv = crate::corpus::arr16(v, "iv");
        let words = v["words"].as_u64().unwrap() as usize;
        let mode = v["mode"].as_str().unwrap();
        let mut r = rzuc::Zuc::new(&key, &iv);
        let _ = r.words(words);
        let ok = if mode == "init" { r.zero_feedback_init > 0 } else { r.zero_feedback_work > 0 };
        ctx.selftest(&format!("zuc zero-feedback witness {} ({}) reproduces in the reference", i, mode), ok);
        if ctx.mine(i as u64) {
            ctx.distinct("hist", &[&key, &iv, b"zf"]);
            // stop a few words after the event so that a wrong cell has propagated into the output
            let reqs = [1usize, 0, 7, words.saturating_sub(8).max(1), 40];
            history(ctx, &key, &iv, &reqs, "crafted_zero_feedback");
        }
    }
}

/// One-time search (not run by any check): prints witnesses as JSON.
pub fn tool_zero_search(threads: usize, want_init: usize, want_work: usize) {
    use std::sync::atomic::{AtomicUsize, Ordering};
    use std::sync::Mutex;
    let found_i = AtomicUsize::new(0);
    let found_w = AtomicUsize::new(0);
    let out = Mutex::new(vec![]);
    std::thread::scope(|s| {
        for t in 0..threads {
            let (found_i, found_w, out) = (&found_i, &found_w, &out);
            s.spawn(move || {
                let mut p = Prng::new(0x2026_1003, &format!("zuc-search-{}", t));
                // phase 1: initialisation-mode hits (cheap: construct only)
                while found_i.load(Ordering::Relaxed) < want_init {
                    let key: [u8; 16] = p.arr();
                    let iv: [u8; 16] = p.arr();
                    let r = rzuc::Zuc::new(&key, &iv);
                    if r.zero_feedback_init > 0 {
                        found_i.fetch_add(1, Ordering::Relaxed);
                        out.lock().unwrap().push(json!({"mode": "init", "key": hex::encode(key), "iv": hex::encode(iv), "words": 64}));
                    }
                }
                // phase 2: work-mode hits within the first 2^18 words
                while found_w.load(Ordering::Relaxed) < want_work {
                    let key: [u8; 16] = p.arr();
                    let iv: [u8; 16] = p.arr();
                    let mut r = rzuc::Zuc::new(&key, &iv);
                    let base = r.zero_feedback_work;
                    for n in 0..(1usize << 18) {
                        r.word();
                        if r.zero_feedback_work > base {
                            found_w.fetch_add(1, Ordering::Relaxed);
                            out.lock().unwrap().push(json!({"mode": "work", "key": hex::encode(key), "iv": hex::encode(iv), "words": n + 1 + 32}));
                            break;
                        }
                    }
                }
            });
        }
    });
    println!("{}", serde_json::to_string_pretty(&json!({"witnesses": *out.lock().unwrap()})).unwrap());
}
