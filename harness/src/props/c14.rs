//! C14 — Secret scalars are fresh, in range and full-entropy on every use.
use crate::mon::{guard, Ctx, Outcome, Prng};
use crate::refs::sm2 as r2;
use crate::refs::sm9 as r9;
use crate::{sm2x, sm9x};
use gm_sm2::key::Sm2Model;
use num_bigint::BigUint;
use num_traits::{One, Zero};
use serde_json::json;

/// what one invocation of a randomised operation exposed
struct Seen {
    candidates: Vec<BigUint>,
    injected: Vec<bool>,
    accepted: Vec<BigUint>,
    pending: usize,
}

thread_local! {
    /// scalars that left the generator in the most recent invocation (kept also when `invoke` returns Err)
    static LAST_ACCEPTED: std::cell::RefCell<Vec<BigUint>> = std::cell::RefCell::new(vec![]);
}

fn seen2() -> Seen {
    let s = sm2x::rng_seen();
    LAST_ACCEPTED.with(|l| *l.borrow_mut() = s.accepted.clone());
    Seen { candidates: s.candidates, injected: s.injected, accepted: s.accepted, pending: s.pending }
}
fn seen9() -> Seen {
    let s = sm9x::rng_seen();
    LAST_ACCEPTED.with(|l| *l.borrow_mut() = s.accepted.clone());
    Seen { candidates: s.candidates, injected: s.injected, accepted: s.accepted, pending: s.pending }
}

struct Site {
    name: &'static str,
    sm9: bool,
}

const SITES: [Site; 13] = [
    Site { name: "sm2.gen_keypair", sm9: false },
    Site { name: "sm2.sign", sm9: false },
    Site { name: "sm2.encrypt", sm9: false },
    Site { name: "sm2.exchange_1", sm9: false },
    Site { name: "sm2.exchange_2", sm9: false },
    Site { name: "sm9.generate_sign_master_key", sm9: true },
    Site { name: "sm9.generate_enc_master_key", sm9: true },
    Site { name: "sm9.Sm9EncMasterKey::master_key_generate", sm9: true },
    Site { name: "sm9.Sm9SignMasterKey::master_key_generate", sm9: true },
    Site { name: "sm9.encrypt", sm9: true },
    Site { name: "sm9.sign", sm9: true },
    Site { name: "sm9.exch_step_1a", sm9: true },
    Site { name: "sm9.exch_step_1b", sm9: true },
];

/// a / b as f64 for 256-bit values (top 64 bits of each)
fn ratio(a: &BigUint, b: &BigUint) -> f64 {
    let sh = b.bits().saturating_sub(60);
    let (x, y) = ((a >> sh).to_u64_digits(), (b >> sh).to_u64_digits());
    let f = |v: &Vec<u64>| v.first().copied().unwrap_or(0) as f64;
    f(&x) / f(&y)
}

fn order(sm9: bool) -> &'static BigUint {
    if sm9 {
        &r9::params().n
    } else {
        &r2::curve().n
    }
}

/// Fixed inputs per shard so that invocations differ only in the random scalar.
struct Fix {
    d2: BigUint,
    d2b: BigUint,
    ks: BigUint,
    ke: BigUint,
}

/// Run the operation of `site` once; returns the scalar the OUTPUT demonstrably depends on (recovered
/// with the reference from the output alone) when `deep` is set, else None.
fn invoke(site: &Site, fx: &Fix, p: &mut Prng, deep: bool, inject: &[[u8; 32]]) -> Result<(Seen, Option<Option<BigUint>>), String> {
    let msg = p.bytes(24);
    if site.sm9 {
        gm_sm9::verif_hooks::rng_reset(0);
        for b in inject {
            gm_sm9::verif_hooks::rng_inject(*b);
        }
    } else {
        sm2x::rng_prepare_raw(inject);
    }
    // `used`: Some(Some(k)) = output is consistent with exactly this accepted scalar; Some(None) = inconsistent
    let check = |acc: &Option<BigUint>, f: &dyn Fn(&BigUint) -> bool| -> Option<Option<BigUint>> {
        if !deep {
            return None;
        }
        match acc {
            Some(k) if f(k) => Some(Some(k.clone())),
            _ => Some(None),
        }
    };
    match site.name {
        "sm2.gen_keypair" => {
            let o = guard(|| gm_sm2::key::gen_keypair());
            let s = seen2();
            let (pk, sk) = match o {
                Outcome::Ret(Ok(v)) => v,
                o => return Err(o.class().to_string()),
            };
            let d = r2::from_limbs(&sk.d);
            let acc = s.accepted.last().cloned();
            let used = if acc.as_ref() != Some(&d) { if deep { Some(None) } else { None } } else { check(&acc, &|k| r2::from_lib_point(&pk.point) == r2::mul(k, &r2::g())) };
            let used = if acc.as_ref() != Some(&d) { Some(None) } else { used };
            Ok((s, used))
        }
        "sm2.sign" => {
            let sk = sm2x::lib_sk(&fx.d2).ok_or("key")?;
            let o = guard(|| sk.sign(None, &msg));
            let s = seen2();
            let sig = match o {
                Outcome::Ret(Ok(v)) => v,
                o => return Err(o.class().to_string()),
            };
            // cheap and always: k = s(1+d) + r d
            let k = r2::recover_nonce(&fx.d2, &sig);
            let acc = s.accepted.last().cloned();
            Ok((s, Some(if acc == Some(k.clone()) { Some(k) } else { None })))
        }
        "sm2.encrypt" => {
            let pk = r2::mul(&fx.d2, &r2::g()).unwrap();
            let lpk = sm2x::lib_pk(&pk).ok_or("key")?;
            let o = guard(|| lpk.encrypt(&msg, false, Sm2Model::C1C3C2));
            let s = seen2();
            let ct = match o {
                Outcome::Ret(Ok(v)) => v,
                o => return Err(o.class().to_string()),
            };
            let acc = s.accepted.last().cloned();
            let used = check(&acc, &|k| r2::mul(k, &r2::g()).map(|c1| r2::encode(&c1, false)) == Some(ct[..65].to_vec()));
            Ok((s, used))
        }
        "sm2.exchange_1" | "sm2.exchange_2" => {
            let (ska, skb) = (sm2x::lib_sk(&fx.d2).ok_or("key")?, sm2x::lib_sk(&fx.d2b).ok_or("key")?);
            let mut a = gm_sm2::exchange::Exchange::new(16, None, &ska.public_key, &ska, None, &skb.public_key).map_err(|_| "new")?;
            let mut b = gm_sm2::exchange::Exchange::new(16, None, &skb.public_key, &skb, None, &ska.public_key).map_err(|_| "new")?;
            if site.name == "sm2.exchange_1" {
                let o = guard(|| a.exchange_1());
                let s = seen2();
                let r = match o {
                    Outcome::Ret(Ok(v)) => v,
                    o => return Err(o.class().to_string()),
                };
                let acc = s.accepted.last().cloned();
                let used = check(&acc, &|k| r2::from_lib_point(&r) == r2::mul(k, &r2::g()));
                Ok((s, used))
            } else {
                // R_A from a fixed scalar so that only B's draw is fresh
                let ra = r2::to_lib_point(&r2::mul(&fx.d2b, &r2::g()).unwrap(), &BigUint::one());
                let o = guard(|| b.exchange_2(&ra));
                let s = seen2();
                let (rb, _) = match o {
                    Outcome::Ret(Ok(v)) => v,
                    o => return Err(o.class().to_string()),
                };
                let acc = s.accepted.last().cloned();
                let used = check(&acc, &|k| r2::from_lib_point(&rb) == r2::mul(k, &r2::g()));
                Ok((s, used))
            }
        }
        "sm9.generate_sign_master_key" | "sm9.Sm9SignMasterKey::master_key_generate" => {
            let o = if site.name == "sm9.generate_sign_master_key" { guard(|| gm_sm9::key::generate_sign_master_key()) } else { guard(|| gm_sm9::key::Sm9SignMasterKey::master_key_generate()) };
            let s = seen9();
            let mk = match o {
                Outcome::Ret(v) => v,
                o => return Err(o.class().to_string()),
            };
            let k = r9::from_limbs(&mk.ks);
            let acc = s.accepted.last().cloned();
            let used = if acc.as_ref() != Some(&k) { Some(None) } else { check(&acc, &|k| r9::ref_g2(&mk.ppubs) == r9::g2_mul(k, &r9::g2_gen())) };
            Ok((s, used))
        }
        "sm9.generate_enc_master_key" | "sm9.Sm9EncMasterKey::master_key_generate" => {
            let o = if site.name == "sm9.generate_enc_master_key" { guard(|| gm_sm9::key::generate_enc_master_key()) } else { guard(|| gm_sm9::key::Sm9EncMasterKey::master_key_generate()) };
            let s = seen9();
            let mk = match o {
                Outcome::Ret(v) => v,
                o => return Err(o.class().to_string()),
            };
            let k = r9::from_limbs(&mk.ke);
            let acc = s.accepted.last().cloned();
            let used = if acc.as_ref() != Some(&k) { Some(None) } else { check(&acc, &|k| r9::ref_g1(&mk.ppube) == r9::g1_mul(k, &r9::g1_gen())) };
            Ok((s, used))
        }
        "sm9.encrypt" => {
            let mk = sm9x::enc_master(&fx.ke);
            let o = guard(|| mk.encrypt(b"Bob", &msg));
            let s = seen9();
            let ct = match o {
                Outcome::Ret(v) => v,
                o => return Err(o.class().to_string()),
            };
            let acc = s.accepted.last().cloned();
            let used = check(&acc, &|k| {
                let qb = r9::g1_add(&r9::g1_mul(&r9::h1(b"Bob", r9::HID_ENC), &r9::g1_gen()), &r9::g1_mul(&fx.ke, &r9::g1_gen()));
                r9::g1_mul(k, &qb).map(|c1| r9::pt_bytes(&c1)) == Some(ct[1..65].to_vec())
            });
            Ok((s, used))
        }
        "sm9.sign" => {
            let key = sm9x::sign_key_from_ref(&fx.ks, b"Alice").ok_or("key")?;
            let o = guard(|| key.sign(&msg));
            let s = seen9();
            let (h, sp) = match o {
                Outcome::Ret(Ok(v)) => v,
                o => return Err(o.class().to_string()),
            };
            let acc = s.accepted.last().cloned();
            let used = check(&acc, &|k| match r9::sign(&fx.ks, b"Alice", &msg, k) {
                Some((eh, es)) => eh == r9::from_limbs(&h) && r9::ref_g1(&sp) == Some(es),
                None => false,
            });
            Ok((s, used))
        }
        "sm9.exch_step_1a" => {
            let mk = sm9x::enc_master(&fx.ke);
            let o = guard(|| gm_sm9::key::exch_step_1a(&mk, b"Bob"));
            let s = seen9();
            let (ra, rs) = match o {
                Outcome::Ret(v) => v,
                o => return Err(o.class().to_string()),
            };
            let acc = s.accepted.last().cloned();
            let used = if acc.as_ref() != Some(&r9::from_limbs(&rs)) { Some(None) } else { check(&acc, &|k| r9::ref_g1(&ra) == r9::g1_mul(k, &r9::exch_q(&fx.ke, b"Bob"))) };
            Ok((s, used))
        }
        "sm9.exch_step_1b" => {
            let mk = sm9x::enc_master(&fx.ke);
            let kb = sm9x::enc_key_from_ref(&fx.ke, b"Bob", r9::HID_EXCH).ok_or("key")?;
            let ra = sm9x::lib_g1_affine(&r9::g1_mul(&fx.ks, &r9::exch_q(&fx.ke, b"Bob")).unwrap());
            let o = guard(|| gm_sm9::key::exch_step_1b(&mk, b"Alice", b"Bob", &kb, &ra, 16));
            let s = seen9();
            let (rb, _) = match o {
                Outcome::Ret(Ok(v)) => v,
                o => return Err(o.class().to_string()),
            };
            let acc = s.accepted.last().cloned();
            let used = check(&acc, &|k| r9::ref_g1(&rb) == r9::g1_mul(k, &r9::exch_q(&fx.ke, b"Alice")));
            Ok((s, used))
        }
        _ => Err("unknown site".into()),
    }
}

fn record(ctx: &mut Ctx, site: &Site, seen: &Seen, used: &Option<Option<BigUint>>, label: &str) {
    let ord = order(site.sm9);
    let b32 = |x: &BigUint| if x.bits() <= 256 { r2::b32(x) } else { [0xffu8; 32] };
    // fresh draw in this call
    if seen.candidates.iter().zip(seen.injected.iter()).filter(|(_, inj)| !**inj).count() == 0 && seen.injected.iter().all(|i| *i) && label == "free" {
        ctx.violation(&format!("{}:no-fresh-candidate-drawn", site.name), json!({"site": site.name}));
    }
    if seen.accepted.is_empty() {
        ctx.violation(&format!("{}:no-scalar-left-the-generator", site.name), json!({"site": site.name}));
        return;
    }
    for a in &seen.accepted {
        // range
        if a.is_zero() || a >= ord {
            ctx.violation(&format!("{}:accepted-scalar-out-of-range", site.name), json!({"site": site.name, "scalar": hex::encode(b32(a)), "mode": label}));
        }
    }
    if let Some(u) = used {
        ctx.class("used_equals_drawn_checked");
        if u.is_none() {
            ctx.violation(&format!("{}:scalar-used!=scalar-drawn", site.name), json!({"site": site.name, "accepted": seen.accepted.iter().map(|a| hex::encode(b32(a))).collect::<Vec<_>>(), "mode": label}));
        }
    }
}

pub fn run(ctx: &mut Ctx) {
    for (n, ok) in r2::selftest() {
        ctx.selftest(&n, ok);
    }
    for (n, ok) in r9::selftest(false) {
        ctx.selftest(&n, ok);
    }
    ctx.require(&["free_invocation", "used_equals_drawn_checked", "injection_out_of_range", "injection_rejected_then_valid_used", "injection_long_rejection_run", "consecutive_calls_one_process", "threads", "exchange_object_reuse_step", "inject:0", "inject:order", "inject:order+1", "inject:2^256-1", "inject:sm2_[n,p-2]"]);
    for s in SITES.iter() {
        ctx.required.push(format!("site:{}", s.name));
    }
    let mut p = ctx.prng(&format!("fix{}", ctx.shard));
    let fx = Fix {
        d2: sm2x::rand_scalar(&mut p, &(&r2::curve().n - 1u32)),
        d2b: sm2x::rand_scalar(&mut p, &(&r2::curve().n - 1u32)),
        ks: sm9x::rand_scalar(&mut p, &(&r9::params().n - 1u32)),
        ke: sm9x::rand_scalar(&mut p, &(&r9::params().n - 1u32)),
    };
    // ---- free invocations: range, used = drawn, no repeat (tokens checked across all processes by the driver), bit statistics
    let per_site = ctx.n(512, 8192);
    for site in SITES.iter() {
        for i in 0..per_site {
            if !ctx.mine(i) {
                continue;
            }
            // the reference recomputation costs 15..150 ms: do it on the first invocations and then on every 8th
            let deep = i < 48 || i % 8 == 0;
            ctx.eval();
            ctx.class("free_invocation");
            ctx.class(&format!("site:{}", site.name));
            match invoke(site, &fx, &mut p, deep, &[]) {
                Ok((seen, used)) => {
                    record(ctx, site, &seen, &used, "free");
                    for a in &seen.accepted {
                        if a.bits() <= 256 {
                            let b = r2::b32(a);
                            ctx.unique(site.name, &b[..16]);
                            ctx.bits(site.name, if site.sm9 { "sm9" } else { "sm2" }, &b);
                            ctx.bits(if site.sm9 { "sm9.*pooled" } else { "sm2.*pooled" }, if site.sm9 { "sm9" } else { "sm2" }, &b);
                            ctx.rot(if site.sm9 { "sm9.*pooled" } else { "sm2.*pooled" }, &b);
                            ctx.distinct("scalar", &[&b]);
                        }
                    }
                    if i == 0 && ctx.shard == 0 {
                        ctx.sample(json!({"site": site.name, "candidates_seen": seen.candidates.len(), "accepted": seen.accepted.len(), "used_equals_drawn": used.map(|u| u.is_some())}));
                    }
                }
                Err(e) => ctx.violation(&format!("{}:free:{}", site.name, e), json!({"site": site.name})),
            }
        }
    }
    // ---- 260 consecutive invocations of one site in ONE process (site j in shard j): a generator that repeats or degrades
    // after a number of calls (a counter that wraps at 256, a periodic "refresh") shows only in a long run of one process
    for (j, site) in SITES.iter().enumerate() {
        if j % ctx.nshards != ctx.shard {
            continue;
        }
        let mut run: Vec<BigUint> = vec![];
        for i in 0..260u32 {
            ctx.eval();
            ctx.class("consecutive_calls_one_process");
            match invoke(site, &fx, &mut p, i % 64 == 63, &[]) {
                Ok((seen, used)) => {
                    record(ctx, site, &seen, &used, "consecutive");
                    for a in &seen.accepted {
                        if run.contains(a) {
                            ctx.violation(&format!("{}:scalar-repeated-within-one-process", site.name), json!({"site": site.name, "call_number": i}));
                        }
                        run.push(a.clone());
                        if a.bits() <= 256 {
                            ctx.unique(site.name, &r2::b32(a)[..16]);
                        }
                    }
                }
                Err(e) => {
                    ctx.violation(&format!("{}:consecutive:{}", site.name, e), json!({"site": site.name, "call_number": i}));
                    break;
                }
            }
        }
        // per-process statistic on the top 16 bits of this run's scalars (8 sigma around the exact expectation under the
        // uniform distribution on [1, order-1]): a process whose generator got stuck in a sub-range (for instance because of
        // what the FIRST call in the process looked like, see props/warmup.rs) is invisible in the statistics merged
        // over all processes
        let ord = order(site.sm9);
        let nrun = run.len() as f64;
        if nrun >= 200.0 {
            for b in 240..256u64 {
                // integers in [0, ord) with bit b set
                let full = (ord >> (b + 1)) << b;
                let rem = ord % (BigUint::one() << (b + 1));
                let part = if rem > (BigUint::one() << b) { rem - (BigUint::one() << b) } else { BigUint::zero() };
                let ones = full + part;
                let pbit = ratio(&ones, ord);
                let cnt = run.iter().filter(|a| a.bit(b)).count() as f64;
                let sigma = (nrun * pbit * (1.0 - pbit)).sqrt();
                if sigma > 0.0 && (cnt - nrun * pbit).abs() > 8.0 * sigma + 1.0 {
                    ctx.violation(&format!("{}:bit-frequency-outside-8-sigma-within-one-process", site.name), json!({"site": site.name, "bit": b, "ones": cnt, "of": nrun, "expected": nrun * pbit, "first_calls_in_process": ctx.shard % 4}));
                    break;
                }
            }
            ctx.class("per_process_top_bits_checked");
        }
    }
    if SITES.len() <= ctx.shard {
        ctx.class("consecutive_calls_one_process");
    }
    // ---- histories on reused SM2 Exchange objects: every call that needs a scalar must draw a fresh one, also when
    // the same object already ran a session (as initiator or as responder)
    {
        let reps = ctx.n(6, 60);
        for rep in 0..reps {
            if !ctx.mine(rep) {
                continue;
            }
            let (Some(ska), Some(skb)) = (sm2x::lib_sk(&fx.d2), sm2x::lib_sk(&fx.d2b)) else { break };
            let (Ok(mut a), Ok(mut b)) = (
                gm_sm2::exchange::Exchange::new(16, None, &ska.public_key, &ska, None, &skb.public_key),
                gm_sm2::exchange::Exchange::new(16, None, &skb.public_key, &skb, None, &ska.public_key),
            ) else { break };
            let mut seen_scalars: Vec<BigUint> = vec![];
            // a script of calls on the two objects; A and B swap roles in the middle
            let script: &[&str] = match rep % 3 {
                0 => &["a1", "b2", "a1", "b2", "b1", "a2"],
                1 => &["a1", "a1", "b2", "b2", "a1"],
                _ => &["b1", "a2", "a1", "b2", "b1", "a2", "a1"],
            };
            let mut last_ra: Option<gm_sm2::p256_ecc::Point> = None;
            let mut last_rb: Option<gm_sm2::p256_ecc::Point> = None;
            for (step, op) in script.iter().enumerate() {
                ctx.eval();
                ctx.class("exchange_object_reuse_step");
                sm2x::rng_prepare(&[]);
                let (who, obj, peer_r): (&str, &mut gm_sm2::exchange::Exchange, &Option<gm_sm2::p256_ecc::Point>) = match *op {
                    "a1" => ("A.exchange_1", &mut a, &None),
                    "b1" => ("B.exchange_1", &mut b, &None),
                    "a2" => ("A.exchange_2", &mut a, &last_rb),
                    _ => ("B.exchange_2", &mut b, &last_ra),
                };
                let out = if op.ends_with('1') {
                    guard(|| obj.exchange_1().ok())
                } else {
                    let pr = peer_r.clone().unwrap_or_else(|| r2::to_lib_point(&r2::g().unwrap(), &BigUint::one()));
                    guard(|| obj.exchange_2(&pr).ok().map(|v| v.0))
                };
                let seen = seen2();
                let Outcome::Ret(Some(rpt)) = out else {
                    ctx.violation(&format!("sm2.exchange(reused object):{}:failed", who), json!({"script": script, "step": step}));
                    break;
                };
                if op.starts_with('a') {
                    last_ra = Some(rpt);
                } else {
                    last_rb = Some(rpt);
                }
                let w = json!({"script": script, "step": step, "call": who});
                match seen.accepted.last() {
                    None => {
                        ctx.violation("sm2.exchange(reused object):no-fresh-scalar-drawn", w);
                        break;
                    }
                    Some(k) => {
                        if r2::from_lib_point(&rpt) != r2::mul(k, &r2::g()) {
                            ctx.violation("sm2.exchange(reused object):R!=[r]G-for-the-scalar-drawn-in-this-call", w.clone());
                        }
                        if seen_scalars.contains(k) {
                            ctx.violation("sm2.exchange(reused object):ephemeral-scalar-repeated", w);
                        }
                        seen_scalars.push(k.clone());
                        ctx.unique("sm2.exchange/reused", &r2::b32(k)[..16]);
                    }
                }
            }
            if rep == 0 && ctx.shard == 0 {
                ctx.sample(json!({"exchange_object_reuse_script": script}));
            }
        }
    }
    // ---- threads: 8 threads x (16 SM2 signatures + 12 SM9 master keys) and the spawning thread; scalars must not
    // repeat across threads
    if ctx.shard == 0 {
        let d = fx.d2.clone();
        let mut all: Vec<Vec<[u8; 32]>> = vec![];
        std::thread::scope(|s| {
            let mut hs = vec![];
            for t in 0..8u8 {
                let d = d.clone();
                hs.push(s.spawn(move || {
                    let sk = sm2x::lib_sk(&d).unwrap();
                    let mut out = vec![];
                    for j in 0..16u8 {
                        sm2x::rng_prepare(&[]);
                        if let Ok(sig) = sk.sign(None, &[t, j]) {
                            let k = r2::recover_nonce(&d, &sig);
                            let seen = sm2x::rng_seen();
                            if seen.accepted.last() == Some(&k) {
                                out.push(r2::b32(&k));
                            }
                        }
                    }
                    // scalars of the SM9 generator and of SM2 key generation on this thread (the key is the scalar)
                    for _ in 0..6 {
                        if let Ok(mk) = std::panic::catch_unwind(|| gm_sm9::key::Sm9EncMasterKey::master_key_generate()) {
                            out.push(r9::b32(&r9::from_limbs(&mk.ke)));
                        }
                        if let Ok(mk) = std::panic::catch_unwind(|| gm_sm9::key::generate_sign_master_key()) {
                            out.push(r9::b32(&r9::from_limbs(&mk.ks)));
                        }
                    }
                    out
                }));
            }
            // the spawning thread draws as well: a per-thread generator cloned from one seed repeats here
            {
                let mut out = vec![];
                for _ in 0..6 {
                    if let Outcome::Ret(mk) = guard(|| gm_sm9::key::Sm9EncMasterKey::master_key_generate()) {
                        out.push(r9::b32(&r9::from_limbs(&mk.ke)));
                    }
                    if let Outcome::Ret(mk) = guard(|| gm_sm9::key::generate_sign_master_key()) {
                        out.push(r9::b32(&r9::from_limbs(&mk.ks)));
                    }
                }
                all.push(out);
            }
            for h in hs {
                if let Ok(v) = h.join() {
                    all.push(v);
                }
            }
        });
        let total: usize = all.iter().map(|v| v.len()).sum();
        ctx.evals(total as u64);
        ctx.class_n("threads", total as u64);
        if total != 128 + 9 * 12 {
            ctx.violation("sm2.sign:threads:nonce-used!=nonce-drawn-or-failure", json!({"ok": total}));
        }
        for v in all {
            for b in v {
                ctx.unique("scalar/thread", &b[..16]);
            }
        }
    }
    // ---- injection: out-of-range candidates offered at the byte source must never be accepted or used
    let reps = ctx.n(1, 16);
    let mut idx = 0u64;
    for site in SITES.iter() {
        let ord = order(site.sm9).clone();
        let two256m1: BigUint = (BigUint::one() << 256) - 1u32;
        let mut bad: Vec<(&str, BigUint)> = vec![("0", BigUint::zero()), ("order", ord.clone()), ("order+1", &ord + 1u32), ("order+2", &ord + 2u32), ("2^256-1", two256m1.clone()), ("2^255+order/2", (BigUint::one() << 255) + (&ord >> 1))];
        bad.retain(|(_, v)| v.is_zero() || v >= &ord);
        if !site.sm9 {
            let pm = &r2::curve().p;
            bad.push(("sm2_[n,p-2]", pm - 2u32));
            bad.push(("sm2_[n,p-2]", pm - 3u32));
            bad.push(("sm2_[n,p-2]", (&ord + pm) >> 1));
            bad.push(("sm2_[n,p-2]", &ord + 26u32));
        }
        for rep in 0..reps {
            for (bi, (bn, bv)) in bad.iter().enumerate() {
                idx += 1;
                if !ctx.mine(idx) {
                    continue;
                }
                // queue: [bad] or [bad, bad2, ...] then a valid one
                let mut q: Vec<[u8; 32]> = vec![r2::b32(bv)];
                if rep % 2 == 1 {
                    q.push(r2::b32(&bad[(bi + 1) % bad.len()].1));
                }
                let good = if site.sm9 { sm9x::rand_scalar(&mut p, &(&ord - 1u32)) } else { sm2x::rand_scalar(&mut p, &(&ord - 1u32)) };
                q.push(r2::b32(&good));
                ctx.eval();
                ctx.class("injection_out_of_range");
                ctx.class(&format!("inject:{}", bn));
                ctx.distinct("inject", &[site.name.as_bytes(), &r2::b32(bv), &[rep as u8]]);
                match invoke(site, &fx, &mut p, true, &q) {
                    Ok((seen, used)) => {
                        record(ctx, site, &seen, &used, "inject");
                        for a in &seen.accepted {
                            if a == bv {
                                ctx.violation(&format!("{}:out-of-range-candidate-accepted:{}", site.name, bn), json!({"site": site.name, "candidate": hex::encode(r2::b32(bv)), "class": bn}));
                            }
                        }
                        // every injected out-of-range candidate must be REJECTED, i.e. have no influence: the scalar
                        // that leaves the generator is the valid candidate queued behind them
                        if seen.accepted.last() == Some(&good) && seen.pending == 0 {
                            ctx.class("injection_rejected_then_valid_used");
                        } else {
                            ctx.violation(&format!("{}:out-of-range-candidate-not-rejected:{}", site.name, bn), json!({"site": site.name, "candidate": hex::encode(r2::b32(bv)), "class": bn,
                                "queued_valid": hex::encode(r2::b32(&good)), "accepted": seen.accepted.iter().map(|a| if a.bits() <= 256 { hex::encode(r2::b32(a)) } else { "overflow".into() }).collect::<Vec<_>>(), "queue_left": seen.pending}));
                        }
                    }
                    Err(e) => ctx.violation(&format!("{}:inject:{}", site.name, e), json!({"site": site.name, "candidate": hex::encode(r2::b32(bv))})),
                }
            }
        }
        // a LONG run of consecutive out-of-range candidates (17, 33 or 48 of them) and then a valid one: a sampler that
        // gives up after a bounded number of rejections must not hand out the last rejected candidate. An error
        // return or a refusal is within the property; only a scalar outside the range leaving the generator, or an
        // output that does not correspond to the scalar drawn, is a violation.
        for (li, len) in [17usize, 33, 48].iter().enumerate() {
            idx += 1;
            if !ctx.mine(idx) {
                continue;
            }
            let mut q: Vec<[u8; 32]> = (0..*len).map(|j| r2::b32(&bad[(j + li) % bad.len()].1)).collect();
            let good = if site.sm9 { sm9x::rand_scalar(&mut p, &(&ord - 1u32)) } else { sm2x::rand_scalar(&mut p, &(&ord - 1u32)) };
            q.push(r2::b32(&good));
            ctx.eval();
            ctx.class("injection_long_rejection_run");
            ctx.distinct("inject_long", &[site.name.as_bytes(), &[*len as u8]]);
            LAST_ACCEPTED.with(|l| l.borrow_mut().clear());
            let w = json!({"site": site.name, "run_length": len, "queued_valid": hex::encode(r2::b32(&good))});
            match invoke(site, &fx, &mut p, true, &q) {
                Ok((seen, used)) => {
                    record(ctx, site, &seen, &used, "inject-long-run");
                    if seen.accepted.last() != Some(&good) || seen.pending != 0 {
                        ctx.violation(&format!("{}:long-rejection-run:valid-candidate-behind-the-run-not-used", site.name), w);
                    }
                }
                Err(e) => {
                    ctx.class(&format!("injection_long_rejection_run:gave-up:{}", e));
                    let acc = LAST_ACCEPTED.with(|l| l.borrow().clone());
                    for a in acc {
                        if a.is_zero() || a >= ord {
                            ctx.violation(&format!("{}:accepted-scalar-out-of-range", site.name), json!({"site": site.name, "run_length": len, "scalar": if a.bits() <= 256 { hex::encode(r2::b32(&a)) } else { "overflow".into() }, "mode": "inject-long-run", "operation_outcome": e}));
                        }
                    }
                }
            }
        }
        // the largest legal value order-1 offered at the byte source must be usable (range is [1, order-1])
        idx += 1;
        if ctx.mine(idx) {
            let top = &ord - 1u32;
            let good = if site.sm9 { sm9x::rand_scalar(&mut p, &(&ord - 1u32)) } else { sm2x::rand_scalar(&mut p, &(&ord - 1u32)) };
            ctx.eval();
            match invoke(site, &fx, &mut p, false, &[r2::b32(&top), r2::b32(&good)]) {
                Ok((seen, _)) => {
                    // a generator that is stricter (e.g. [1, order-2]) is still within the property; only count
                    if seen.accepted.last() == Some(&top) {
                        ctx.class("inject:order-1_accepted");
                    } else {
                        ctx.class("inject:order-1_rejected");
                    }
                }
                Err(e) => {
                    // sm2.sign with k = n-1 etc. is legal; an error here is a finding only if it is a crash
                    if e == "panic" || e == "steplimit" {
                        ctx.violation(&format!("{}:inject-order-1:{}", site.name, e), json!({"site": site.name}));
                    }
                }
            }
        }
    }
    ctx.note("'OS-seeded' is observed only as non-repetition across calls, threads and separately started processes plus per-bit 8-sigma statistics; a strong generator that is not OS-seeded but never repeats would pass");
}
