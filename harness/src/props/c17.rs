//! C17 — SM9 key exchange: both sides derive the same, standard-conforming key.
use crate::mon::{guard, hx, Ctx, Outcome, Prng};
use crate::refs::sm9 as r9;
use crate::sm9x::*;
use gm_sm9::key::{exch_step_1a, exch_step_1b, exch_step_2a};
use gm_sm9::points::Point;
use num_bigint::BigUint;
use serde_json::json;

fn wit(ke: &BigUint, ida: &[u8], idb: &[u8], klen: usize, ra: &BigUint, rb: &BigUint) -> serde_json::Value {
    json!({"ke": hex::encode(r9::b32(ke)), "ida": hx(ida), "idb": hx(idb), "klen": klen, "rA": hex::encode(r9::b32(ra)), "rB": hex::encode(r9::b32(rb))})
}

#[derive(Clone, Copy, PartialEq, Debug)]
enum Tamper {
    None,
    RaOther,
    RbOther,
    RaOffCurve,
    RbOffCurve,
    RaBitflipOnCurve,
    RbNeg,
}

fn history(ctx: &mut Ctx, ke: &BigUint, ida: &[u8], idb: &[u8], klen: usize, r_a: &BigUint, r_b: &BigUint, tamper: Tamper, p: &mut Prng) {
    let pr = r9::params();
    let real_mk = enc_master(ke);
    // the parties only hold Ppub-e: every other history uses a placeholder in the ke field for the protocol steps
    let mut mk = real_mk;
    if klen % 2 == 1 {
        mk.ke = [0; 4];
        ctx.class("parties_have_public_master_key_only");
    }
    let w = || json!({"case": wit(ke, ida, idb, klen, r_a, r_b), "tamper": format!("{:?}", tamper)});
    ctx.class(&format!("tamper={:?}", tamper));
    ctx.distinct("hist", &[&r9::b32(ke), ida, idb, &(klen as u32).to_be_bytes(), &r9::b32(r_a), &r9::b32(r_b), &[tamper as u8]]);
    // keys: extracted by the library
    let (ka, kb) = match (guard(|| real_mk.extract_exch_key(ida)), guard(|| real_mk.extract_exch_key(idb))) {
        (Outcome::Ret(Some(a)), Outcome::Ret(Some(b))) => (a, b),
        _ => {
            if r9::extract_enc_key(ke, ida, r9::HID_EXCH).is_some() && r9::extract_enc_key(ke, idb, r9::HID_EXCH).is_some() {
                ctx.violation("extract_exch_key:valid:not-some", w());
            }
            return;
        }
    };
    // step 1a (initiator)
    ctx.eval();
    rng_prepare(&[r_a]);
    let (ra_lib, ra_scalar) = match guard(|| exch_step_1a(&mk, idb)) {
        Outcome::Ret(v) => v,
        o => {
            ctx.violation(&format!("exch_step_1a:{}", o.class()), w());
            return;
        }
    };
    let seen = rng_seen();
    // the scalar that left the generator in this call (the injected one unless a stricter generator refused it)
    let Some(r_a_used) = seen.accepted.last().cloned() else {
        ctx.violation("exch_step_1a:no-scalar-drawn", w());
        return;
    };
    if &r_a_used != r_a {
        ctx.class("injected_r_rejected_by_generator");
    }
    if r9::from_limbs(&ra_scalar) != r_a_used {
        ctx.violation("exch_step_1a:returned-scalar!=drawn-scalar", w());
        return;
    }
    let r_a = &r_a_used;
    let ra_ref = r9::g1_mul(r_a, &r9::exch_q(ke, idb)).unwrap();
    if r9::ref_g1(&ra_lib) != Some(ra_ref.clone()) {
        ctx.violation("exch_step_1a:R_A-differs-from-standard", json!({"case": w(), "expected": g1_hex(&ra_ref), "actual": r9::ref_g1(&ra_lib).as_ref().map(g1_hex)}));
        return;
    }
    // message in transit A -> B
    let ra_seen_by_b: (Point, Option<(BigUint, BigUint)>) = match tamper {
        Tamper::RaOther => {
            let o = r9::g1_mul(&rand_scalar(p, &pr.n), &r9::g1_gen()).unwrap();
            (lib_g1_affine(&o), Some(o))
        }
        Tamper::RaOffCurve => {
            let o = (ra_ref.0.clone(), (&ra_ref.1 + 1u32) % &pr.p);
            (lib_g1_affine(&o), Some(o))
        }
        Tamper::RaBitflipOnCurve => {
            // flip bits of x until the result is again an x coordinate of a curve point
            let mut found = None;
            for bit in 0..256u64 {
                let mut xb = r9::b32(&ra_ref.0);
                xb[31 - (bit / 8) as usize] ^= 1 << (bit % 8);
                let x = r9::from_b(&xb) % &pr.p;
                let rhs = (&x * &x * &x + 5u32) % &pr.p;
                let e = (&pr.p + 1u32) >> 2;
                let y = rhs.modpow(&e, &pr.p);
                if (&y * &y) % &pr.p == rhs {
                    found = Some((x, y));
                    break;
                }
            }
            match found {
                Some(o) => (lib_g1_affine(&o), Some(o)),
                None => return,
            }
        }
        _ => (ra_lib, Some(ra_ref.clone())),
    };
    let ra_b_aff = ra_seen_by_b.1.clone().unwrap();
    // step 1b (responder)
    ctx.eval();
    rng_prepare(&[r_b]);
    let o = guard(|| exch_step_1b(&mk, ida, idb, &kb, &ra_seen_by_b.0, klen));
    let seen = rng_seen();
    let r_b_used = seen.accepted.last().cloned().unwrap_or_else(|| r_b.clone());
    if &r_b_used != r_b {
        ctx.class("injected_r_rejected_by_generator");
    }
    let r_b = &r_b_used;
    let exp_b = r9::exch_responder(ke, ida, idb, &ra_b_aff, r_b, klen);
    let (rb_lib, skb) = match (o, &exp_b) {
        (Outcome::Ret(Err(_)), None) => {
            ctx.class("responder_rejects_offcurve_RA");
            return;
        }
        (Outcome::Ret(Ok(_)), None) => {
            ctx.violation("exch_step_1b:off-curve-R_A:accepted", w());
            return;
        }
        (Outcome::Ret(Ok(v)), Some(_)) => v,
        (o, _) => {
            let c = match &o {
                Outcome::Ret(Err(_)) => "err",
                o => o.class(),
            };
            ctx.violation(&format!("exch_step_1b:valid-R_A:{}", c), w());
            return;
        }
    };
    let (rb_ref, skb_ref) = exp_b.unwrap();
    if r9::ref_g1(&rb_lib) != Some(rb_ref.clone()) {
        ctx.violation("exch_step_1b:R_B-differs-from-standard", json!({"case": w(), "expected": g1_hex(&rb_ref)}));
        return;
    }
    if skb.len() != klen || skb != skb_ref {
        ctx.violation(&format!("exch_step_1b:{}", if skb.len() != klen { "key-length" } else { "SK_B-differs-from-standard" }), json!({"case": w(), "expected": hx(&skb_ref), "actual": hx(&skb)}));
        return;
    }
    // message in transit B -> A
    let rb_seen_by_a: (Point, (BigUint, BigUint)) = match tamper {
        Tamper::RbOther => {
            let o = r9::g1_mul(&rand_scalar(p, &pr.n), &r9::g1_gen()).unwrap();
            (lib_g1_affine(&o), o)
        }
        Tamper::RbOffCurve => {
            let o = ((&rb_ref.0 + 1u32) % &pr.p, rb_ref.1.clone());
            (lib_g1_affine(&o), o)
        }
        Tamper::RbNeg => {
            let o = r9::g1_neg(&Some(rb_ref.clone())).unwrap();
            (lib_g1_affine(&o), o)
        }
        _ => (rb_lib, rb_ref.clone()),
    };
    // step 2a (initiator) - A uses its own R_A
    ctx.eval();
    let o = guard(|| exch_step_2a(&mk, ida, idb, &ka, ra_scalar, &ra_lib, &rb_seen_by_a.0, klen));
    let exp_a = r9::exch_initiator(ke, ida, idb, r_a, &ra_ref, &rb_seen_by_a.1, klen);
    let ska = match (o, &exp_a) {
        (Outcome::Ret(Err(_)), None) => {
            ctx.class("initiator_rejects_offcurve_RB");
            return;
        }
        (Outcome::Ret(Ok(_)), None) => {
            ctx.violation("exch_step_2a:off-curve-R_B:accepted", w());
            return;
        }
        (Outcome::Ret(Ok(v)), Some(_)) => v,
        (o, _) => {
            let c = match &o {
                Outcome::Ret(Err(_)) => "err",
                o => o.class(),
            };
            ctx.violation(&format!("exch_step_2a:valid-R_B:{}", c), w());
            return;
        }
    };
    let ska_ref = exp_a.unwrap();
    if ska.len() != klen || ska != ska_ref {
        ctx.violation(&format!("exch_step_2a:{}", if ska.len() != klen { "key-length" } else { "SK_A-differs-from-standard" }), json!({"case": w(), "expected": hx(&ska_ref), "actual": hx(&ska)}));
        return;
    }
    match tamper {
        Tamper::None => {
            ctx.class("honest_keys_equal");
            if ska != skb {
                ctx.violation("exchange:honest:keys-differ", json!({"case": w(), "SK_A": hx(&ska), "SK_B": hx(&skb)}));
            }
        }
        _ => {
            ctx.class("tampered_keys_differ");
            // with klen bytes of key the two sides may collide by chance with probability 2^-8klen
            if ska == skb && klen >= 8 {
                ctx.violation(&format!("exchange:{:?}:keys-equal-after-tampering", tamper), w());
            }
        }
    }
}

/// B's side alone for an arbitrary VALID G1 point as R_A (its discrete logarithm need not be known): B must answer
/// with the standard's R_B and key.
fn responder_with_point(ctx: &mut Ctx, ke: &BigUint, ida: &[u8], idb: &[u8], klen: usize, ra_pt: &(BigUint, BigUint), r_b: &BigUint, cls: &str) {
    let mk = enc_master(ke);
    let Some(kb) = enc_key_from_ref(ke, idb, r9::HID_EXCH) else { return };
    let Some((rb_ref, sk_ref)) = r9::exch_responder(ke, ida, idb, ra_pt, r_b, klen) else { return };
    if sk_ref.iter().all(|&b| b == 0) {
        return;
    }
    let w = json!({"ke": hex::encode(r9::b32(ke)), "idA": hx(ida), "idB": hx(idb), "klen": klen, "rB": hex::encode(r9::b32(r_b)), "R_A": hex::encode(r9::pt_bytes(ra_pt)), "class": cls});
    ctx.eval();
    ctx.class(cls);
    ctx.distinct("resp", &[&r9::b32(&ra_pt.0), &r9::b32(r_b)]);
    rng_prepare(&[r_b]);
    let o = guard(|| gm_sm9::key::exch_step_1b(&mk, ida, idb, &kb, &lib_g1_affine(ra_pt), klen));
    let seen = rng_seen();
    match o {
        Outcome::Ret(Ok((rb_lib, skb))) => {
            if seen.accepted.last() != Some(r_b) {
                return; // the generator refused the injected scalar (lowest limb zero); compared elsewhere on fresh draws
            }
            if r9::ref_g1(&rb_lib) != Some(rb_ref) || skb != sk_ref {
                ctx.violation(&format!("exch_step_1b:{}:differs-from-standard", cls), w);
            }
        }
        o => ctx.violation(&format!("exch_step_1b:{}:valid-R_A:{}", cls, if let Outcome::Ret(Err(_)) = &o { "err" } else { o.class() }), w),
    }
}

pub fn run(ctx: &mut Ctx) {
    for (n, ok) in r9::selftest(ctx.shard == 0) {
        ctx.selftest(&n, ok);
    }
    ctx.require(&["annex_kat", "interleaved_opposite_master_keys", "honest_keys_equal", "tampered_keys_differ", "responder_rejects_offcurve_RA", "initiator_rejects_offcurve_RB", "tamper=RaOther", "tamper=RbOther", "tamper=RaBitflipOnCurve", "tamper=RbNeg", "klen=1", "klen=128", "parties_have_public_master_key_only", "sparse_ephemeral_scalars", "kdf_direct", "ke=H1(id)_doubling_in_Q", "sk_all_zero_retry_path", "crafted_valid_R_A", "id_beyond_2^16_bits", "same_id_both_parties", "many_calls_one_process", "id_length_sweep", "id_with_nul_bytes"]);
    let pr = r9::params();
    let mut paux = ctx.prng("aux");
    if ctx.shard == 0 {
        let ke = r9::hexn("0002E65B0762D042F51F0D23542B13ED8CFA2E9A0E7206361E013A283905E31F");
        let ra = r9::hexn("00005879DD1D51E175946F23B1B41E93BA31C584AE59A426EC1046A4D03B06C8");
        let rb = r9::hexn("00018B98C44BEF9F8537FB7D071B2C928B3BC65BD3D69E1EEE213564905634FE");
        ctx.class("annex_kat");
        history(ctx, &ke, b"Alice", b"Bob", 16, &ra, &rb, Tamper::None, &mut paux);
        ctx.sample(json!({"annex": {"ke": "0002E65B..E31F", "ida": "Alice", "idb": "Bob", "klen": 16, "SK": "C5C13A8F59A97CDEAE64F16A2272A9E7"}}));
    }
    // --- R_A crafted so that the addition x^3 + 5 of B's on-curve test lands on a carry / reduction boundary
    {
        let mut pc = ctx.prng("crafted_pts");
        let reps = ctx.n(1, 6);
        for _ in 0..reps {
            let sub = pc.next();
            let mut q = Prng::new(sub, "cp");
            for (name, pt) in crafted_g1_points(&mut q, 1, ctx.shard as u64, ctx.nshards as u64) {
                let ke = rand_scalar(&mut q, &(&pr.n - 1u32));
                let r_b = rand_scalar(&mut q, &pr.n);
                let klen = 1 + q.below(48) as usize;
                ctx.class(&format!("crafted:{}", name));
                responder_with_point(ctx, &ke, b"Alice", b"Bob", klen, &pt, &r_b, "crafted_valid_R_A");
            }
        }
    }
    // --- identities containing NUL bytes, trailing blanks or newlines, non-UTF-8 bytes (hashed exactly as given)
    {
        let mut pl = ctx.prng("nul_ids");
        let ids = [b"Bob\0".to_vec(), b"\0Bob".to_vec(), b"Bo\0b".to_vec(), vec![0u8], vec![0u8; 4], b"Bob\0\0".to_vec(), b"Bob ".to_vec(), b" Bob".to_vec(), b"Bob\n".to_vec(), vec![0xffu8, 0xfe, 0x80], b"Alice\x01".to_vec(), b"Alice\x02".to_vec(), b"Alice\x03".to_vec(), vec![1u8], vec![3u8]];
        for k in 0..ids.len() {
            let sub = pl.next();
            if !ctx.mine(k as u64) {
                continue;
            }
            let mut p = Prng::new(sub, "ni");
            let ke = rand_scalar(&mut p, &(&pr.n - 1u32));
            let (ra, rb) = (rand_scalar(&mut p, &(&pr.n - 1u32)), rand_scalar(&mut p, &(&pr.n - 1u32)));
            ctx.class("id_with_nul_bytes");
            history(ctx, &ke, &ids[k], &ids[(k + 3) % ids.len()], 16, &ra, &rb, Tamper::None, &mut p);
        }
    }
    // --- identity lengths 0..=130 for either party (inputs of H1 and of the KDF take every residue modulo the hash block)
    {
        let mut pl = ctx.prng("id_sweep");
        for len in 0..=130u64 {
            let sub = pl.next();
            if !ctx.mine(len) {
                continue;
            }
            let mut p = Prng::new(sub, "ls");
            let ke = rand_scalar(&mut p, &(&pr.n - 1u32));
            let (ra, rb) = (rand_scalar(&mut p, &(&pr.n - 1u32)), rand_scalar(&mut p, &(&pr.n - 1u32)));
            let (ida, idb) = if len % 2 == 0 { (p.bytes(len as usize), p.bytes(3)) } else { (p.bytes(5), p.bytes(len as usize)) };
            ctx.class("id_length_sweep");
            history(ctx, &ke, &ida, &idb, 16, &ra, &rb, Tamper::None, &mut p);
        }
        ctx.exhaustive("identity lengths 0..=130 (alternating parties)", true);
    }
    // --- many calls in one process (call-count dependent faults): the responder step 200 times on one R_A
    if ctx.shard == 0 {
        let mut pm = ctx.prng("many");
        let ke = rand_scalar(&mut pm, &(&pr.n - 1u32));
        let ra_s = rand_scalar(&mut pm, &(&pr.n - 1u32));
        if let Some(ra) = r9::g1_mul(&ra_s, &r9::exch_q(&ke, b"Bob")) {
            for i in 0..200u32 {
                let r_b = rand_scalar(&mut pm, &(&pr.n - 1u32));
                ctx.class("many_calls_one_process");
                let before = ctx.violations.len();
                responder_with_point(ctx, &ke, b"Alice", b"Bob", 16, &ra, &r_b, "many_calls");
                if ctx.violations.len() != before {
                    let _ = i;
                    break;
                }
            }
        }
    } else {
        ctx.class("many_calls_one_process");
    }
    // --- master keys alternating on one thread; every other pair is opposite (ke, N - ke: the two public keys share x)
    {
        let nh = ctx.n(4, 64);
        let mut pi = ctx.prng("interleave");
        for i in 0..nh {
            let sub = pi.next();
            if !ctx.mine(i) {
                continue;
            }
            let mut p = Prng::new(sub, "i");
            let kea = rand_scalar(&mut p, &(&pr.n - 1u32));
            let keb = if i % 2 == 0 { &pr.n - &kea } else { rand_scalar(&mut p, &(&pr.n - 1u32)) };
            for step in 0..4 {
                let ke = if step % 2 == 0 { &kea } else { &keb };
                let (ra, rb) = (rand_scalar(&mut p, &(&pr.n - 1u32)), rand_scalar(&mut p, &(&pr.n - 1u32)));
                ctx.class(if i % 2 == 0 { "interleaved_opposite_master_keys" } else { "interleaved_master_keys" });
                history(ctx, ke, b"Alice", b"Bob", 16 + (step & 1), &ra, &rb, Tamper::None, &mut p);
            }
        }
    }
    // --- the SM9 KDF itself (hook wrapper): every klen 1..=300 plus block-counter boundaries
    {
        let mut pk = ctx.prng("kdf");
        let mut idx = 0u64;
        for klen in (1..=300usize).chain([8160usize, 8161, 8192, 65536 * 32, 65536 * 32 + 5]) {
            idx += 1;
            let zl = pk.range(0, 100);
            let z = pk.bytes(zl);
            if !ctx.mine(idx) {
                continue;
            }
            ctx.eval();
            ctx.class("kdf_direct");
            ctx.distinct("kdf", &[&z, &(klen as u32).to_be_bytes()]);
            let e = crate::refs::sm3::kdf(&z, klen);
            match guard(|| gm_sm9::verif_hooks::kdf(&z, klen)) {
                Outcome::Ret(v) if v == e => {}
                o => ctx.violation(&format!("kdf:klen_mod32={}:{}", klen % 32, if o.is_ret() { "wrong-output" } else { o.class() }), json!({"z": hx(&z), "klen": klen})),
            }
        }
    }
    // --- crafted r_B for which the 1-byte SK_B is 0x00: the library redraws r_B; the run must still be a correct
    // GM/T 0044.3 run for the r_B that was finally used
    let sz = crate::corpus::load("sm9_sk_zero.json");
    for (i, v) in sz["sk_zero"].as_array().unwrap().iter().enumerate() {
        let ke = r9::from_b(&crate::corpus::hexf(v, "ke"));
        let ra = r9::from_b(&crate::corpus::hexf(v, "rA"));
        let rb = r9::from_b(&crate::corpus::hexf(v, "rB"));
        let rap = r9::g1_mul(&ra, &r9::exch_q(&ke, b"Bob")).unwrap();
        ctx.selftest(&format!("SK-all-zero witness {} reproduces in the reference", i), r9::exch_responder(&ke, b"Alice", b"Bob", &rap, &rb, 1).map(|x| x.1) == Some(vec![0u8]));
        if !ctx.mine(i as u64) {
            continue;
        }
        ctx.class("sk_all_zero_retry_path");
        history(ctx, &ke, b"Alice", b"Bob", 1, &ra, &rb, Tamper::None, &mut paux);
    }
    let n = ctx.n(64, 3000);
    let mut prng = ctx.prng("hist");
    let tampers = [Tamper::None, Tamper::None, Tamper::RaOther, Tamper::RbOther, Tamper::RaOffCurve, Tamper::RbOffCurve, Tamper::RaBitflipOnCurve, Tamper::RbNeg];
    for i in 0..n {
        let sub = prng.next();
        if !ctx.mine(i) {
            continue;
        }
        let mut p = Prng::new(sub, "h");
        let ke = scalar_for(&mut p, i % 28);
        // identities beyond the 2^16-bit / 2^16-byte thresholds now and then
        let long = [8186usize, 8192, 20000, 70001][((i / 16) % 4) as usize];
        let la = if i % 16 == 11 { long } else { p.range(0, 24) };
        let ida = p.bytes(la);
        let lb = if i % 16 == 3 { long } else { p.range(1, 24) };
        let idb = p.bytes(lb);
        if la >= 8186 || lb >= 8186 {
            ctx.class("id_beyond_2^16_bits");
        }
        // aliasing: both parties carry the same identity (then also the same private key)
        let idb = if i % 16 == 7 {
            ctx.class("same_id_both_parties");
            ida.clone()
        } else {
            idb
        };
        let ke = if i % 16 == 9 {
            ctx.class("ke=H1(id)_doubling_in_Q");
            r9::h1(&idb, r9::HID_EXCH)
        } else {
            ke
        };
        let klen = match i % 8 {
            0 => 1,
            1 => 128,
            5 if i % 16 == 5 => [255usize, 256, 8160, 8161, 8193, 70_000, 2_100_000][((i / 16) % 7) as usize],
            2 => 32,
            3 => 33,
            _ => p.range(8, 128),
        };
        ctx.class(&format!("klen={}", klen));
        let mut ra = rand_scalar(&mut p, &(&pr.n - 1u32));
        let mut rb = rand_scalar(&mut p, &(&pr.n - 1u32));
        if i % 4 == 1 {
            // ephemeral scalars with zero limbs (2^64, x*2^128 + y, ...) and very small ones
            ctx.class("sparse_ephemeral_scalars");
            ra = if i % 8 == 5 { crate::sm2x::run_scalar(&mut p, &(&pr.n - 1u32)) } else { sparse_scalar(&mut p, 1 + (i / 4) % 14) };
            rb = if i % 8 == 1 { BigUint::from(1 + i % 3) } else { sparse_scalar(&mut p, 1 + (i / 8 + 5) % 14) };
        }
        let t = tampers[((i / 2) % 8) as usize];
        // tampering verdicts need klen >= 8 to make chance collisions negligible
        let klen = if t != Tamper::None && klen < 8 { 16 } else { klen };
        history(ctx, &ke, &ida, &idb, klen, &ra, &rb, t, &mut p);
        if i % 16 == 0 {
            ctx.sample(json!({"history": wit(&ke, &ida, &idb, klen, &ra, &rb), "tamper": format!("{:?}", t)}));
        }
    }
}

/// One-time search (never run by a check): responder scalars r_B for which the 1-byte key SK_B is 0x00
/// (the library then retries with a fresh r_B).
pub fn tool_sk_zero_search() {
    let ke = r9::hexn("0002E65B0762D042F51F0D23542B13ED8CFA2E9A0E7206361E013A283905E31F");
    let ra_s = r9::hexn("00005879DD1D51E175946F23B1B41E93BA31C584AE59A426EC1046A4D03B06C8");
    let ra = r9::g1_mul(&ra_s, &r9::exch_q(&ke, b"Bob")).unwrap();
    let mut out = vec![];
    let mut rb = BigUint::from(2000u32);
    while out.len() < 2 {
        rb += 1u32;
        if let Some((_, sk)) = r9::exch_responder(&ke, b"Alice", b"Bob", &ra, &rb, 1) {
            if sk == [0u8] {
                out.push(json!({"ke": hex::encode(r9::b32(&ke)), "rA": hex::encode(r9::b32(&ra_s)), "rB": hex::encode(r9::b32(&rb)), "klen": 1}));
            }
        }
    }
    println!("{}", serde_json::to_string_pretty(&json!({"sk_zero": out})).unwrap());
}
