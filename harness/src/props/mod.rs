pub mod c01;
pub mod c02;
pub mod c03;
pub mod c04;
pub mod c05;
pub mod c06;
pub mod c07;
pub mod c08;
pub mod c09;
pub mod c10;
pub mod c11;
pub mod c12;
pub mod c13;
pub mod c14;
pub mod c15;
pub mod c16;
pub mod c17;
pub mod c18;
pub mod c19;
pub mod c20;
pub mod tools_sm2;
pub mod warmup;
pub mod zuc_state;

use crate::mon::Ctx;

/// Returns false for an unknown property id.
pub fn run(prop: &str, ctx: &mut Ctx, extra: &[String]) -> bool {
    let _ = extra;
    if prop.len() == 3 && prop.starts_with('C') {
        warmup::run(prop, ctx);
    }
    match prop {
        "C01" => c01::run(ctx),
        "C02" => c02::run(ctx),
        "C03" => c03::run(ctx),
        "C04" => c04::run(ctx),
        "C05" => c05::run(ctx),
        "C06" => c06::run(ctx),
        "C07" => c07::run(ctx),
        "C08" => c08::run(ctx),
        "C09" => c09::run(ctx),
        "C10" => c10::run(ctx),
        "C11" => c11::run(ctx),
        "C12" => c12::run(ctx),
        "C13" => c13::run(ctx),
        "C14" => c14::run(ctx),
        "C15" => c15::run(ctx),
        "C16" => c16::run(ctx),
        "C17" => c17::run(ctx),
        "C18" => c18::run(ctx),
        "C19" => c19::run(ctx),
        "C20" => c20::run(ctx),
        _ => return false,
    }
    true
}

/// One-time tools (corpus generation / witness searches); never run by a check.
pub fn tool(args: &[String]) {
    match args.first().map(|s| s.as_str()) {
        Some("zuc-zero-search") => c08::tool_zero_search(16, 3, 3),
        Some("selftest") => {
            let t = std::time::Instant::now();
            for (n, ok) in crate::refs::sm9::selftest(true) {
                println!("{} {}", if ok { "ok  " } else { "FAIL" }, n);
            }
            println!("sm9 selftest {:.2}s", t.elapsed().as_secs_f64());
            let t = std::time::Instant::now();
            for (n, ok) in crate::refs::sm2::selftest() {
                println!("{} {}", if ok { "ok  " } else { "FAIL" }, n);
            }
            println!("sm2 selftest {:.2}s", t.elapsed().as_secs_f64());
        }
        Some("bench") => {
            use crate::refs::{sm2 as r2, sm9 as r9};
            let k = r2::hexn("59276E27D506861A16680F3AD9C02DCCEF3CC1FA3CDBE4CE6D54B80DEAC1BC21");
            let t = std::time::Instant::now();
            for _ in 0..20 { let _ = r2::mul(&k, &r2::g()); }
            println!("sm2 ref mul: {:.2} ms", t.elapsed().as_secs_f64() * 50.0);
            let t = std::time::Instant::now();
            for _ in 0..20 { let _ = r9::g1_mul(&k, &r9::g1_gen()); }
            println!("sm9 ref g1_mul: {:.2} ms", t.elapsed().as_secs_f64() * 50.0);
            let t = std::time::Instant::now();
            for _ in 0..5 { let _ = r9::g2_mul(&k, &r9::g2_gen()); }
            println!("sm9 ref g2_mul: {:.2} ms", t.elapsed().as_secs_f64() * 200.0);
            let pr = r9::params();
            let t = std::time::Instant::now();
            for _ in 0..5 { let _ = r9::pairing(&pr.p1, &pr.p2); }
            println!("sm9 ref pairing: {:.2} ms", t.elapsed().as_secs_f64() * 200.0);
            let g = r9::pairing(&pr.p1, &pr.p2).unwrap();
            let t = std::time::Instant::now();
            for _ in 0..5 { let _ = r9::f12pow(&g, &k); }
            println!("sm9 ref f12pow: {:.2} ms", t.elapsed().as_secs_f64() * 200.0);
        }
        Some("sm9-sk-zero-search") => c17::tool_sk_zero_search(),
        Some("sm9-k1-zero-search") => c10::tool_k1_zero_search(),
        Some("sm2-zero-coord") => tools_sm2::zero_coord_search(16),
        Some("sm2-search") => tools_sm2::search(16, 2, 2),
        _ => eprintln!("unknown tool"),
    }
}
