pub mod c01;
pub mod c02;
pub mod c07;
pub mod c08;
pub mod c18;

use crate::mon::Ctx;

/// Returns false for an unknown property id.
pub fn run(prop: &str, ctx: &mut Ctx, extra: &[String]) -> bool {
    let _ = extra;
    match prop {
        "C01" => c01::run(ctx),
        "C02" => c02::run(ctx),
        "C07" => c07::run(ctx),
        "C08" => c08::run(ctx),
        "C18" => c18::run(ctx),
        _ => return false,
    }
    true
}

/// One-time tools (corpus generation / witness searches); never run by a check.
pub fn tool(args: &[String]) {
    match args.first().map(|s| s.as_str()) {
        Some("zuc-zero-search") => c08::tool_zero_search(16, 3, 3),
        _ => eprintln!("unknown tool"),
    }
}
