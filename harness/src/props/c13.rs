//! C13 — SM9 field tower, mod-N arithmetic and G1/G2 group operations are exact.
//! Every tower element is embedded into Fp[w]/(w^12+2) (u = w^6, v = w^3) and every library
//! operation is compared with the corresponding polynomial-basis reference operation.
use crate::mon::{guard, Ctx, Outcome, Prng};
use crate::refs::sm9::{self as r9, F12, F2};
use crate::sm9x::*;
use gm_sm9::fields::fp::Fp;
use gm_sm9::fields::FieldElement;
use gm_sm9::points::{Point, TwistPoint};
use gm_sm9::verif_hooks::{self as hk, Fp12, Fp2, Fp4};
use num_bigint::BigUint;
use num_traits::{One, Zero};
use serde_json::json;

type L = [u64; 4];

fn hl(a: &L) -> String {
    hex::encode(crate::mon::limbs_to_be(a))
}

// ---- embeddings (library value -> 12 coefficients). A stored coefficient that is not reduced (limbs >= p, e.g. p itself
// for zero) is mapped to the out-of-range marker p, which no reference value equals: the library compares and tests
// for zero on the stored limbs, so a non-canonical result is a wrong result.
fn cf(a: &L) -> BigUint {
    if r9::from_limbs(a) >= r9::params().p {
        r9::params().p.clone()
    } else {
        r9::from_mont(a)
    }
}
fn e_fp(a: &L) -> F12 {
    let mut v = r9::f12zero();
    v[0] = cf(a);
    v
}
fn e_f2(a: &Fp2) -> F12 {
    let p = hk::fp2_parts(a);
    let mut v = r9::f12zero();
    v[0] = cf(&p[0]);
    v[6] = cf(&p[1]);
    v
}
fn e_f4(a: &Fp4) -> F12 {
    let p = hk::fp4_parts(a);
    let mut v = r9::f12zero();
    v[0] = cf(&p[0]);
    v[6] = cf(&p[1]);
    v[3] = cf(&p[2]);
    v[9] = cf(&p[3]);
    v
}
fn e_f12(a: &Fp12) -> F12 {
    r9::ref_f12(a)
}
fn mono(k: usize) -> F12 {
    let mut v = r9::f12zero();
    v[k] = BigUint::one();
    v
}
fn fmt12(a: &F12) -> Vec<String> {
    a.iter().map(|c| hex::encode(r9::b32(c))).collect()
}

// ---- operand generators: coefficient values with boundary classes
fn coeff(p: &mut Prng, kind: u64) -> BigUint {
    let pp = &r9::params().p;
    match kind % 10 {
        0 => BigUint::zero(),
        1 => BigUint::one(),
        2 => pp - 1u32,
        3 => pp - 2u32,
        4 => (pp - 1u32) >> 1,
        5 => BigUint::from(p.below(16)),
        6 => {
            // boundary limbs
            let lims = [0u64, 1, 1 << 32, 1 << 63, u64::MAX];
            let l = [*p.pick(&lims), *p.pick(&lims), *p.pick(&lims), *p.pick(&lims)];
            r9::from_limbs(&l) % pp
        }
        _ => rand_scalar(p, pp),
    }
}
fn mk_f2(c: &[BigUint]) -> Fp2 {
    hk::fp2_new([r9::to_mont(&c[0]), r9::to_mont(&c[1])])
}
fn mk_f4(c: &[BigUint]) -> Fp4 {
    hk::fp4_new([r9::to_mont(&c[0]), r9::to_mont(&c[1]), r9::to_mont(&c[2]), r9::to_mont(&c[3])])
}
fn mk_f12(c: &[BigUint]) -> Fp12 {
    let mut parts = [[0u64; 4]; 12];
    for i in 0..12 {
        parts[i] = r9::to_mont(&c[i]);
    }
    hk::fp12_new(parts)
}
/// coefficients with the components selected by `mask` forced to zero, the others non-zero
fn coeffs(p: &mut Prng, n: usize, zero_mask: u32, flavour: u64) -> Vec<BigUint> {
    (0..n)
        .map(|i| {
            if zero_mask >> i & 1 == 1 {
                BigUint::zero()
            } else {
                let kind = if flavour == 0 { 7 } else { p.next() };
                let mut c = coeff(p, kind);
                if c.is_zero() {
                    c = BigUint::one();
                }
                c
            }
        })
        .collect()
}

struct Chk<'a> {
    ctx: &'a mut Ctx,
}
impl<'a> Chk<'a> {
    fn cmp(&mut self, op: &str, cls: &str, got: Outcome<F12>, want: &F12, inputs: impl FnOnce() -> serde_json::Value) {
        self.ctx.eval();
        self.ctx.class(op);
        match got {
            Outcome::Ret(g) if &g == want => {}
            Outcome::Ret(g) => self.ctx.violation(&format!("{}:{}:wrong-value", op, cls), json!({"op": op, "class": cls, "inputs": inputs(), "expected": fmt12(want), "actual": fmt12(&g)})),
            o => self.ctx.violation(&format!("{}:{}:{}", op, cls, o.class()), json!({"op": op, "class": cls, "inputs": inputs(), "outcome": format!("{:?}", o)})),
        }
    }
}

fn zero_class(mask: u32, n: usize) -> String {
    if mask == 0 {
        "dense".into()
    } else if mask == (1 << n) - 1 {
        "all_zero".into()
    } else {
        "some_components_zero".into()
    }
}

fn tower_layer(ctx: &mut Ctx) {
    let pr = r9::params();
    let half = BigUint::from(2u32).modinv(&pr.p).unwrap();
    let mut prng = ctx.prng("tower");
    let mut k = Chk { ctx };
    // ---------- Fp
    let nfp = k.ctx.n(400, 20_000);
    for i in 0..nfp {
        let a = coeff(&mut prng, i);
        let b = coeff(&mut prng, i / 10);
        let e = r9::from_b(&prng.bytes(32));
        if !k.ctx.mine(i) {
            continue;
        }
        let (la, lb): (Fp, Fp) = (r9::to_mont(&a), r9::to_mont(&b));
        let (ea, eb) = (e_fp(&la), e_fp(&lb));
        k.ctx.distinct("fp", &[&r9::b32(&a), &r9::b32(&b)]);
        let inp = || json!({"a": hl(&la), "b": hl(&lb)});
        k.cmp("Fp::fp_add", "", guard(|| e_fp(&la.fp_add(&lb))), &r9::f12add(&ea, &eb), inp);
        k.cmp("Fp::fp_sub", "", guard(|| e_fp(&la.fp_sub(&lb))), &r9::f12sub(&ea, &eb), inp);
        k.cmp("Fp::fp_mul", "", guard(|| e_fp(&la.fp_mul(&lb))), &r9::f12mul(&ea, &eb), inp);
        k.cmp("Fp::fp_sqr", "", guard(|| e_fp(&la.fp_sqr())), &r9::f12mul(&ea, &ea), inp);
        k.cmp("Fp::fp_neg", "", guard(|| e_fp(&la.fp_neg())), &r9::f12neg(&ea), inp);
        k.cmp("Fp::fp_double", "", guard(|| e_fp(&la.fp_double())), &r9::f12add(&ea, &ea), inp);
        k.cmp("Fp::fp_triple", "", guard(|| e_fp(&la.fp_triple())), &r9::f12scal(&ea, &BigUint::from(3u32)), inp);
        k.cmp("Fp::fp_div2", "", guard(|| e_fp(&la.fp_div2())), &r9::f12scal(&ea, &half), inp);
        if !a.is_zero() {
            k.cmp("Fp::fp_inv", "", guard(|| e_fp(&la.fp_inv())), &r9::f12inv(&ea).unwrap(), inp);
        }
        if i % 8 == 0 {
            let e = if i % 16 == 0 { sparse_scalar(&mut prng, 1 + (i / 16) % 14) } else { e };
            let le = r9::to_limbs(&e);
            let mut want = r9::f12zero();
            want[0] = a.modpow(&e, &pr.p);
            k.cmp("fp_pow", "", guard(|| e_fp(&hk::fp_pow(&la, &le))), &want, inp);
        }
        // raw Montgomery helpers: plain value in, Montgomery value out and back
        let raw = r9::to_limbs(&a);
        k.ctx.eval();
        k.ctx.class("fp_to_mont/from_mont");
        if gm_sm9::fields::fp::fp_to_mont(&raw) != la || gm_sm9::fields::fp::fp_from_mont(&la) != raw || la.to_bytes_be() != r9::b32(&a) || hk::fp_from_bytes(&r9::b32(&a)) != la {
            k.ctx.violation("fp_to_mont/from_mont/to_bytes:wrong", json!({"a": hex::encode(r9::b32(&a))}));
        }
    }
    // ---------- Fp2: all 4 zero-subsets x flavours
    let reps = k.ctx.n(40, 2000);
    let mut idx = 0u64;
    for rep in 0..reps {
        for mask in 0..4u32 {
            for mask_b in 0..4u32 {
                let ca = coeffs(&mut prng, 2, mask, rep % 3);
                let cb = coeffs(&mut prng, 2, mask_b, (rep + 1) % 3);
                let kf = coeff(&mut prng, rep);
                idx += 1;
                if !k.ctx.mine(idx) {
                    continue;
                }
                let (a, b) = (mk_f2(&ca), mk_f2(&cb));
                let (ea, eb) = (e_f2(&a), e_f2(&b));
                let cls = format!("a_{}", zero_class(mask, 2));
                k.ctx.class(&format!("fp2_zero_mask={}", mask));
                k.ctx.distinct("fp2", &[&r9::b32(&ca[0]), &r9::b32(&ca[1]), &r9::b32(&cb[0]), &r9::b32(&cb[1])]);
                let inp = || json!({"a": fmt12(&ea)[..].iter().step_by(6).cloned().collect::<Vec<_>>(), "b": [hex::encode(r9::b32(&cb[0])), hex::encode(r9::b32(&cb[1]))]});
                k.cmp("Fp2::fp_add", &cls, guard(|| e_f2(&a.fp_add(&b))), &r9::f12add(&ea, &eb), inp);
                k.cmp("Fp2::fp_sub", &cls, guard(|| e_f2(&a.fp_sub(&b))), &r9::f12sub(&ea, &eb), inp);
                k.cmp("Fp2::fp_mul", &cls, guard(|| e_f2(&a.fp_mul(&b))), &r9::f12mul(&ea, &eb), inp);
                k.cmp("Fp2::fp_sqr", &cls, guard(|| e_f2(&a.fp_sqr())), &r9::f12mul(&ea, &ea), inp);
                k.cmp("Fp2::fp_neg", &cls, guard(|| e_f2(&a.fp_neg())), &r9::f12neg(&ea), inp);
                k.cmp("Fp2::fp_double", &cls, guard(|| e_f2(&a.fp_double())), &r9::f12add(&ea, &ea), inp);
                k.cmp("Fp2::fp_triple", &cls, guard(|| e_f2(&a.fp_triple())), &r9::f12scal(&ea, &BigUint::from(3u32)), inp);
                k.cmp("Fp2::fp_div2", &cls, guard(|| e_f2(&a.fp_div2())), &r9::f12scal(&ea, &half), inp);
                if mask != 3 {
                    k.cmp("Fp2::fp_inv", &cls, guard(|| e_f2(&a.fp_inv())), &r9::f12inv(&ea).unwrap(), inp);
                    k.cmp("Fp2::div", &cls, guard(|| e_f2(&hk::fp2_div(&b, &a))), &r9::f12mul(&eb, &r9::f12inv(&ea).unwrap()), inp);
                }
                let lk = r9::to_mont(&kf);
                k.cmp("Fp2::fp_mul_fp", &cls, guard(|| e_f2(&hk::fp2_mul_fp(&a, &lk))), &r9::f12scal(&ea, &kf), inp);
                k.cmp("Fp2::conjugate", &cls, guard(|| e_f2(&hk::fp2_conjugate(&a))), &r9::f12frob(&ea, 1), inp);
                k.cmp("Fp2::a_mul_u", &cls, guard(|| e_f2(&hk::fp2_a_mul_u(&a))), &r9::f12mul(&ea, &mono(6)), inp);
                k.cmp("Fp2::fp_mul_u", &cls, guard(|| e_f2(&hk::fp2_mul_u(&a, &b))), &r9::f12mul(&r9::f12mul(&ea, &eb), &mono(6)), inp);
                k.cmp("Fp2::sqr_u", &cls, guard(|| e_f2(&hk::fp2_sqr_u(&a))), &r9::f12mul(&r9::f12mul(&ea, &ea), &mono(6)), inp);
                k.ctx.eval();
                if a.is_zero() != (mask == 3) || (a == b) != (ca == cb) {
                    k.ctx.violation("Fp2::is_zero/eq:wrong", inp());
                }
                let mut tb = r9::b32(&ca[1]).to_vec();
                tb.extend_from_slice(&r9::b32(&ca[0]));
                if a.to_bytes_be() != tb {
                    k.ctx.violation("Fp2::to_bytes_be:wrong", inp());
                }
            }
        }
    }
    k.ctx.exhaustive("Fp2: all 4 x 4 zero-component subsets of both operands", true);
    // ---------- Fp4: all 16 zero-subsets
    let reps = k.ctx.n(6, 300);
    idx = 0;
    for rep in 0..reps {
        for mask in 0..16u32 {
            for mb in [0u32, 5, 10, 12, 3, 15, mask] {
                let ca = coeffs(&mut prng, 4, mask, rep % 3);
                let cb = coeffs(&mut prng, 4, mb, (rep + 1) % 3);
                let kf = coeff(&mut prng, rep);
                let k2 = coeffs(&mut prng, 2, (rep % 4) as u32 % 3, 1);
                idx += 1;
                if !k.ctx.mine(idx) {
                    continue;
                }
                let (a, b) = (mk_f4(&ca), mk_f4(&cb));
                let (ea, eb) = (e_f4(&a), e_f4(&b));
                let cls = format!("a_{}", zero_class(mask, 4));
                k.ctx.class(&format!("fp4_zero_mask={:02}", mask));
                k.ctx.distinct("fp4", &[&ca.iter().flat_map(|c| r9::b32(c)).collect::<Vec<u8>>(), &cb.iter().flat_map(|c| r9::b32(c)).collect::<Vec<u8>>()]);
                let inp = || json!({"a": ca.iter().map(|c| hex::encode(r9::b32(c))).collect::<Vec<_>>(), "b": cb.iter().map(|c| hex::encode(r9::b32(c))).collect::<Vec<_>>()});
                k.cmp("Fp4::fp_add", &cls, guard(|| e_f4(&a.fp_add(&b))), &r9::f12add(&ea, &eb), inp);
                k.cmp("Fp4::fp_sub", &cls, guard(|| e_f4(&a.fp_sub(&b))), &r9::f12sub(&ea, &eb), inp);
                k.cmp("Fp4::fp_mul", &cls, guard(|| e_f4(&a.fp_mul(&b))), &r9::f12mul(&ea, &eb), inp);
                k.cmp("Fp4::fp_sqr", &cls, guard(|| e_f4(&a.fp_sqr())), &r9::f12mul(&ea, &ea), inp);
                k.cmp("Fp4::fp_neg", &cls, guard(|| e_f4(&a.fp_neg())), &r9::f12neg(&ea), inp);
                k.cmp("Fp4::fp_double", &cls, guard(|| e_f4(&a.fp_double())), &r9::f12add(&ea, &ea), inp);
                k.cmp("Fp4::fp_triple", &cls, guard(|| e_f4(&a.fp_triple())), &r9::f12scal(&ea, &BigUint::from(3u32)), inp);
                k.cmp("Fp4::fp_div2", &cls, guard(|| e_f4(&a.fp_div2())), &r9::f12scal(&ea, &half), inp);
                if mask != 15 {
                    k.cmp("Fp4::fp_inv", &cls, guard(|| e_f4(&a.fp_inv())), &r9::f12inv(&ea).unwrap(), inp);
                }
                let lk = r9::to_mont(&kf);
                k.cmp("Fp4::fp_mul_fp", &cls, guard(|| e_f4(&hk::fp4_mul_fp(&a, &lk))), &r9::f12scal(&ea, &kf), inp);
                let f2k = mk_f2(&k2);
                k.cmp("Fp4::fp_mul_fp2", &cls, guard(|| e_f4(&hk::fp4_mul_fp2(&a, &f2k))), &r9::f12mul(&ea, &e_f2(&f2k)), inp);
                k.cmp("Fp4::fp_mul_v", &cls, guard(|| e_f4(&hk::fp4_mul_v(&a, &b))), &r9::f12mul(&r9::f12mul(&ea, &eb), &mono(3)), inp);
                k.cmp("Fp4::a_mul_v", &cls, guard(|| e_f4(&hk::fp4_a_mul_v(&a))), &r9::f12mul(&ea, &mono(3)), inp);
                k.cmp("Fp4::sqr_v", &cls, guard(|| e_f4(&hk::fp4_sqr_v(&a))), &r9::f12mul(&r9::f12mul(&ea, &ea), &mono(3)), inp);
                // conjugate over Fp2: v -> -v  (= p^2-power Frobenius on Fp4)
                k.cmp("Fp4::conjugate", &cls, guard(|| e_f4(&hk::fp4_conjugate(&a))), &r9::f12frob(&ea, 2), inp);
                k.ctx.eval();
                if a.is_zero() != (mask == 15) {
                    k.ctx.violation("Fp4::is_zero:wrong", inp());
                }
                if (a == b) != (ca == cb) || a != a.fp_add(&Fp4::zero()) || e_f4(&a.fp_mul(&Fp4::one())) != ea {
                    k.ctx.violation("Fp4::eq/one/zero:wrong", inp());
                }
            }
        }
    }
    k.ctx.exhaustive("Fp4: all 16 zero-component subsets", true);
    // ---------- Fp12: all 4096 zero-subsets (unary ops + product with a dense and a sparse element)
    let reps = k.ctx.n(1, 12);
    idx = 0;
    for rep in 0..reps {
        for mask in 0..4096u32 {
            let ca = coeffs(&mut prng, 12, mask, (rep + mask as u64) % 3);
            let mb = if mask % 3 == 0 { 0 } else { (prng.next() as u32) & 0xfff };
            let cb = coeffs(&mut prng, 12, mb, 0);
            idx += 1;
            if !k.ctx.mine(idx) {
                continue;
            }
            let (a, b) = (mk_f12(&ca), mk_f12(&cb));
            let (ea, eb) = (e_f12(&a), e_f12(&b));
            let cls = format!("a_{}", zero_class(mask, 12));
            k.ctx.class("fp12_zero_subset");
            if hk::fp12_parts(&a)[8..].iter().all(|c| *c == [0u64; 4]) {
                k.ctx.class("fp12_c2_zero_branch");
            }
            k.ctx.distinct("fp12", &[&ca.iter().flat_map(|c| r9::b32(c)).collect::<Vec<u8>>(), &cb.iter().flat_map(|c| r9::b32(c)).collect::<Vec<u8>>()]);
            let inp = || json!({"a_tower_coeffs": ca.iter().map(|c| hex::encode(r9::b32(c))).collect::<Vec<_>>(), "b_zero_mask": mb, "a_zero_mask": mask});
            k.cmp("Fp12::fp_mul", &cls, guard(|| e_f12(&a.fp_mul(&b))), &r9::f12mul(&ea, &eb), inp);
            k.cmp("Fp12::fp_sqr", &cls, guard(|| e_f12(&a.fp_sqr())), &r9::f12mul(&ea, &ea), inp);
            if mask != 4095 {
                k.cmp("Fp12::fp_inv", &cls, guard(|| e_f12(&a.fp_inv())), &r9::f12inv(&ea).unwrap(), inp);
            }
            k.cmp("Fp12::fp_neg", &cls, guard(|| e_f12(&a.fp_neg())), &r9::f12neg(&ea), inp);
            k.cmp("Fp12::fp_div2", &cls, guard(|| e_f12(&a.fp_div2())), &r9::f12scal(&ea, &half), inp);
            k.cmp("Fp12::fp_double", &cls, guard(|| e_f12(&a.fp_double())), &r9::f12add(&ea, &ea), inp);
            k.cmp("Fp12::fp_triple", &cls, guard(|| e_f12(&a.fp_triple())), &r9::f12scal(&ea, &BigUint::from(3u32)), inp);
            k.cmp("Fp12::fp_add", &cls, guard(|| e_f12(&a.fp_add(&b))), &r9::f12add(&ea, &eb), inp);
            k.cmp("Fp12::fp_sub", &cls, guard(|| e_f12(&a.fp_sub(&b))), &r9::f12sub(&ea, &eb), inp);
            for fk in [1u32, 2, 3, 6] {
                k.cmp(&format!("Fp12::frobenius^{}", fk), &cls, guard(|| e_f12(&hk::fp12_frobenius(&a, fk))), &r9::f12frob(&ea, fk as usize), inp);
            }
            if mask % 64 == 1 {
                // sparse line multiplication: L = l0 + l1 w^2 + l2 w^3
                let lw = [mk_f2(&coeffs(&mut prng, 2, mask & 3, 0)), mk_f2(&coeffs(&mut prng, 2, (mask >> 2) & 3, 0)), mk_f2(&coeffs(&mut prng, 2, (mask >> 4) & 3, 0))];
                let l0 = e_f2(&lw[0]);
                let l1 = r9::f12mul(&e_f2(&lw[1]), &mono(2));
                let l2 = r9::f12mul(&e_f2(&lw[2]), &mono(3));
                let line = r9::f12add(&r9::f12add(&l0, &l1), &l2);
                k.cmp("Fp12::fp_line_mul", &cls, guard(|| e_f12(&hk::fp12_line_mul(&b, &lw))), &r9::f12mul(&eb, &line), inp);
                let e = match (mask / 64) % 8 {
                    0 => BigUint::zero(),
                    1 => BigUint::one(),
                    2 => &pr.n - 1u32,
                    3 | 4 | 5 => {
                        k.ctx.class("pow_sparse_exponent");
                        sparse_scalar(&mut prng, 1 + (mask as u64 / 512) % 14)
                    }
                    _ => rand_scalar(&mut prng, &pr.n),
                };
                let le = limbs(&e);
                k.cmp("Fp12::pow", &cls, guard(|| e_f12(&hk::fp12_pow(&b, &le))), &r9::f12pow(&eb, &e), inp);
            }
            if mask % 512 == 3 {
                k.cmp("Fp12::final_exponent", &cls, guard(|| e_f12(&hk::fp12_final_exponent(&b))), &r9::final_exp(&eb), inp);
            }
            k.ctx.eval();
            if a.is_zero() != (mask == 4095) {
                k.ctx.violation("Fp12::is_zero:wrong", inp());
            }
            if (a == b) != (ca == cb) || a != a.fp_add(&Fp12::zero()) || e_f12(&a.fp_mul(&Fp12::one())) != ea {
                k.ctx.violation("Fp12::eq/one/zero:wrong", inp());
            }
            let tb = a.to_bytes_be();
            if tb != r9::f12bytes(&ea) {
                k.ctx.violation("Fp12::to_bytes_be:wrong-order-or-value", inp());
            }
        }
    }
    k.ctx.exhaustive("Fp12: all 4096 zero-component subsets of the first operand", true);
}

fn modn_layer(ctx: &mut Ctx) {
    let n = &r9::params().n;
    let mut prng = ctx.prng("modn");
    let cnt = ctx.n(3000, 300_000);
    let anchors = |p: &mut Prng, kind: u64| -> BigUint {
        match kind % 9 {
            0 => BigUint::zero(),
            1 => BigUint::one(),
            2 => n - 1u32,
            3 => n - 2u32,
            4 => (n - 1u32) >> 1,
            5 => ((BigUint::one() << 256) - n) % n,
            6 => {
                let lims = [0u64, 1, 1 << 32, 1 << 63, u64::MAX];
                r9::from_limbs(&[*p.pick(&lims), *p.pick(&lims), *p.pick(&lims), *p.pick(&lims)]) % n
            }
            _ => rand_scalar(p, n),
        }
    };
    for i in 0..cnt {
        let a = anchors(&mut prng, i);
        let b = anchors(&mut prng, i / 9);
        let e = r9::from_b(&prng.bytes(32));
        if !ctx.mine(i) {
            continue;
        }
        let (la, lb) = (limbs(&a), limbs(&b));
        ctx.distinct("modn", &[&r9::b32(&a), &r9::b32(&b)]);
        let mut chk = |ctx: &mut Ctx, op: &str, got: Outcome<L>, want: BigUint| {
            ctx.eval();
            ctx.class(op);
            match got {
                Outcome::Ret(g) if r9::from_limbs(&g) == want => {}
                Outcome::Ret(g) => ctx.violation(&format!("{}:wrong-value", op), json!({"a": hl(&la), "b": hl(&lb), "expected": hex::encode(r9::b32(&want)), "actual": hl(&g)})),
                o => ctx.violation(&format!("{}:{}", op, o.class()), json!({"a": hl(&la), "b": hl(&lb), "outcome": format!("{:?}", o)})),
            }
        };
        // raw limb primitives of gm-sm9 on the same operands
        {
            use gm_sm9::u256::*;
            ctx.eval();
            ctx.class("sm9_u256_primitives");
            let two256: BigUint = BigUint::one() << 256;
            let (s4, c4) = u256_add(&la, &lb);
            let (d4, b4) = u256_sub(&la, &lb);
            if r9::from_limbs(&s4) != (&a + &b) % &two256 || c4 != (&a + &b >= two256) || r9::from_limbs(&d4) != (&two256 + &a - &b) % &two256 || b4 != (a < b) {
                ctx.violation("sm9.u256_add/sub:wrong", json!({"a": hl(&la), "b": hl(&lb)}));
            }
            let m8 = u256_mul(&la, &lb);
            let big8 = |x: &[u64; 8]| -> BigUint {
                let mut v = BigUint::zero();
                for k in (0..8).rev() {
                    v = (v << 64) + x[k];
                }
                v
            };
            if big8(&m8) != &a * &b {
                ctx.violation("sm9.u256_mul:wrong", json!({"a": hl(&la), "b": hl(&lb)}));
            }
            let x8: [u64; 8] = [la[0], la[1], la[2], la[3], lb[0], lb[1], lb[2], lb[3]];
            let y8: [u64; 8] = [lb[0], lb[1], lb[2], lb[3], m8[4], m8[5], m8[6], m8[7]];
            let two512: BigUint = BigUint::one() << 512;
            let (s8, c8) = u512_add(&x8, &y8);
            let (d8, b8) = u512_sub(&x8, &y8);
            let (xv, yv) = (big8(&x8), big8(&y8));
            if big8(&s8) != (&xv + &yv) % &two512 || c8 != (&xv + &yv >= two512) || big8(&d8) != (&two512 + &xv - &yv) % &two512 || b8 != (xv < yv) {
                ctx.violation("sm9.u512_add/sub:wrong", json!({"a": hl(&la), "b": hl(&lb)}));
            }
            let cmp = u256_cmp(&la, &lb);
            if cmp != if a > b { 1 } else if a < b { -1 } else { 0 } {
                ctx.violation("sm9.u256_cmp:wrong", json!({"a": hl(&la), "b": hl(&lb)}));
            }
            let bits = u256_to_bits(la);
            if (0..256).any(|k| (bits[k] == '1') != a.bit(255 - k as u64)) || u256_to_be_bytes(&la) != r9::b32(&a) || u256_from_be_bytes(&r9::b32(&a)) != la {
                ctx.violation("sm9.u256_to_bits/bytes:wrong", json!({"a": hl(&la)}));
            }
        }
        chk(ctx, "mod_n_add", guard(|| gm_sm9::fields::mod_n_add(&la, &lb)), (&a + &b) % n);
        chk(ctx, "mod_n_sub", guard(|| gm_sm9::fields::mod_n_sub(&la, &lb)), (&a + n - &b) % n);
        chk(ctx, "mod_n_mul", guard(|| gm_sm9::fields::mod_n_mul(&la, &lb)), (&a * &b) % n);
        if i % 16 == 0 {
            if !a.is_zero() {
                chk(ctx, "mod_n_inv", guard(|| gm_sm9::fields::mod_n_inv(&la)), a.modinv(n).unwrap());
            }
            let e = if i % 32 == 0 { sparse_scalar(&mut prng, 1 + (i / 32) % 14) } else { e };
            let le = r9::to_limbs(&e);
            chk(ctx, "mod_n_pow", guard(|| gm_sm9::fields::mod_n_pow(&la, &le)), a.modpow(&e, n));
        }
    }
}

/// operand pairs whose integer product has a boundary shape (sm2x::product_shapes) through mod_n_mul and Fp::fp_mul
fn product_shape_layer(ctx: &mut Ctx) {
    let pr = r9::params();
    let reps = ctx.n(4, 200);
    let mut ps = ctx.prng("prodshape");
    let mut pi = 0u64;
    for _ in 0..reps {
        for (name, a, b) in crate::sm2x::product_shapes(&pr.n, &mut ps) {
            pi += 1;
            if !ctx.mine(pi) {
                continue;
            }
            let (la, lb) = (limbs(&a), limbs(&b));
            ctx.eval();
            ctx.class("mod_n_mul_product_shape");
            ctx.class(&format!("mod_n_mul:{}", name.split(':').next().unwrap()));
            ctx.distinct("modn", &[&r9::b32(&a), &r9::b32(&b)]);
            let want = (&a * &b) % &pr.n;
            match guard(|| gm_sm9::fields::mod_n_mul(&la, &lb)) {
                Outcome::Ret(g) if r9::from_limbs(&g) == want => {}
                o => ctx.violation(&format!("mod_n_mul:product_shape:{}", if o.is_ret() { "wrong-value" } else { o.class() }), json!({"a": hl(&la), "b": hl(&lb), "shape": name, "expected": hex::encode(r9::b32(&want))})),
            }
        }
        for (name, a, b) in crate::sm2x::product_shapes(&pr.p, &mut ps) {
            pi += 1;
            if !ctx.mine(pi) {
                continue;
            }
            // stored limbs a, b: the Montgomery product is a*b*R^-1 mod p
            let (la, lb) = (limbs(&a), limbs(&b));
            ctx.eval();
            ctx.class("fp_mul_product_shape");
            ctx.class(&format!("fp_mul:{}", name.split(':').next().unwrap()));
            let want = r9::from_mont(&limbs(&((&a * &b) % &pr.p)));
            match guard(|| la.fp_mul(&lb)) {
                Outcome::Ret(g) if r9::from_limbs(&g) == want => {}
                o => ctx.violation(&format!("Fp::fp_mul:product_shape:{}", if o.is_ret() { "wrong-value" } else { o.class() }), json!({"a": hl(&la), "b": hl(&lb), "shape": name})),
            }
        }
    }
}

fn booth_ref(k: &BigUint, w: u64, i: u64) -> i64 {
    // d_i = sum_{j<w} (bit(wi+j-1) - bit(wi+j)) 2^j   with bit(-1) = 0
    let mut d = 0i64;
    for j in 0..w {
        let hi = w * i + j;
        let lo_bit = if hi == 0 { 0 } else { k.bit(hi - 1) as i64 };
        d += (lo_bit - k.bit(hi) as i64) << j;
    }
    d
}

fn booth_layer(ctx: &mut Ctx) {
    let mut prng = ctx.prng("booth");
    let mut idx = 0u64;
    for w in [5u64, 7] {
        let nwin = (256 + w - 1) / w;
        for i in 0..nwin {
            for pat in 0..(1u64 << (w + 1)) {
                idx += 1;
                if !ctx.mine(idx) {
                    continue;
                }
                // place the (w+1)-bit pattern at bits wi-1 .. wi+w-1, random bits elsewhere
                let mut k = r9::from_b(&prng.bytes(32));
                for j in 0..=w {
                    let pos = (w * i + j) as i64 - 1;
                    if pos < 0 || pos >= 256 {
                        continue;
                    }
                    k.set_bit(pos as u64, pat >> j & 1 == 1);
                }
                let lk = r9::to_limbs(&k);
                ctx.eval();
                ctx.class(&format!("booth_w{}", w));
                ctx.distinct("booth", &[&[w as u8, i as u8], &pat.to_le_bytes()]);
                match guard(|| gm_sm9::u256::sm9_u256_get_booth(&lk, w, i)) {
                    Outcome::Ret(d) if d as i64 == booth_ref(&k, w, i) => {}
                    o => ctx.violation(&format!("sm9_u256_get_booth:w={}:{}", w, if o.is_ret() { "wrong-digit" } else { o.class() }), json!({"k": hl(&lk), "window": i, "w": w, "expected": booth_ref(&k, w, i), "outcome": format!("{:?}", o)})),
                }
            }
        }
    }
    ctx.exhaustive("Booth digit for every (window, (w+1)-bit pattern), w = 5 and 7", true);
    // recomposition on random scalars
    let n = ctx.n(300, 30_000);
    for i in 0..n {
        let k = if i % 7 == 0 { (BigUint::one() << 256) - 1u32 - BigUint::from(i) } else { r9::from_b(&prng.bytes(32)) };
        if !ctx.mine(i) {
            continue;
        }
        let lk = r9::to_limbs(&k);
        for w in [5u64, 7] {
            ctx.eval();
            ctx.class("booth_recomposition");
            let nwin = (256 + w - 1) / w;
            let mut pos = BigUint::zero();
            let mut neg = BigUint::zero();
            for wi in 0..nwin {
                let d = gm_sm9::u256::sm9_u256_get_booth(&lk, w, wi) as i64;
                if d >= 0 {
                    pos += BigUint::from(d as u64) << (w * wi);
                } else {
                    neg += BigUint::from((-d) as u64) << (w * wi);
                }
            }
            if pos < neg || pos - neg != k {
                ctx.violation(&format!("sm9_u256_get_booth:w={}:digits-do-not-recompose", w), json!({"k": hl(&lk)}));
            }
        }
    }
}

fn g1s(p: &Option<(BigUint, BigUint)>) -> String {
    p.as_ref().map(g1_hex).unwrap_or_else(|| "infinity".into())
}

fn same_g1(ctx: &mut Ctx, op: &str, cls: &str, got: Outcome<Point>, want: &r9::G1, inputs: serde_json::Value) {
    ctx.eval();
    ctx.class(&format!("G1::{}", op));
    ctx.class(cls);
    match got {
        Outcome::Ret(g) => {
            if &r9::ref_g1(&g) != want {
                ctx.violation(&format!("G1::{}:{}:wrong-point", op, cls), json!({"inputs": inputs, "expected": g1s(want), "actual": g1s(&r9::ref_g1(&g))}));
            }
        }
        o => ctx.violation(&format!("G1::{}:{}:{}", op, cls, o.class()), json!({"inputs": inputs, "outcome": format!("{:?}", o)})),
    }
}

fn same_g2(ctx: &mut Ctx, op: &str, cls: &str, got: Outcome<TwistPoint>, want: &r9::G2, inputs: serde_json::Value) {
    ctx.eval();
    ctx.class(&format!("G2::{}", op));
    ctx.class(cls);
    let show = |p: &r9::G2| match p {
        None => "infinity".to_string(),
        Some((x, y)) => format!("x=({},{}) y=({},{})", hex::encode(r9::b32(&x.0)), hex::encode(r9::b32(&x.1)), hex::encode(r9::b32(&y.0)), hex::encode(r9::b32(&y.1))),
    };
    match got {
        Outcome::Ret(g) => {
            if &r9::ref_g2(&g) != want {
                ctx.violation(&format!("G2::{}:{}:wrong-point", op, cls), json!({"inputs": inputs, "expected": show(want), "actual": show(&r9::ref_g2(&g))}));
            }
        }
        o => ctx.violation(&format!("G2::{}:{}:{}", op, cls, o.class()), json!({"inputs": inputs, "outcome": format!("{:?}", o)})),
    }
}

fn lam_fp(p: &mut Prng, kind: u64) -> BigUint {
    match kind % 4 {
        0 => BigUint::one(),
        1 => BigUint::from(2u32),
        2 => &r9::params().p - 1u32,
        _ => rand_scalar(p, &r9::params().p),
    }
}
fn lam_f2(p: &mut Prng, kind: u64) -> F2 {
    let pp = &r9::params().p;
    match kind % 5 {
        0 => (BigUint::one(), BigUint::zero()),
        1 => (BigUint::zero(), BigUint::one()),
        2 => (rand_scalar(p, pp), BigUint::zero()),
        3 => (pp - 1u32, BigUint::zero()),
        _ => (rand_scalar(p, pp), rand_scalar(p, pp)),
    }
}

fn table_layer(ctx: &mut Ctx) {
    let t = hk::precomputed();
    let mut base = r9::g1_gen();
    for i in 0..37usize {
        let mut acc: r9::G1 = None;
        for j in 0..64usize {
            acc = r9::g1_add(&acc, &base);
            if !ctx.mine((i * 64 + j) as u64) {
                continue;
            }
            ctx.eval();
            ctx.class("table_entry");
            ctx.distinct("tab", &[&[i as u8, j as u8]]);
            let (x, y) = acc.clone().unwrap();
            if r9::from_mont(&t[i][2 * j]) != x || r9::from_mont(&t[i][2 * j + 1]) != y || r9::from_limbs(&t[i][2 * j]) >= r9::params().p {
                ctx.violation("SM9_P256_PRECOMPUTED:entry:wrong", json!({"row": i, "j": j}));
            }
            // the scalars +-(j+1) * 2^(7i) through the public fixed-base multiplication
            let k = BigUint::from(j as u64 + 1) << (7 * i);
            if k.bits() <= 256 {
                let lk = limbs(&k);
                same_g1(ctx, "g_mul", "table_scalar", guard(|| Point::g_mul(&lk)), &acc, json!({"k": hl(&lk)}));
                let kneg = &r9::params().n - (&k % &r9::params().n);
                let lkn = limbs(&kneg);
                same_g1(ctx, "g_mul", "table_scalar_negated", guard(|| Point::g_mul(&lkn)), &r9::g1_neg(&acc), json!({"k": hl(&lkn)}));
            }
        }
        for _ in 0..7 {
            base = r9::g1_add(&base, &base);
        }
    }
    ctx.exhaustive("37 x 64 fixed-base table entries through the hook and the scalars (j+1)*2^(7i) through Point::g_mul", true);
}

/// scalars j, N - j and N + j for every small j on the generators: the comb / window recodings of scalars next to the
/// group order produce digit strings whose partial sums meet table points again (doubling or cancellation inside the
/// fixed-base addition chain)
fn near_order_sweep(ctx: &mut Ctx) {
    let pr = r9::params();
    let jmax = ctx.n(200, 1200);
    let g1 = r9::g1_gen();
    let g2 = r9::g2_gen();
    let (lg1, lg2) = (hk::generator_p1(), hk::generator_p2());
    let mut acc1: r9::G1 = None;
    let mut acc2: r9::G2 = None;
    for j in 0..=jmax {
        if j > 0 {
            acc1 = r9::g1_add(&acc1, &g1);
            acc2 = r9::g2_add(&acc2, &g2);
        }
        if !ctx.mine(j) {
            continue;
        }
        let neg1 = r9::g1_neg(&acc1);
        let neg2 = r9::g2_neg(&acc2);
        for (cls, k, w1, w2) in [("k=j", BigUint::from(j), &acc1, &acc2), ("k=N-j", &pr.n - BigUint::from(j), &neg1, &neg2), ("k=N+j", &pr.n + BigUint::from(j), &acc1, &acc2)] {
            let lk = limbs(&k);
            ctx.class("near_order_sweep");
            same_g1(ctx, "g_mul", cls, guard(|| Point::g_mul(&lk)), w1, json!({"k": hl(&lk)}));
            same_g1(ctx, "point_mul", cls, guard(|| lg1.point_mul(&lk)), w1, json!({"P": "P1", "k": hl(&lk)}));
            if j % 4 == 0 || ctx.thorough {
                same_g2(ctx, "g_mul", cls, guard(|| TwistPoint::g_mul(&lk)), w2, json!({"k": hl(&lk)}));
                same_g2(ctx, "point_mul", cls, guard(|| lg2.point_mul(&lk)), w2, json!({"P": "P2", "k": hl(&lk)}));
            }
        }
    }
    ctx.exhaustive("scalars j, N-j, N+j for j in 0..=200 (thorough 1200) on P1 (fixed-base and variable-base) and, thinned, on P2", true);
}

/// bases that are the generators, their negatives or (negated) table points, affine and re-randomised
fn generator_bases(ctx: &mut Ctx) {
    let pr = r9::params();
    let mut pg = ctx.prng("gen_bases");
    let mut bi = 0u64;
    let mults: Vec<BigUint> = vec![BigUint::one(), BigUint::from(2u32), BigUint::from(63u32), BigUint::one() << 7, BigUint::from(3u32) << 70, BigUint::one() << 252];
    for m in &mults {
        for negate in [false, true] {
            for zk in 0..2u64 {
                bi += 1;
                let sub = pg.next();
                if !ctx.mine(bi) {
                    continue;
                }
                let mut p = Prng::new(sub, "gb");
                let b1 = r9::g1_mul(m, &r9::g1_gen());
                let b1 = if negate { r9::g1_neg(&b1) } else { b1 };
                let b2 = r9::g2_mul(m, &r9::g2_gen());
                let b2 = if negate { r9::g2_neg(&b2) } else { b2 };
                let (l1, l2) = if zk == 0 { (BigUint::one(), (BigUint::one(), BigUint::zero())) } else { (rand_scalar(&mut p, &pr.p), (rand_scalar(&mut p, &pr.p), rand_scalar(&mut p, &pr.p))) };
                let lb1 = r9::lib_g1(b1.as_ref().unwrap(), &l1);
                let lb2 = r9::lib_g2(b2.as_ref().unwrap(), &l2);
                for k in [BigUint::one(), BigUint::from(2u32), &pr.n - 1u32, rand_scalar(&mut p, &pr.n)] {
                    let lk = limbs(&k);
                    ctx.class("base_is_(negated)_generator_or_table_point");
                    same_g1(ctx, "point_mul", "base_is_(negated)_generator_or_table_point", guard(|| lb1.point_mul(&lk)), &r9::g1_mul(&k, &b1), json!({"m": hl(&limbs(m)), "negated": negate, "k": hl(&lk)}));
                    same_g2(ctx, "point_mul", "base_is_(negated)_generator_or_table_point", guard(|| lb2.point_mul(&lk)), &r9::g2_mul(&k, &b2), json!({"m": hl(&limbs(m)), "negated": negate, "k": hl(&lk)}));
                }
            }
        }
    }
}

fn group_layer(ctx: &mut Ctx) {
    let pr = r9::params();
    let n = ctx.n(160, 12_000);
    let mut prng = ctx.prng("group");
    for i in 0..n {
        let sub = prng.next();
        if !ctx.mine(i) {
            continue;
        }
        let mut p = Prng::new(sub, "g");
        let two256m1: BigUint = (BigUint::one() << 256) - 1u32;
        let scalars: Vec<(&str, BigUint)> = match i % 6 {
            0 => vec![("k=0", BigUint::zero()), ("k=1", BigUint::one()), ("k=2", BigUint::from(2u32))],
            1 => vec![("k=N-1", &pr.n - 1u32), ("k=N", pr.n.clone()), ("k=N+1", &pr.n + 1u32)],
            2 => vec![("k=N+small", &pr.n + BigUint::from(1 + p.below(100))), ("k=2^256-1", two256m1.clone())],
            3 => vec![("k=single_digit", BigUint::from(1 + p.below(31)) << (p.below(250) as usize)), ("k=sparse_limbs", sparse_scalar(&mut p, 1 + (i / 6) % 14))],
            4 => vec![("k=runs_of_ones", crate::sm2x::run_scalar(&mut p, &pr.n)), ("k=runs_of_ones", crate::sm2x::run_scalar(&mut p, &pr.n))],
            _ => vec![("k=random", r9::from_b(&p.bytes(32)))],
        };
        // ---------- G1
        {
            let ka = if i % 9 == 0 { BigUint::from(1 + p.below(4)) } else { rand_scalar(&mut p, &pr.n) };
            let pa = r9::g1_mul(&ka, &r9::g1_gen()).unwrap();
            let qa = r9::g1_mul(&rand_scalar(&mut p, &pr.n), &r9::g1_gen()).unwrap();
            let (l1, l2) = (lam_fp(&mut p, i), lam_fp(&mut p, i / 4 + 1));
            let mut l3 = lam_fp(&mut p, i + 1);
            if l3 == l1 {
                l3 = (&l1 + 1u32) % &pr.p;
                if l3.is_zero() {
                    l3 = BigUint::from(2u32);
                }
            }
            let (lp, lq, lp2) = (r9::lib_g1(&pa, &l1), r9::lib_g1(&qa, &l2), r9::lib_g1(&pa, &l3));
            let na = r9::g1_neg(&Some(pa.clone())).unwrap();
            let (ln1, ln2) = (r9::lib_g1(&na, &l1), r9::lib_g1(&na, &l3));
            ctx.distinct("g1", &[&r9::b32(&pa.0), &r9::b32(&qa.0), &r9::b32(&l1), &r9::b32(&l2)]);
            let w = json!({"P": g1_hex(&pa), "Q": g1_hex(&qa), "Z_P": hex::encode(r9::b32(&l1)), "Z_Q": hex::encode(r9::b32(&l2)), "Z_P'": hex::encode(r9::b32(&l3))});
            let sp = Some(pa.clone());
            same_g1(ctx, "point_add", "P_ne_Q", guard(|| lp.point_add(&lq)), &r9::g1_add(&sp, &Some(qa.clone())), w.clone());
            same_g1(ctx, "point_sub", "P_ne_Q", guard(|| lp.point_sub(&lq)), &r9::g1_add(&sp, &r9::g1_neg(&Some(qa.clone()))), w.clone());
            same_g1(ctx, "point_add", "P_eq_Q_same_repr", guard(|| lp.point_add(&lp)), &r9::g1_add(&sp, &sp), w.clone());
            same_g1(ctx, "point_add", "P_eq_Q_diff_Z", guard(|| lp.point_add(&lp2)), &r9::g1_add(&sp, &sp), w.clone());
            same_g1(ctx, "point_add", "P_eq_negQ_same_Z", guard(|| lp.point_add(&ln1)), &None, w.clone());
            same_g1(ctx, "point_add", "P_eq_negQ_diff_Z", guard(|| lp.point_add(&ln2)), &None, w.clone());
            same_g1(ctx, "point_sub", "P_minus_P_diff_Z", guard(|| lp.point_sub(&lp2)), &None, w.clone());
            same_g1(ctx, "point_double", "finite", guard(|| lp.point_double()), &r9::g1_add(&sp, &sp), w.clone());
            same_g1(ctx, "point_neg", "finite", guard(|| lp.point_neg()), &Some(na.clone()), w.clone());
            // -P stored with the SAME X and Y words as P and Z negated; P and Q stored with the same Z; (zeta x, y): same y
            {
                let lnz = r9::lib_g1(&na, &(&pr.p - &l1));
                let lqz = r9::lib_g1(&qa, &l1);
                let zeta = pr.c_pows[4].clone();
                let za = ((&pa.0 * &zeta) % &pr.p, pa.1.clone());
                let (lz1, lz3) = (r9::lib_g1(&za, &l1), r9::lib_g1(&za, &l3));
                same_g1(ctx, "point_add", "P_plus_negP_same_stored_XY", guard(|| lp.point_add(&lnz)), &None, w.clone());
                same_g1(ctx, "point_add", "P_ne_Q_same_stored_Z", guard(|| lp.point_add(&lqz)), &r9::g1_add(&sp, &Some(qa.clone())), w.clone());
                same_g1(ctx, "point_add", "P_plus_zetaP_same_y_same_Z", guard(|| lp.point_add(&lz1)), &r9::g1_add(&sp, &Some(za.clone())), w.clone());
                same_g1(ctx, "point_add", "P_plus_zetaP_same_y_diff_Z", guard(|| lp.point_add(&lz3)), &r9::g1_add(&sp, &Some(za.clone())), w.clone());
                same_g1(ctx, "point_sub", "P_minus_zetaP_same_y", guard(|| lp.point_sub(&lz3)), &r9::g1_add(&sp, &r9::g1_neg(&Some(za.clone()))), w.clone());
                same_g1(ctx, "point_double", "negP_same_stored_XY_right_after_P", guard(|| { let _ = lp.point_double(); lnz.point_double() }), &r9::g1_add(&Some(na.clone()), &Some(na.clone())), w.clone());
            }
            let inf1 = Point::zero();
            let inf2 = Point { x: lp.x, y: lq.y, z: [0; 4] };
            for (kk, inf) in [(0, &inf1), (1, &inf2)] {
                let cls = if kk == 0 { "infinity_canonical" } else { "infinity_arbitrary_XY" };
                same_g1(ctx, "point_add", cls, guard(|| lp.point_add(inf)), &sp, w.clone());
                same_g1(ctx, "point_add", cls, guard(|| inf.point_add(&lp)), &sp, w.clone());
                same_g1(ctx, "point_add", cls, guard(|| inf.point_add(inf)), &None, w.clone());
                same_g1(ctx, "point_double", cls, guard(|| inf.point_double()), &None, w.clone());
                same_g1(ctx, "point_neg", cls, guard(|| inf.point_neg()), &None, w.clone());
                same_g1(ctx, "point_mul", cls, guard(|| inf.point_mul(&limbs(&ka))), &None, w.clone());
            }
            // equality, curve membership, affine conversion, encoding
            ctx.eval();
            ctx.class("G1::point_equals");
            // (zeta x, y) with zeta^3 = 1 is on the curve too: same y, different x
            let zeta = pr.c_pows[4].clone();
            let lz = r9::lib_g1(&((&pa.0 * &zeta) % &pr.p, pa.1.clone()), &l3);
            let eqs = [(lp.point_equals(&lp2), true, "same point, different Z"), (lp.point_equals(&lp), true, "identical"), (lp.point_equals(&ln2), false, "P vs -P"), (lp.point_equals(&lq), pa == qa, "P vs Q"), (lp2.point_equals(&lp), true, "symmetric"), (lp.point_equals(&lz), false, "same y different x")];
            for (got, want, what) in eqs {
                if got != want {
                    ctx.violation(&format!("G1::point_equals:{}:{}", what.replace(' ', "_"), got), w.clone());
                }
            }
            // two representations of the point at infinity are the same point; infinity equals no finite point
            ctx.eval();
            ctx.class("G1::infinity_equals_infinity");
            let inf_a = Point::zero();
            let inf_b = Point { x: lp.x, y: lq.y, z: [0; 4] };
            let inf_c = lp.point_sub(&lp2);
            let inf_d = Point::zero().point_neg();
            for (nm, a, b, want) in [("canonical_vs_arbitrary", &inf_a, &inf_b, true), ("canonical_vs_computed", &inf_a, &inf_c, true), ("canonical_vs_negated", &inf_a, &inf_d, true), ("computed_vs_arbitrary", &inf_c, &inf_b, true), ("infinity_vs_finite", &inf_b, &lp, false), ("finite_vs_infinity", &lp, &inf_c, false)] {
                if a.point_equals(b) != want {
                    ctx.violation(&format!("G1::point_equals:{}:{}", nm, !want), w.clone());
                }
            }
            ctx.eval();
            ctx.class("G1::is_on_curve");
            let off = (pa.0.clone(), (&pa.1 + 1u32) % &pr.p);
            if !lp.is_on_curve() || !lib_g1_affine(&pa).is_on_curve() || r9::lib_g1(&off, &l1).is_on_curve() || lib_g1_affine(&off).is_on_curve() {
                ctx.violation("G1::is_on_curve:wrong", w.clone());
            }
            ctx.eval();
            ctx.class("G1::to_affine/to_bytes");
            if let Outcome::Ret(a) = guard(|| lp.to_affine_point()) {
                if r9::from_mont(&a.x) != pa.0 || r9::from_mont(&a.y) != pa.1 || r9::from_mont(&a.z) != BigUint::one() {
                    ctx.violation("G1::to_affine_point:wrong", w.clone());
                }
            }
            if let Outcome::Ret(b) = guard(|| lp.to_bytes_be()) {
                let mut e = vec![4u8];
                e.extend_from_slice(&r9::pt_bytes(&pa));
                if b != e || r9::ref_g1(&hk::point_from_bytes(&b)) != sp {
                    ctx.violation("G1::to_bytes_be/from_bytes:wrong", w.clone());
                }
            }
            for (cls, kv) in &scalars {
                let lk = limbs(kv);
                same_g1(ctx, "point_mul", cls, guard(|| lp.point_mul(&lk)), &r9::g1_mul(kv, &sp), json!({"P": g1_hex(&pa), "Z": hex::encode(r9::b32(&l1)), "k": hl(&lk)}));
                same_g1(ctx, "point_mul", "consecutive_negated_base", guard(|| ln1.point_mul(&lk)), &r9::g1_neg(&r9::g1_mul(kv, &sp)), json!({"P": "-P", "k": hl(&lk)}));
                same_g1(ctx, "point_mul", "consecutive_same_point_other_Z", guard(|| lp2.point_mul(&lk)), &r9::g1_mul(kv, &sp), json!({"P": "P'", "k": hl(&lk)}));
                {
                    let lnz = r9::lib_g1(&na, &(&pr.p - &l1));
                    same_g1(ctx, "point_mul", "consecutive_negated_base_same_stored_XY", guard(|| { let _ = lp.point_mul(&lk); lnz.point_mul(&lk) }), &r9::g1_neg(&r9::g1_mul(kv, &sp)), json!({"P": "(X, Y, -Z)", "k": hl(&lk)}));
                }
                same_g1(ctx, "g_mul", cls, guard(|| Point::g_mul(&lk)), &r9::g1_mul(kv, &r9::g1_gen()), json!({"k": hl(&lk)}));
            }
        }
        // ---------- G2
        {
            let ka = if i % 9 == 0 { BigUint::from(1 + p.below(4)) } else { rand_scalar(&mut p, &pr.n) };
            let pa = r9::g2_mul(&ka, &r9::g2_gen()).unwrap();
            let qa = r9::g2_mul(&rand_scalar(&mut p, &pr.n), &r9::g2_gen()).unwrap();
            let (l1, l2) = (lam_f2(&mut p, i), lam_f2(&mut p, i / 5 + 1));
            let mut l3 = lam_f2(&mut p, i + 2);
            if l3 == l1 {
                l3 = (l1.0.clone(), (&l1.1 + 1u32) % &pr.p);
            }
            let (lp, lq, lp2) = (r9::lib_g2(&pa, &l1), r9::lib_g2(&qa, &l2), r9::lib_g2(&pa, &l3));
            let q_aff = lib_g2_affine(&qa);
            let na = r9::g2_neg(&Some(pa.clone())).unwrap();
            let (ln1, ln2) = (r9::lib_g2(&na, &l1), r9::lib_g2(&na, &l3));
            let sp = Some(pa.clone());
            let sq = Some(qa.clone());
            ctx.distinct("g2", &[&r9::b32(&(pa.0).0), &r9::b32(&(qa.0).0), &r9::b32(&l1.0), &r9::b32(&l1.1), &r9::b32(&l2.0)]);
            let w = json!({"P=[k]P2, k": hex::encode(r9::b32(&ka)), "Z_P": [hex::encode(r9::b32(&l1.0)), hex::encode(r9::b32(&l1.1))], "Z_Q": [hex::encode(r9::b32(&l2.0)), hex::encode(r9::b32(&l2.1))]});
            same_g2(ctx, "point_add", "P_ne_Q_rhs_Z=1", guard(|| lp.point_add(&q_aff)), &r9::g2_add(&sp, &sq), w.clone());
            let cls_rhs = if l2 == (BigUint::one(), BigUint::zero()) { "P_ne_Q_rhs_Z=1" } else { "P_ne_Q_rhs_Z!=1" };
            same_g2(ctx, "point_add", cls_rhs, guard(|| lp.point_add(&lq)), &r9::g2_add(&sp, &sq), w.clone());
            same_g2(ctx, "twist_point_add_full", "P_ne_Q", guard(|| hk::twist_point_add_full(&lp, &lq)), &r9::g2_add(&sp, &sq), w.clone());
            same_g2(ctx, "point_sub", "P_ne_Q", guard(|| lp.point_sub(&lq)), &r9::g2_add(&sp, &r9::g2_neg(&sq)), w.clone());
            same_g2(ctx, "twist_point_add_full", "P_eq_Q_diff_Z", guard(|| hk::twist_point_add_full(&lp, &lp2)), &r9::g2_add(&sp, &sp), w.clone());
            same_g2(ctx, "twist_point_add_full", "P_eq_Q_same_repr", guard(|| hk::twist_point_add_full(&lp, &lp)), &r9::g2_add(&sp, &sp), w.clone());
            same_g2(ctx, "twist_point_add_full", "P_eq_negQ_diff_Z", guard(|| hk::twist_point_add_full(&lp, &ln2)), &None, w.clone());
            same_g2(ctx, "twist_point_add_full", "P_eq_negQ_same_Z", guard(|| hk::twist_point_add_full(&lp, &ln1)), &None, w.clone());
            same_g2(ctx, "point_add", "P_eq_Q_diff_Z", guard(|| lp.point_add(&lp2)), &r9::g2_add(&sp, &sp), w.clone());
            same_g2(ctx, "point_add", "P_eq_negQ_diff_Z", guard(|| lp.point_add(&ln2)), &None, w.clone());
            same_g2(ctx, "point_sub", "P_minus_P_diff_Z", guard(|| lp.point_sub(&lp2)), &None, w.clone());
            same_g2(ctx, "point_double", "finite", guard(|| lp.point_double()), &r9::g2_add(&sp, &sp), w.clone());
            same_g2(ctx, "point_neg", "finite", guard(|| lp.point_neg()), &Some(na.clone()), w.clone());
            let inf1 = TwistPoint::zero();
            let inf2 = TwistPoint { x: lp.x, y: lq.y, z: Fp2::zero() };
            for (kk, inf) in [(0, &inf1), (1, &inf2)] {
                let cls = if kk == 0 { "infinity_canonical" } else { "infinity_arbitrary_XY" };
                same_g2(ctx, "point_add", cls, guard(|| lp.point_add(inf)), &sp, w.clone());
                same_g2(ctx, "point_add", cls, guard(|| inf.point_add(&lp)), &sp, w.clone());
                same_g2(ctx, "twist_point_add_full", cls, guard(|| hk::twist_point_add_full(inf, &lp)), &sp, w.clone());
                same_g2(ctx, "twist_point_add_full", cls, guard(|| hk::twist_point_add_full(&lp, inf)), &sp, w.clone());
                same_g2(ctx, "point_double", cls, guard(|| inf.point_double()), &None, w.clone());
                same_g2(ctx, "point_mul", cls, guard(|| inf.point_mul(&limbs(&ka))), &None, w.clone());
            }
            ctx.eval();
            ctx.class("G2::point_equals");
            // (zeta x, y) has the same y and a different x: zeta = cube root of unity in Fp
            let zeta = pr.c_pows[4].clone();
            let lz = r9::lib_g2(&(r9::f2scal(&pa.0, &zeta), pa.1.clone()), &l3);
            let eqs = [(lp.point_equals(&lp2), true, "same point, different Z"), (lp.point_equals(&lp), true, "identical"), (lp.point_equals(&ln2), false, "P vs -P"), (lp.point_equals(&ln1), false, "P vs -P same Z"), (lp.point_equals(&lq), pa == qa, "P vs Q"), (lp2.point_equals(&lp), true, "symmetric"), (lp.point_equals(&lz), false, "same y different x")];
            for (got, want, what) in eqs {
                if got != want {
                    ctx.violation(&format!("G2::point_equals:{}:{}", what.replace(' ', "_").replace(',', ""), got), w.clone());
                }
            }
            // Frobenius-twist maps used by the pairing: pi(Q) and -pi^2(Q) on the twist
            let ci = pr.c.modinv(&pr.p).unwrap();
            let ci2 = (&ci * &ci) % &pr.p;
            let ci3 = (&ci2 * &ci) % &pr.p;
            let ci4 = (&ci2 * &ci2) % &pr.p;
            let q1 = (r9::f2scal(&r9::f2conj(&pa.0), &ci2), r9::f2scal(&r9::f2conj(&pa.1), &ci3));
            let q2n = (r9::f2scal(&pa.0, &ci4), pa.1.clone());
            same_g2(ctx, "point_pi1", "finite", guard(|| hk::twist_point_pi1(&lp)), &Some(q1), w.clone());
            same_g2(ctx, "point_neg_pi2", "finite", guard(|| hk::twist_point_neg_pi2(&lp)), &Some(q2n), w.clone());
            for (cls, kv) in &scalars {
                // G2 multiplications are 256 double-and-adds in the library (~1.3 ms) and in the reference
                let lk = limbs(kv);
                same_g2(ctx, "point_mul", cls, guard(|| lp.point_mul(&lk)), &r9::g2_mul(kv, &sp), json!({"case": w, "k": hl(&lk)}));
                if i % 2 == 0 {
                    same_g2(ctx, "point_mul", "consecutive_negated_base", guard(|| ln1.point_mul(&lk)), &r9::g2_neg(&r9::g2_mul(kv, &sp)), json!({"case": w, "k": hl(&lk)}));
                }
                if i % 2 == 1 {
                    let lnz = r9::lib_g2(&na, &r9::f2neg(&l1));
                    same_g2(ctx, "point_mul", "consecutive_negated_base_same_stored_XY", guard(|| { let _ = lp.point_mul(&lk); lnz.point_mul(&lk) }), &r9::g2_neg(&r9::g2_mul(kv, &sp)), json!({"case": w, "k": hl(&lk)}));
                }
                if i % 3 == 0 {
                    same_g2(ctx, "g_mul", cls, guard(|| TwistPoint::g_mul(&lk)), &r9::g2_mul(kv, &r9::g2_gen()), json!({"k": hl(&lk)}));
                }
            }
        }
    }
}

pub fn run(ctx: &mut Ctx) {
    for (n, ok) in r9::selftest(false) {
        ctx.selftest(&n, ok);
    }
    ctx.require(&[
        "Fp::fp_mul", "Fp::fp_inv", "Fp::fp_div2", "fp_pow", "Fp2::fp_mul", "Fp2::fp_inv", "Fp2::fp_sqr", "Fp2::sqr_u", "Fp2::fp_mul_u", "fp2_zero_mask=1", "fp2_zero_mask=2", "Fp4::fp_mul", "Fp4::fp_inv", "Fp4::fp_mul_v", "Fp4::sqr_v", "fp4_zero_mask=05", "fp4_zero_mask=10",
        "Fp12::fp_mul", "Fp12::fp_sqr", "Fp12::fp_inv", "Fp12::frobenius^1", "Fp12::frobenius^2", "Fp12::frobenius^3", "Fp12::frobenius^6", "Fp12::fp_line_mul", "Fp12::pow", "Fp12::final_exponent", "fp12_zero_subset", "fp12_c2_zero_branch",
        "sm9_u256_primitives", "mod_n_add", "mod_n_sub", "mod_n_mul", "mod_n_inv", "mod_n_pow", "mod_n_mul_product_shape", "fp_mul_product_shape", "booth_w5", "booth_w7", "booth_recomposition", "table_entry", "table_scalar", "table_scalar_negated",
        "G1::point_add", "G1::point_double", "G1::point_mul", "G1::g_mul", "G1::point_equals", "G1::is_on_curve", "G2::point_add", "G2::twist_point_add_full", "G2::point_double", "G2::point_mul", "G2::g_mul", "G2::point_equals", "G2::point_pi1",
        "P_eq_Q_diff_Z", "P_eq_negQ_diff_Z", "P_ne_Q_rhs_Z!=1", "consecutive_negated_base", "consecutive_same_point_other_Z", "infinity_arbitrary_XY", "k=0", "k=N", "k=N+1", "k=2^256-1", "k=random", "k=sparse_limbs", "k=runs_of_ones", "pow_sparse_exponent", "G1::infinity_equals_infinity", "near_order_sweep", "base_is_(negated)_generator_or_table_point",
    ]);
    tower_layer(ctx);
    modn_layer(ctx);
    product_shape_layer(ctx);
    booth_layer(ctx);
    table_layer(ctx);
    near_order_sweep(ctx);
    generator_bases(ctx);
    group_layer(ctx);
    ctx.sample(json!({"tower_case": "Fp12 element with tower coefficients (c000..c211) where the components selected by a 12-bit mask are zero; mul/sqr/inv/neg/div2/double/triple/Frobenius^{1,2,3,6} compared with Fp[w]/(w^12+2) arithmetic"}));
    ctx.sample(json!({"group_case": "P=[k]P2 in Jacobian (Z in Fp2: 1, u, a, p-1, a+bu); add (mixed and full), P+P different Z, P+(-P), infinity forms, double, neg, sub, [k]P, point_equals on (P,P'), (P,-P), (P,Q)"}));
    ctx.note("inverse of zero and affine conversion of the point at infinity have no specified value and are excluded");
}
