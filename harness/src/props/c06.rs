//! C06 — SM2 decryption rejects every tampered or invalid-curve ciphertext.
use crate::mon::{guard, hx, Ctx, Outcome, Prng};
use crate::props::c05::{layout_name, model, LAYOUTS};
use crate::refs::sm2::{self as r2, Order};
use crate::sm2x::*;
use gm_sm2::key::Sm2PrivateKey;
use num_bigint::BigUint;
use num_traits::{One, Zero};
use serde_json::json;

struct Sample {
    d: BigUint,
    sk: Sm2PrivateKey,
    msg: Vec<u8>,
    ct: Vec<u8>,
    lay: (Order, bool),
}

/// The only acceptable Ok is the untouched ciphertext with the original plaintext.
fn probe(ctx: &mut Ctx, s: &Sample, ct: &[u8], cls: &str) {
    ctx.eval();
    ctx.class(cls);
    ctx.distinct(cls, &[ct, &r2::b32(&s.d), &[s.lay.1 as u8, s.lay.0 as u8]]);
    let o = guard(|| s.sk.decrypt(ct, s.lay.1, model(s.lay.0)));
    let w = || json!({"class": cls, "layout": layout_name(s.lay.0, s.lay.1), "d": hex::encode(r2::b32(&s.d)), "original_ct": hx(&s.ct), "original_msg": hx(&s.msg), "tampered_ct": hx(ct), "tampered_len": ct.len()});
    match o {
        Outcome::Ret(Err(_)) => {}
        Outcome::Ret(Ok(m)) => {
            let what = if m == s.msg { "accepted-with-original-plaintext" } else { "returned-different-plaintext" };
            ctx.violation(&format!("decrypt:{}:{}:{}", cls, if s.lay.1 { "compressed" } else { "uncompressed" }, what), json!({"case": w(), "returned": hx(&m)}));
        }
        Outcome::Panic(p) => ctx.violation(&format!("decrypt:{}:{}:panic", cls, if s.lay.1 { "compressed" } else { "uncompressed" }), json!({"case": w(), "panic": p})),
        Outcome::StepLimit(_) => ctx.violation(&format!("decrypt:{}:steplimit", cls), w()),
    }
}

fn assemble(c1: &[u8], c2: &[u8], c3: &[u8], order: Order) -> Vec<u8> {
    let mut v = c1.to_vec();
    match order {
        Order::C1C2C3 => {
            v.extend_from_slice(c2);
            v.extend_from_slice(c3);
        }
        Order::C1C3C2 => {
            v.extend_from_slice(c3);
            v.extend_from_slice(c2);
        }
    }
    v
}

/// C1 = arbitrary affine (x, y) given as raw 32-byte strings (may be >= p), with C2/C3 exactly as a
/// decryptor without point validation would recompute them (a-only group law on the reduced coordinates).
fn crafted(ctx: &mut Ctx, s: &Sample, xb: &[u8; 32], yb: &[u8; 32], pc: u8, cls: &str) {
    let c = r2::curve();
    let x = r2::from_b(xb) % &c.p;
    let y = r2::from_b(yb) % &c.p;
    let Some((c2, c3)) = r2::craft_for_point(&s.d, &(x, y), &s.msg) else { return };
    let mut c1 = vec![pc];
    c1.extend_from_slice(xb);
    if !s.lay.1 {
        c1.extend_from_slice(yb);
    }
    probe(ctx, s, &assemble(&c1, &c2, &c3, s.lay.0), cls);
}

fn fault_space(ctx: &mut Ctx, s: &Sample, p: &mut Prng) {
    let c = r2::curve();
    // sanity: untouched ciphertext decrypts to M
    ctx.eval();
    ctx.class("valid_decrypts");
    match guard(|| s.sk.decrypt(&s.ct, s.lay.1, model(s.lay.0))) {
        Outcome::Ret(Ok(m)) if m == s.msg => {}
        o => ctx.violation(&format!("decrypt:valid-ciphertext:{}", o.class()), json!({"layout": layout_name(s.lay.0, s.lay.1), "ct": hx(&s.ct)})),
    }
    let l1 = if s.lay.1 { 33 } else { 65 };
    // every single-bit flip
    for bit in 0..s.ct.len() * 8 {
        let mut t = s.ct.clone();
        t[bit / 8] ^= 0x80 >> (bit % 8);
        let byte = bit / 8;
        let cls = if byte == 0 {
            "bitflip_pc_byte"
        } else if byte < l1 {
            "bitflip_c1"
        } else {
            "bitflip_c2_c3"
        };
        probe(ctx, s, &t, cls);
    }
    // every truncation
    for len in 0..s.ct.len() {
        let cls = if len < l1 { "truncated_inside_c1" } else if len < l1 + 32 { "truncated_inside_hash" } else { "truncated_body" };
        probe(ctx, s, &s.ct[..len], cls);
    }
    // extension by one byte
    let mut e = s.ct.clone();
    e.push(p.next() as u8);
    probe(ctx, s, &e, "extended");
    // point-format byte: every value except the legal one(s) for this layout, C2/C3 untouched
    for pc in 0..=255u8 {
        let legal = if s.lay.1 { pc == 2 || pc == 3 } else { pc == 4 };
        if legal {
            continue;
        }
        let mut t = s.ct.clone();
        t[0] = pc;
        probe(ctx, s, &t, "pc_byte_illegal");
    }
    // the valid C1 of the sample, as affine
    let (c1b, _c2, _c3) = r2::split(&s.ct, s.lay.0, s.lay.1).unwrap();
    let c1 = r2::decode(c1b).unwrap();
    let pc_ok = c1b[0];
    // off-curve (x, y+1) with a tag that a check-less decryptor accepts (uncompressed layouts only: a
    // compressed encoding always decodes to a curve point or fails)
    if !s.lay.1 {
        let y1 = (&c1.1 + 1u32) % &c.p;
        crafted(ctx, s, &r2::b32(&c1.0), &r2::b32(&y1), 0x04, "offcurve_y_plus_1");
        let x1 = (&c1.0 + 1u32) % &c.p;
        crafted(ctx, s, &r2::b32(&x1), &r2::b32(&c1.1), 0x04, "offcurve_x_plus_1");
        // random affine pairs = points of y^2 = x^3 + ax + b' (invalid-curve attack)
        for _ in 0..6 {
            let x = rand_scalar(p, &c.p);
            let y = rand_scalar(p, &c.p);
            if r2::on_curve(&x, &y) {
                continue;
            }
            crafted(ctx, s, &r2::b32(&x), &r2::b32(&y), 0x04, "invalid_curve_point");
        }
        // small-order style invalid-curve points: y = 0 (order 2 on its curve)
        let x = rand_scalar(p, &c.p);
        crafted(ctx, s, &r2::b32(&x), &[0u8; 32], 0x04, "invalid_curve_order2");
        crafted(ctx, s, &[0u8; 32], &[0u8; 32], 0x04, "c1_zero_zero");
    }
    // coordinates >= p that alias a genuine curve point: x' = x + p for a small x on the curve
    let lim: BigUint = (BigUint::one() << 256) - &c.p;
    // the exact boundary first: x' = p is an alias of x = 0, and (0, sqrt(b)) is a curve point
    if let Some(y0) = r2::sqrt_p(&c.b) {
        for y in [y0.clone(), (&c.p - &y0) % &c.p] {
            let pc = if s.lay.1 { if y.bit(0) { 3 } else { 2 } } else { 4 };
            crafted(ctx, s, &r2::b32(&c.p), &r2::b32(&y), pc, "coordinate_x_eq_p_alias_of_zero");
        }
    }
    let mut xs = BigUint::from(p.below(1 << 20));
    let mut found = 0;
    while found < 2 {
        xs += 1u32;
        let rhs = (&xs * &xs * &xs + &c.a * &xs + &c.b) % &c.p;
        if let Some(y) = r2::sqrt_p(&rhs) {
            assert!(xs < lim);
            let xa = &xs + &c.p;
            let y = if found == 0 { y } else { (&c.p - &y) % &c.p };
            let pc = if s.lay.1 { if y.bit(0) { 3 } else { 2 } } else { 4 };
            crafted(ctx, s, &r2::b32(&xa), &r2::b32(&y), pc, "coordinate_x_ge_p_alias");
            found += 1;
        }
    }
    // x = p (alias of 0), x = 2^256-1, y = p, y = 2^256 - 1
    let ff = [0xffu8; 32];
    let pb = r2::b32(&c.p);
    if !s.lay.1 {
        crafted(ctx, s, &pb, &r2::b32(&c1.1), 0x04, "coordinate_x_eq_p");
        crafted(ctx, s, &r2::b32(&c1.0), &pb, 0x04, "coordinate_y_eq_p");
        crafted(ctx, s, &ff, &r2::b32(&c1.1), 0x04, "coordinate_all_ff");
        crafted(ctx, s, &r2::b32(&c1.0), &ff, 0x04, "coordinate_all_ff");
    } else {
        crafted(ctx, s, &pb, &[0u8; 32], 0x02, "coordinate_x_eq_p");
        crafted(ctx, s, &ff, &[0u8; 32], 0x03, "coordinate_all_ff");
        // compressed x whose x^3+ax+b is a non-residue: a decoder that skips the square-root check
        // computes y' = rhs^((p+1)/4); give it a tag that matches (x, y')
        let mut tries = 0;
        let mut done = 0;
        while done < 3 && tries < 200 {
            tries += 1;
            let x = rand_scalar(p, &c.p);
            let rhs = (&x * &x * &x + &c.a * &x + &c.b) % &c.p;
            if r2::sqrt_p(&rhs).is_some() {
                continue;
            }
            let e = (&c.p + 1u32) >> 2;
            let mut yf = rhs.modpow(&e, &c.p);
            let pc = 2 + (done as u8 & 1);
            if yf.bit(0) != (pc == 3) {
                yf = (&c.p - &yf) % &c.p;
            }
            crafted(ctx, s, &r2::b32(&x), &r2::b32(&yf), pc, "compressed_nonresidue_x");
            done += 1;
        }
    }
    // C1 replaced by another valid point (tag now wrong) and by -C1
    let other = r2::mul(&rand_scalar(p, &c.n), &r2::g()).unwrap();
    let mut t = r2::encode(&other, s.lay.1);
    t.extend_from_slice(&s.ct[l1..]);
    probe(ctx, s, &t, "c1_other_point");
    let negc1 = r2::neg(&Some(c1.clone())).unwrap();
    let mut t = r2::encode(&negc1, s.lay.1);
    t.extend_from_slice(&s.ct[l1..]);
    probe(ctx, s, &t, "c1_negated");
    let _ = pc_ok;
    // C2 and C3 swapped/zeroed
    let (c1b, c2, c3) = r2::split(&s.ct, s.lay.0, s.lay.1).unwrap();
    probe(ctx, s, &assemble(c1b, c2, &[0u8; 32], s.lay.0), "c3_zeroed");
    // C3 changed so that a folded (XOR / sum) comparison cannot see it
    for k in 0..6u64 {
        let mut h = c3.to_vec();
        let (a, b) = (p.below(32) as usize, p.below(32) as usize);
        let j = (a + 1 + b % 31) % 32;
        match k {
            0 => h.swap(a, j),
            1 | 2 => {
                let m = 1u8 << p.below(8);
                h[a] ^= m;
                h[j] ^= m;
            }
            3 => h.reverse(),
            4 => h.rotate_left(1 + b % 31),
            _ => {
                h[a] = h[a].wrapping_add(1);
                h[j] = h[j].wrapping_sub(1);
            }
        }
        if h != c3 {
            probe(ctx, s, &assemble(c1b, c2, &h, s.lay.0), "c3_fold_preserving_change");
        }
    }
    // the same mask on bytes 4 / 8 / 16 / 24 apart: invisible to a comparison that folds 32- or 64-bit lanes by XOR
    for offs in [vec![4usize], vec![8], vec![16], vec![24], vec![8, 16, 24], vec![4, 8, 12]] {
        let mut h = c3.to_vec();
        let a = p.below(8) as usize;
        let m = 1 + p.below(255) as u8;
        h[a] ^= m;
        for o in offs {
            h[a + o] ^= m;
        }
        probe(ctx, s, &assemble(c1b, c2, &h, s.lay.0), "c3_fold_preserving_change");
    }
    let other_order = if s.lay.0 == Order::C1C2C3 { Order::C1C3C2 } else { Order::C1C2C3 };
    if c2.len() != 32 || c2 != c3 {
        probe(ctx, s, &assemble(c1b, c2, c3, other_order), "components_in_other_order");
    }
    let _ = Zero::is_zero(&BigUint::zero());
}

/// The ASN.1 (GM/T 0009 SM2Cipher) form of one reference-made ciphertext: component-level tampering with the DER
/// lengths kept consistent, and every single-bit flip of the document.
fn asn1_fault_space(ctx: &mut Ctx, d: &BigUint, sk: &Sm2PrivateKey, msg: &[u8], raw: &[u8], cls: &str) {
    use crate::refs::der;
    let c = r2::curve();
    let (x, y, c3, c2) = (&raw[1..33], &raw[33..65], &raw[65..97], &raw[97..]);
    let doc = der::sm2cipher_encode(x, y, c3, c2);
    let dec = |b: &[u8]| guard(|| sk.decrypt_asn1(b, false, model(Order::C1C3C2)));
    let w = |t: &[u8], what: &str| json!({"class": cls, "tamper": what, "d": hex::encode(r2::b32(d)), "msg": hx(msg), "original_doc": hx(&doc), "tampered_doc": hx(t)});
    ctx.eval();
    ctx.class("asn1_valid_decrypts");
    ctx.class(cls);
    match dec(&doc) {
        Outcome::Ret(Ok(m)) if m == msg => {}
        o => ctx.violation(&format!("decrypt_asn1:valid-document:{}", o.class()), w(&doc, "none")),
    }
    // component-level: the document stays a well-formed SM2Cipher, one component differs from the original
    let cut_first = |v: &[u8]| v[1..].to_vec();
    let cut_last = |v: &[u8]| v[..v.len() - 1].to_vec();
    let pre0 = |v: &[u8]| [&[0u8][..], v].concat();
    let app0 = |v: &[u8]| [v, &[0u8][..]].concat();
    let mut variants: Vec<(&str, Vec<u8>)> = vec![
        ("c3_first_byte_dropped", der::sm2cipher_encode(x, y, &cut_first(c3), c2)),
        ("c3_last_byte_dropped", der::sm2cipher_encode(x, y, &cut_last(c3), c2)),
        ("c3_zero_prepended", der::sm2cipher_encode(x, y, &pre0(c3), c2)),
        ("c3_zero_appended", der::sm2cipher_encode(x, y, &app0(c3), c2)),
        ("c3_empty", der::sm2cipher_encode(x, y, &[], c2)),
        ("c2_zero_prepended", der::sm2cipher_encode(x, y, c3, &pre0(c2))),
        ("c2_zero_appended", der::sm2cipher_encode(x, y, c3, &app0(c2))),
        ("c3_c2_swapped", der::sm2cipher_encode(x, y, c2, c3)),
        ("x_y_swapped", der::sm2cipher_encode(y, x, c3, c2)),
    ];
    if c2.len() > 1 {
        variants.push(("c2_first_byte_dropped", der::sm2cipher_encode(x, y, c3, &cut_first(c2))));
        variants.push(("c2_last_byte_dropped", der::sm2cipher_encode(x, y, c3, &cut_last(c2))));
    }
    for (nm, coord) in [("x", x), ("y", y)] {
        let v = r2::from_b(coord);
        let alias = (&v + &c.p).to_bytes_be();
        let neg = r2::b32(&((&c.p - &v) % &c.p));
        let other = |a: &[u8]| if nm == "x" { der::sm2cipher_encode(a, y, c3, c2) } else { der::sm2cipher_encode(x, a, c3, c2) };
        variants.push((if nm == "x" { "x_plus_p_alias" } else { "y_plus_p_alias" }, other(&alias)));
        variants.push((if nm == "x" { "x_negated" } else { "y_negated" }, other(&neg)));
        variants.push((if nm == "x" { "x_shifted_one_byte" } else { "y_shifted_one_byte" }, other(&[&coord[1..], &[0u8][..]].concat())));
    }
    for (what, t) in variants {
        if t == doc {
            continue;
        }
        ctx.eval();
        ctx.class("asn1_component_tamper");
        ctx.class(&format!("asn1:{}", what));
        ctx.distinct("asn1t", &[&t]);
        match dec(&t) {
            Outcome::Ret(Err(_)) => {}
            Outcome::Ret(Ok(m)) => ctx.violation(&format!("decrypt_asn1:{}:{}", what, if m == msg { "accepted-with-original-plaintext" } else { "returned-different-plaintext" }), w(&t, what)),
            o => ctx.violation(&format!("decrypt_asn1:{}:{}", what, o.class()), w(&t, what)),
        }
    }
    // every single-bit flip of the document. A flip in a tag/length octet may leave a document that only a lenient
    // (BER) reader accepts with the same four values: that is not a modified C1/C2/C3, so it is only counted. A flip
    // that a strict reader decodes to DIFFERENT values, or any returned plaintext other than M, is a violation.
    for bit in 0..doc.len() * 8 {
        let mut t = doc.clone();
        t[bit / 8] ^= 0x80 >> (bit % 8);
        ctx.eval();
        ctx.class("asn1_bitflip");
        let strict = der::sm2cipher_decode(&t);
        let values_differ = match &strict {
            Some(pz) => r2::from_b(&pz.x) != r2::from_b(x) || r2::from_b(&pz.y) != r2::from_b(y) || pz.c3 != c3 || pz.c2 != c2,
            None => false,
        };
        match dec(&t) {
            Outcome::Ret(Err(_)) => {}
            Outcome::Ret(Ok(m)) => {
                if m != msg {
                    ctx.violation("decrypt_asn1:bitflip:returned-different-plaintext", w(&t, &format!("bit {}", bit)));
                } else if values_differ {
                    ctx.violation("decrypt_asn1:bitflip:accepted-with-original-plaintext", w(&t, &format!("bit {}", bit)));
                } else {
                    ctx.class("asn1_bitflip_lenient_reader_same_values");
                }
            }
            o => ctx.violation(&format!("decrypt_asn1:bitflip:{}", o.class()), w(&t, &format!("bit {}", bit))),
        }
    }
}

pub fn run(ctx: &mut Ctx) {
    for (n, ok) in r2::selftest() {
        ctx.selftest(&n, ok);
    }
    ctx.require(&["valid_decrypts", "bitflip_pc_byte", "bitflip_c1", "bitflip_c2_c3", "truncated_inside_c1", "truncated_inside_hash", "truncated_body", "pc_byte_illegal", "offcurve_y_plus_1", "invalid_curve_point", "coordinate_x_ge_p_alias", "coordinate_x_eq_p", "coordinate_x_eq_p_alias_of_zero", "compressed_nonresidue_x", "c1_other_point", "c1_negated", "c3_zeroed", "c3_fold_preserving_change", "extended", "crafted_valid_c1", "asn1_valid_decrypts", "asn1_component_tamper", "asn1_bitflip", "asn1_sample_c3_leading_zero", "asn1_sample_c3_trailing_zero", "asn1_sample_c2_leading_zero"]);
    let c = r2::curve();
    let nsamples = ctx.n(24, 600);
    let mut prng = ctx.prng("samples");
    let mut first = true;
    for i in 0..nsamples {
        let sub = prng.next();
        if !ctx.mine(i) {
            continue;
        }
        let mut p = Prng::new(sub, "s");
        let d = key_for(&mut p, i % 40);
        let pk = r2::mul(&d, &r2::g()).unwrap();
        let len = match i % 6 {
            0 => 1,
            1 => 32,
            2 => 33,
            _ => p.range(1, 90),
        };
        let msg = p.bytes(len);
        let k = rand_scalar(&mut p, &c.n);
        let lay = LAYOUTS[(i % 4) as usize];
        let Some(ct) = r2::encrypt(&pk, &msg, &k, lay.0, lay.1) else { continue };
        let Some(sk) = lib_sk(&d) else { continue };
        let s = Sample { d, sk, msg, ct, lay };
        ctx.class(layout_name(lay.0, lay.1));
        fault_space(ctx, &s, &mut p);
        if first {
            first = false;
            ctx.sample(json!({"sample_ciphertext": {"layout": layout_name(lay.0, lay.1), "d": hex::encode(r2::b32(&s.d)), "msg": hx(&s.msg), "ct": hx(&s.ct)}, "faults": "every bit flip, every truncation, all 253+ illegal PC bytes, off-curve / invalid-curve / >=p / non-residue C1 with a valid tag, substituted C1, zeroed C3, swapped order"}));
        }
    }
    // --- genuine ciphertexts whose C1 is crafted so that an addition of the on-curve test lands on a carry / reduction
    // boundary (sm2x::crafted_points): the untouched one must decrypt, and the whole fault space is applied around it
    {
        let mut pc = ctx.prng("crafted_pts");
        let reps = ctx.n(1, 4);
        for _ in 0..reps {
            let sub = pc.next();
            let mut q = Prng::new(sub, "cp");
            for (name, pt) in crafted_points_sharded(&mut q, 1, ctx.shard as u64, ctx.nshards as u64) {
                let d = rand_scalar(&mut q, &(&c.n - 1u32));
                let mlen = 1 + q.below(40) as usize;
                let msg = q.bytes(mlen);
                let lay = LAYOUTS[q.below(4) as usize];
                let Some((c2, c3)) = r2::craft_for_point(&d, &pt, &msg) else { continue };
                if c2 == msg {
                    continue;
                }
                let ct = assemble(&r2::encode(&pt, lay.1), &c2, &c3, lay.0);
                if r2::decrypt(&d, &ct, lay.0, lay.1).as_deref() != Some(&msg[..]) {
                    ctx.violation("harness:crafted-c1-ciphertext-rejected-by-reference", json!({"class": name}));
                    continue;
                }
                let Some(sk) = lib_sk(&d) else { continue };
                ctx.class("crafted_valid_c1");
                ctx.class(&format!("crafted:{}", name));
                let s = Sample { d, sk, msg, ct, lay };
                fault_space(ctx, &s, &mut q);
            }
        }
    }
    // --- the ASN.1 form: ordinary samples plus samples searched so that C3 begins / ends with a zero byte and C2 begins
    // with a zero byte (a reader that pads or trims an OCTET STRING like an INTEGER is wrong only for these)
    {
        let mut pa = ctx.prng("asn1");
        let nsamp = ctx.n(16, 200);
        for i in 0..nsamp {
            let sub = pa.next();
            if !ctx.mine(i) {
                continue;
            }
            let mut q = Prng::new(sub, "a1");
            let d = key_for(&mut q, i % 40);
            let pk = r2::mul(&d, &r2::g()).unwrap();
            let Some(sk) = lib_sk(&d) else { continue };
            let mlen = [1usize, 31, 32, 33, 5, 64][(i % 6) as usize];
            let msg = q.bytes(mlen);
            let want = i % 4; // 0: any, 1: C3[0]=0, 2: C3[31]=0, 3: C2[0]=0
            let mut found = None;
            for _ in 0..4000 {
                let k = rand_scalar(&mut q, &c.n);
                let Some(raw) = r2::encrypt(&pk, &msg, &k, Order::C1C3C2, false) else { continue };
                let ok = match want {
                    0 => true,
                    1 => raw[65] == 0,
                    2 => raw[96] == 0,
                    _ => raw[97] == 0,
                };
                if ok {
                    found = Some(raw);
                    break;
                }
            }
            let Some(raw) = found else { continue };
            let cls = ["asn1_sample_any", "asn1_sample_c3_leading_zero", "asn1_sample_c3_trailing_zero", "asn1_sample_c2_leading_zero"][want as usize];
            asn1_fault_space(ctx, &d, &sk, &msg, &raw, cls);
        }
    }
    ctx.exhaustive("every single-bit flip and every truncation length of each sample ciphertext", true);
    ctx.exhaustive("every illegal point-format byte for each sample's layout", true);
}
