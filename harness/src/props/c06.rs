//! C06 — SM2 decryption rejects every tampered or invalid-curve ciphertext.
use crate::mon::{guard, hx, Ctx, Outcome, Prng};
use crate::props::c05::{layout_name, model, LAYOUTS};
use crate::refs::sm2::{self as r2, Order};
use crate::sm2x::*;
use gm_sm2::key::Sm2PrivateKey;
use num_bigint::BigUint;
use num_traits::{One, Zero};
use serde_json::json;

struct Sample {
    d: BigUint,
    sk: Sm2PrivateKey,
    msg: Vec<u8>,
    ct: Vec<u8>,
    lay: (Order, bool),
}

/// The only acceptable Ok is the untouched ciphertext with the original plaintext.
fn probe(ctx: &mut Ctx, s: &Sample, ct: &[u8], cls: &str) {
    ctx.eval();
    ctx.class(cls);
    ctx.distinct(cls, &[ct, &r2::b32(&s.d), &[s.lay.1 as u8, s.lay.0 as u8]]);
    let o = guard(|| s.sk.decrypt(ct, s.lay.1, model(s.lay.0)));
    let w = || json!({"class": cls, "layout": layout_name(s.lay.0, s.lay.1), "d": hex::encode(r2::b32(&s.d)), "original_ct": hx(&s.ct), "original_msg": hx(&s.msg), "tampered_ct": hx(ct), "tampered_len": ct.len()});
    match o {
        Outcome::Ret(Err(_)) => {}
        Outcome::Ret(Ok(m)) => {
            let what = if m == s.msg { "accepted-with-original-plaintext" } else { "returned-different-plaintext" };
            ctx.violation(&format!("decrypt:{}:{}:{}", cls, if s.lay.1 { "compressed" } else { "uncompressed" }, what), json!({"case": w(), "returned": hx(&m)}));
        }
        Outcome::Panic(p) => ctx.violation(&format!("decrypt:{}:{}:panic", cls, if s.lay.1 { "compressed" } else { "uncompressed" }), json!({"case": w(), "panic": p})),
        Outcome::StepLimit(_) => ctx.violation(&format!("decrypt:{}:steplimit", cls), w()),
    }
}

fn assemble(c1: &[u8], c2: &[u8], c3: &[u8], order: Order) -> Vec<u8> {
    let mut v = c1.to_vec();
    match order {
        Order::C1C2C3 => {
            v.extend_from_slice(c2);
            v.extend_from_slice(c3);
        }
        Order::C1C3C2 => {
            v.extend_from_slice(c3);
            v.extend_from_slice(c2);
        }
    }
    v
}

/// C1 = arbitrary affine (x, y) given as raw 32-byte strings (may be >= p), with C2/C3 exactly as a
/// decryptor without point validation would recompute them (a-only group law on the reduced coordinates).
fn crafted(ctx: &mut Ctx, s: &Sample, xb: &[u8; 32], yb: &[u8; 32], pc: u8, cls: &str) {
    let c = r2::curve();
    let x = r2::from_b(xb) % &c.p;
    let y = r2::from_b(yb) % &c.p;
    let Some((c2, c3)) = r2::craft_for_point(&s.d, &(x, y), &s.msg) else { return };
    let mut c1 = vec![pc];
    c1.extend_from_slice(xb);
    if !s.lay.1 {
        c1.extend_from_slice(yb);
    }
    probe(ctx, s, &assemble(&c1, &c2, &c3, s.lay.0), cls);
}

fn fault_space(ctx: &mut Ctx, s: &Sample, p: &mut Prng) {
    let c = r2::curve();
    // sanity: untouched ciphertext decrypts to M
    ctx.eval();
    ctx.class("valid_decrypts");
    match guard(|| s.sk.decrypt(&s.ct, s.lay.1, model(s.lay.0))) {
        Outcome::Ret(Ok(m)) if m == s.msg => {}
        o => ctx.violation(&format!("decrypt:valid-ciphertext:{}", o.class()), json!({"layout": layout_name(s.lay.0, s.lay.1), "ct": hx(&s.ct)})),
    }
    let l1 = if s.lay.1 { 33 } else { 65 };
    // every single-bit flip
    for bit in 0..s.ct.len() * 8 {
        let mut t = s.ct.clone();
        t[bit / 8] ^= 0x80 >> (bit % 8);
        let byte = bit / 8;
        let cls = if byte == 0 {
            "bitflip_pc_byte"
        } else if byte < l1 {
            "bitflip_c1"
        } else {
            "bitflip_c2_c3"
        };
        probe(ctx, s, &t, cls);
    }
    // every truncation
    for len in 0..s.ct.len() {
        let cls = if len < l1 { "truncated_inside_c1" } else if len < l1 + 32 { "truncated_inside_hash" } else { "truncated_body" };
        probe(ctx, s, &s.ct[..len], cls);
    }
    // extension by one byte
    let mut e = s.ct.clone();
    e.push(p.next() as u8);
    probe(ctx, s, &e, "extended");
    // point-format byte: every value except the legal one(s) for this layout, C2/C3 untouched
    for pc in 0..=255u8 {
        let legal = if s.lay.1 { pc == 2 || pc == 3 } else { pc == 4 };
        if legal {
            continue;
        }
        let mut t = s.ct.clone();
        t[0] = pc;
        probe(ctx, s, &t, "pc_byte_illegal");
    }
    // the valid C1 of the sample, as affine
    let (c1b, _c2, _c3) = r2::split(&s.ct, s.lay.0, s.lay.1).unwrap();
    let c1 = r2::decode(c1b).unwrap();
    let pc_ok = c1b[0];
    // off-curve (x, y+1) with a tag that a check-less decryptor accepts (uncompressed layouts only: a
    // compressed encoding always decodes to a curve point or fails)
    if !s.lay.1 {
        let y1 = (&c1.1 + 1u32) % &c.p;
        crafted(ctx, s, &r2::b32(&c1.0), &r2::b32(&y1), 0x04, "offcurve_y_plus_1");
        let x1 = (&c1.0 + 1u32) % &c.p;
        crafted(ctx, s, &r2::b32(&x1), &r2::b32(&c1.1), 0x04, "offcurve_x_plus_1");
        // random affine pairs = points of y^2 = x^3 + ax + b' (invalid-curve attack)
        for _ in 0..6 {
            let x = rand_scalar(p, &c.p);
            let y = rand_scalar(p, &c.p);
            if r2::on_curve(&x, &y) {
                continue;
            }
            crafted(ctx, s, &r2::b32(&x), &r2::b32(&y), 0x04, "invalid_curve_point");
        }
        // small-order style invalid-curve points: y = 0 (order 2 on its curve)
        let x = rand_scalar(p, &c.p);
        crafted(ctx, s, &r2::b32(&x), &[0u8; 32], 0x04, "invalid_curve_order2");
        crafted(ctx, s, &[0u8; 32], &[0u8; 32], 0x04, "c1_zero_zero");
    }
    // coordinates >= p that alias a genuine curve point: x' = x + p for a small x on the curve
    let lim: BigUint = (BigUint::one() << 256) - &c.p;
    // the exact boundary first: x' = p is an alias of x = 0, and (0, sqrt(b)) is a curve point
    if let Some(y0) = r2::sqrt_p(&c.b) {
        for y in [y0.clone(), (&c.p - &y0) % &c.p] {
            let pc = if s.lay.1 { if y.bit(0) { 3 } else { 2 } } else { 4 };
            crafted(ctx, s, &r2::b32(&c.p), &r2::b32(&y), pc, "coordinate_x_eq_p_alias_of_zero");
        }
    }
    let mut xs = BigUint::from(p.below(1 << 20));
    let mut found = 0;
    while found < 2 {
        xs += 1u32;
        let rhs = (&xs * &xs * &xs + &c.a * &xs + &c.b) % &c.p;
        if let Some(y) = r2::sqrt_p(&rhs) {
            assert!(xs < lim);
            let xa = &xs + &c.p;
            let y = if found == 0 { y } else { (&c.p - &y) % &c.p };
            let pc = if s.lay.1 { if y.bit(0) { 3 } else { 2 } } else { 4 };
            crafted(ctx, s, &r2::b32(&xa), &r2::b32(&y), pc, "coordinate_x_ge_p_alias");
            found += 1;
        }
    }
    // x = p (alias of 0), x = 2^256-1, y = p, y = 2^256 - 1
    let ff = [0xffu8; 32];
    let pb = r2::b32(&c.p);
    if !s.lay.1 {
        crafted(ctx, s, &pb, &r2::b32(&c1.1), 0x04, "coordinate_x_eq_p");
        crafted(ctx, s, &r2::b32(&c1.0), &pb, 0x04, "coordinate_y_eq_p");
        crafted(ctx, s, &ff, &r2::b32(&c1.1), 0x04, "coordinate_all_ff");
        crafted(ctx, s, &r2::b32(&c1.0), &ff, 0x04, "coordinate_all_ff");
    } else {
        crafted(ctx, s, &pb, &[0u8; 32], 0x02, "coordinate_x_eq_p");
        crafted(ctx, s, &ff, &[0u8; 32], 0x03, "coordinate_all_ff");
        // compressed x whose x^3+ax+b is a non-residue: a decoder that skips the square-root check
        // computes y' = rhs^((p+1)/4); give it a tag that matches (x, y')
        let mut tries = 0;
        let mut done = 0;
        while done < 3 && tries < 200 {
            tries += 1;
            let x = rand_scalar(p, &c.p);
            let rhs = (&x * &x * &x + &c.a * &x + &c.b) % &c.p;
            if r2::sqrt_p(&rhs).is_some() {
                continue;
            }
            let e = (&c.p + 1u32) >> 2;
            let mut yf = rhs.modpow(&e, &c.p);
            let pc = 2 + (done as u8 & 1);
            if yf.bit(0) != (pc == 3) {
                yf = (&c.p - &yf) % &c.p;
            }
            crafted(ctx, s, &r2::b32(&x), &r2::b32(&yf), pc, "compressed_nonresidue_x");
            done += 1;
        }
    }
    // C1 replaced by another valid point (tag now wrong) and by -C1
    let other = r2::mul(&rand_scalar(p, &c.n), &r2::g()).unwrap();
    let mut t = r2::encode(&other, s.lay.1);
    t.extend_from_slice(&s.ct[l1..]);
    probe(ctx, s, &t, "c1_other_point");
    let negc1 = r2::neg(&Some(c1.clone())).unwrap();
    let mut t = r2::encode(&negc1, s.lay.1);
    t.extend_from_slice(&s.ct[l1..]);
    probe(ctx, s, &t, "c1_negated");
    let _ = pc_ok;
    // C2 and C3 swapped/zeroed
    let (c1b, c2, c3) = r2::split(&s.ct, s.lay.0, s.lay.1).unwrap();
    probe(ctx, s, &assemble(c1b, c2, &[0u8; 32], s.lay.0), "c3_zeroed");
    let other_order = if s.lay.0 == Order::C1C2C3 { Order::C1C3C2 } else { Order::C1C2C3 };
    if c2.len() != 32 || c2 != c3 {
        probe(ctx, s, &assemble(c1b, c2, c3, other_order), "components_in_other_order");
    }
    let _ = Zero::is_zero(&BigUint::zero());
}

pub fn run(ctx: &mut Ctx) {
    for (n, ok) in r2::selftest() {
        ctx.selftest(&n, ok);
    }
    ctx.require(&["valid_decrypts", "bitflip_pc_byte", "bitflip_c1", "bitflip_c2_c3", "truncated_inside_c1", "truncated_inside_hash", "truncated_body", "pc_byte_illegal", "offcurve_y_plus_1", "invalid_curve_point", "coordinate_x_ge_p_alias", "coordinate_x_eq_p", "coordinate_x_eq_p_alias_of_zero", "compressed_nonresidue_x", "c1_other_point", "c1_negated", "c3_zeroed", "extended", "crafted_valid_c1"]);
    let c = r2::curve();
    let nsamples = ctx.n(24, 600);
    let mut prng = ctx.prng("samples");
    let mut first = true;
    for i in 0..nsamples {
        let sub = prng.next();
        if !ctx.mine(i) {
            continue;
        }
        let mut p = Prng::new(sub, "s");
        let d = key_for(&mut p, i % 40);
        let pk = r2::mul(&d, &r2::g()).unwrap();
        let len = match i % 6 {
            0 => 1,
            1 => 32,
            2 => 33,
            _ => p.range(1, 90),
        };
        let msg = p.bytes(len);
        let k = rand_scalar(&mut p, &c.n);
        let lay = LAYOUTS[(i % 4) as usize];
        let Some(ct) = r2::encrypt(&pk, &msg, &k, lay.0, lay.1) else { continue };
        let Some(sk) = lib_sk(&d) else { continue };
        let s = Sample { d, sk, msg, ct, lay };
        ctx.class(layout_name(lay.0, lay.1));
        fault_space(ctx, &s, &mut p);
        if first {
            first = false;
            ctx.sample(json!({"sample_ciphertext": {"layout": layout_name(lay.0, lay.1), "d": hex::encode(r2::b32(&s.d)), "msg": hx(&s.msg), "ct": hx(&s.ct)}, "faults": "every bit flip, every truncation, all 253+ illegal PC bytes, off-curve / invalid-curve / >=p / non-residue C1 with a valid tag, substituted C1, zeroed C3, swapped order"}));
        }
    }
    // --- genuine ciphertexts whose C1 is crafted so that an addition of the on-curve test lands on a carry / reduction
    // boundary (sm2x::crafted_points): the untouched one must decrypt, and the whole fault space is applied around it
    {
        let mut pc = ctx.prng("crafted_pts");
        let reps = ctx.n(1, 4);
        for _ in 0..reps {
            let sub = pc.next();
            let mut q = Prng::new(sub, "cp");
            for (name, pt) in crafted_points_sharded(&mut q, 1, ctx.shard as u64, ctx.nshards as u64) {
                let d = rand_scalar(&mut q, &(&c.n - 1u32));
                let mlen = 1 + q.below(40) as usize;
                let msg = q.bytes(mlen);
                let lay = LAYOUTS[q.below(4) as usize];
                let Some((c2, c3)) = r2::craft_for_point(&d, &pt, &msg) else { continue };
                if c2 == msg {
                    continue;
                }
                let ct = assemble(&r2::encode(&pt, lay.1), &c2, &c3, lay.0);
                if r2::decrypt(&d, &ct, lay.0, lay.1).as_deref() != Some(&msg[..]) {
                    ctx.violation("harness:crafted-c1-ciphertext-rejected-by-reference", json!({"class": name}));
                    continue;
                }
                let Some(sk) = lib_sk(&d) else { continue };
                ctx.class("crafted_valid_c1");
                ctx.class(&format!("crafted:{}", name));
                let s = Sample { d, sk, msg, ct, lay };
                fault_space(ctx, &s, &mut q);
            }
        }
    }
    ctx.exhaustive("every single-bit flip and every truncation length of each sample ciphertext", true);
    ctx.exhaustive("every illegal point-format byte for each sample's layout", true);
}
