//! C16 — SM9 hash-to-range and key extraction match GM/T 0044.
use crate::mon::{guard, hx, Ctx, Outcome, Prng};
use crate::refs::sm9 as r9;
use crate::sm9x::*;
use gm_sm9::verif_hooks as hk;
use num_bigint::BigUint;
use num_traits::{One, Zero};
use serde_json::json;

fn ha_bytes(v: &BigUint) -> [u8; 40] {
    let b = v.to_bytes_be();
    assert!(b.len() <= 40);
    let mut o = [0u8; 40];
    o[40 - b.len()..].copy_from_slice(&b);
    o
}

fn reduce_case(ctx: &mut Ctx, ha: &[u8], cls: &str) {
    ctx.eval();
    ctx.class(cls);
    ctx.distinct("ha", &[&ha[..40]]);
    let e = r9::from_hash(ha);
    match guard(|| gm_sm9::fields::mod_n_from_hash(ha)) {
        Outcome::Ret(v) => {
            let got = r9::from_limbs(&v);
            if got != e {
                let sym = if got.is_zero() { "returns-0" } else if got >= r9::params().n { "out-of-range" } else { "wrong-value" };
                ctx.violation(&format!("mod_n_from_hash:{}:{}", cls, sym), json!({"ha": hex::encode(&ha[..40]), "expected": hex::encode(r9::b32(&e)), "actual": hex::encode(r9::b32(&got))}));
            }
        }
        o => ctx.violation(&format!("mod_n_from_hash:{}:{}", cls, o.class()), json!({"ha": hex::encode(&ha[..40]), "outcome": format!("{:?}", o)})),
    }
}

pub fn run(ctx: &mut Ctx) {
    for (n, ok) in r9::selftest(false) {
        ctx.selftest(&n, ok);
    }
    ctx.require(&["ha=q(N-1)+r", "ha_r=0", "ha_r=N-2", "ha_top_limb_ones", "ha_all_ff", "ha_random", "ha_64_bytes", "ha_small", "h1", "h2", "extract_sign", "extract_enc", "extract_exch", "extract_fails_when_t1=0", "extract_ok_next_to_failure", "annex_keys", "id_empty", "id_long", "h1_same_id_all_hids", "ha_r_limb_ladder", "t1_limb_ladder", "t1_carry_chain", "id_beyond_2^16_bits", "extract_id_beyond_2^16_bits", "t2_near_group_order", "t2_table_scalar", "h1_h2_length_sweep", "id_with_nul_bytes", "ha_r_low_limbs_all_ones", "master_key=N-1", "t1_boundary_value", "t1_sum_at_2^256"]);
    let pr = r9::params();
    let nm1 = &pr.n - 1u32;
    let two320: BigUint = BigUint::one() << 320;
    let qmax = (&two320 - 1u32) / &nm1;

    // --- Ha = q (N-1) + r for boundary q and r
    let rs: Vec<(&str, BigUint)> = vec![("0", BigUint::zero()), ("1", BigUint::one()), ("2", BigUint::from(2u32)), ("N-3", &pr.n - 3u32), ("N-2", &pr.n - 2u32)];
    let mut qs: Vec<BigUint> = vec![BigUint::zero(), BigUint::one(), BigUint::from(2u32), BigUint::one() << 63, (BigUint::one() << 64) - 1u32, BigUint::one() << 64, (BigUint::one() << 64) + 1u32, &qmax - 2u32, &qmax - 1u32, qmax.clone()];
    let nq = ctx.n(20_000, 600_000);
    let mut prng = ctx.prng("q");
    for _ in 0..nq {
        qs.push(BigUint::from_bytes_be(&prng.bytes(9)) % (&qmax + 1u32));
    }
    let mut idx = 0u64;
    for q in &qs {
        for (rn, r) in &rs {
            idx += 1;
            if !ctx.mine(idx) {
                continue;
            }
            let v = q * &nm1 + r;
            if v >= two320 {
                continue;
            }
            ctx.class("ha=q(N-1)+r");
            reduce_case(ctx, &ha_bytes(&v), &format!("ha_r={}", rn));
        }
    }
    // --- r in every limb-wise comparison pattern against N-1 (upper limbs equal to those of the modulus)
    {
        let mut pl = ctx.prng("ladder_r");
        let reps = ctx.n(2, 40);
        for rep in 0..reps {
            for (pat, r) in ladder_values(&nm1, &mut pl) {
                idx += 1;
                let qsub = pl.next();
                if !ctx.mine(idx) || r >= nm1 {
                    continue;
                }
                let q = if rep == 0 { BigUint::zero() } else { BigUint::from(qsub) % (&qmax) };
                let v = &q * &nm1 + &r;
                if v >= two320 {
                    continue;
                }
                ctx.class("ha_r_limb_ladder");
                ctx.class(&format!("ha_r_ladder:{}", pat));
                reduce_case(ctx, &ha_bytes(&v), "ha_r_limb_ladder");
            }
        }
    }
    // --- r = Ha mod (N-1) with all-ones low limbs: the final "+1" ripples a carry through them
    {
        let mut pl = ctx.prng("r_ones");
        let reps = ctx.n(4, 60);
        for rep in 0..reps {
            for nlow in 1..=3usize {
                idx += 1;
                let qsub = pl.next();
                let mut l = pl.limbs();
                if !ctx.mine(idx) {
                    continue;
                }
                for j in 0..nlow {
                    l[j] = u64::MAX;
                }
                l[3] %= 0xB640_0000_02A3_A6F1;
                let r = r9::from_limbs(&l);
                if r >= nm1 {
                    continue;
                }
                let q = if rep == 0 { BigUint::zero() } else { BigUint::from(qsub) % (&qmax) };
                let v = &q * &nm1 + &r;
                if v >= two320 {
                    continue;
                }
                ctx.class("ha_r_low_limbs_all_ones");
                reduce_case(ctx, &ha_bytes(&v), "ha_r_low_limbs_all_ones");
            }
        }
    }
    // --- structured: top limb ones, all ff, small, random; 64-byte inputs of which only 40 count
    let n = ctx.n(30_000, 1_500_000);
    let mut prng = ctx.prng("rand");
    for i in 0..n {
        let mut ha = prng.bytes(64);
        let kind = i % 8;
        if !ctx.mine(i) {
            continue;
        }
        match kind {
            0 => {
                for b in ha[..8].iter_mut() {
                    *b = 0xff;
                }
                reduce_case(ctx, &ha[..40], "ha_top_limb_ones");
            }
            1 => {
                let k = 8 * (1 + (i / 8 % 4)) as usize;
                for b in ha[..k].iter_mut() {
                    *b = 0xff;
                }
                reduce_case(ctx, &ha[..40], "ha_top_limb_ones");
            }
            2 => {
                let z = (i / 8 % 40) as usize;
                for b in ha[..z].iter_mut() {
                    *b = 0;
                }
                reduce_case(ctx, &ha[..40], "ha_small");
            }
            3 => reduce_case(ctx, &ha, "ha_64_bytes"),
            _ => reduce_case(ctx, &ha[..40], "ha_random"),
        }
    }
    if ctx.shard == 0 {
        reduce_case(ctx, &[0xffu8; 40], "ha_all_ff");
        reduce_case(ctx, &[0u8; 40], "ha_small");
        ctx.sample(json!({"reduction_case": {"Ha": "N-1 (Ha mod (N-1) = 0 -> result 1)", "Ha2": hex::encode(ha_bytes(&((&qmax - 1u32) * &nm1 + &pr.n - 2u32)))}}));
    } else {
        ctx.class("ha_all_ff");
    }

    // --- H1 / H2 through the hook wrappers
    let n = ctx.n(600, 30_000);
    let mut prng = ctx.prng("h12");
    for i in 0..n {
        let idl = match i % 10 {
            0 => 0,
            1 => 300,
            // beyond the 2^16-bit / 2^16-byte thresholds of length fields and counters
            2 if i % 40 == 2 => [8185usize, 8186, 8191, 8192, 8193, 20000, 65536, 70001][((i / 40) % 8) as usize],
            _ => prng.range(1, 80),
        };
        let id = prng.bytes(idl);
        let hid = [1u8, 2, 3, 0, 0xff][(i % 5) as usize];
        let wl = if i % 40 == 22 { [8185usize, 8192, 65536, 70001, (1 << 21) - 400, 1 << 21, (1 << 24) + 1][((i / 40) % 7) as usize] } else { prng.range(0, 400) };
        let w = prng.bytes(wl);
        if !ctx.mine(i) {
            continue;
        }
        if idl == 0 {
            ctx.class("id_empty");
        }
        if idl == 300 {
            ctx.class("id_long");
        }
        if idl >= 8185 {
            ctx.class("id_beyond_2^16_bits");
        }
        ctx.eval();
        ctx.class("h1");
        ctx.distinct("h1", &[&id, &[hid]]);
        let e = r9::h1(&id, hid);
        match guard(|| hk::hash1(&id, hid)) {
            Outcome::Ret(v) if r9::from_limbs(&v) == e => {}
            o => ctx.violation(&format!("H1:{}", if o.is_ret() { "wrong-value" } else { o.class() }), json!({"id": hx(&id), "hid": hid, "expected": hex::encode(r9::b32(&e))})),
        }
        ctx.eval();
        ctx.class("h2");
        ctx.distinct("h2", &[&id, &w]);
        let e = r9::h2(&id, &w);
        match guard(|| hk::hash2(&id, &w)) {
            Outcome::Ret(v) if r9::from_limbs(&v) == e => {}
            o => ctx.violation(&format!("H2:{}", if o.is_ret() { "wrong-value" } else { o.class() }), json!({"msg": hx(&id), "w": hx(&w), "expected": hex::encode(r9::b32(&e))})),
        }
    }

    // --- one identity through every hid and through all three extractions under two master keys, consecutively
    let n = ctx.n(24, 600);
    let mut prng = ctx.prng("consecutive");
    for i in 0..n {
        let sub = prng.next();
        if !ctx.mine(i) {
            continue;
        }
        let mut p = Prng::new(sub, "c");
        let idl = p.range(0, 20);
        let id = p.bytes(idl);
        for hid in [1u8, 2, 3, 2, 1] {
            ctx.eval();
            ctx.class("h1_same_id_all_hids");
            let e = r9::h1(&id, hid);
            match guard(|| hk::hash1(&id, hid)) {
                Outcome::Ret(v) if r9::from_limbs(&v) == e => {}
                o => ctx.violation(&format!("H1:same-id-consecutive-hids:{}", if o.is_ret() { "wrong-value" } else { o.class() }), json!({"id": hx(&id), "hid": hid})),
            }
        }
        let (k1, k2) = (scalar_for(&mut p, 100), scalar_for(&mut p, 100));
        for (k, hid) in [(&k1, 1u8), (&k1, 3), (&k1, 2), (&k2, 2), (&k2, 3), (&k2, 1), (&k1, 1)] {
            extract_case(ctx, k, &id, hid, "consecutive_same_id");
        }
    }
    // --- consecutive H1 / H2 calls on inputs of one length that differ in a single byte, at every position class:
    // first byte, middle, byte 63 / 64 / 65, last byte (a memo keyed on a prefix, a suffix or the length alone)
    {
        let n = ctx.n(16, 200);
        let mut pp = ctx.prng("near_identical_ids");
        for i in 0..n {
            let sub = pp.next();
            if !ctx.mine(i) {
                continue;
            }
            let mut p = Prng::new(sub, "n");
            let len = [66usize, 70, 100, 129, 200, 33, 65, 300][(i % 8) as usize];
            let base = p.bytes(len);
            let hid = [1u8, 2, 3][(i % 3) as usize];
            let mut pos: Vec<usize> = vec![0, len / 2, len - 1, len - 2];
            for q in [31usize, 32, 63, 64, 65] {
                if q < len {
                    pos.push(q);
                }
            }
            let mut prev = base.clone();
            for q in pos {
                let mut id = base.clone();
                id[q] ^= 0x01 + (q as u8 & 0x3e);
                for (which, m) in [("prev", &prev), ("new", &id), ("base", &base)] {
                    ctx.eval();
                    ctx.class("h1_near_identical_ids_consecutive");
                    let e = r9::h1(m, hid);
                    match guard(|| hk::hash1(m, hid)) {
                        Outcome::Ret(v) if r9::from_limbs(&v) == e => {}
                        o => ctx.violation(&format!("H1:near-identical-ids-consecutive:{}", if o.is_ret() { "wrong-value" } else { o.class() }), json!({"id": hx(m), "hid": hid, "differs_at": q, "which": which})),
                    }
                    ctx.eval();
                    let w = [0x5au8; 40];
                    let e2 = r9::h2(m, &w);
                    match guard(|| hk::hash2(m, &w)) {
                        Outcome::Ret(v) if r9::from_limbs(&v) == e2 => {}
                        o => ctx.violation(&format!("H2:near-identical-messages-consecutive:{}", if o.is_ret() { "wrong-value" } else { o.class() }), json!({"msg": hx(m), "differs_at": q, "which": which})),
                    }
                }
                prev = id;
            }
        }
    }
    // --- extractions
    if ctx.shard == 0 {
        // Annex keys
        ctx.class("annex_keys");
        let ks = r9::hexn("000130E78459D78545CB54C587E02CF480CE0B66340F319F348A1D5B1F2DC5F4");
        extract_case(ctx, &ks, b"Alice", 1, "annex");
        let ds = r9::extract_sign_key(&ks, b"Alice").unwrap();
        ctx.selftest("GM/T 0044.5 ds_A.x", hex::encode_upper(r9::b32(&ds.0)) == "A5702F05CF1315305E2D6EB64B0DEB923DB1A0BCF0CAFF90523AC8754AA69820");
        let ke = r9::hexn("0001EDEE3778F441F8DEA3D9FA0ACC4E07EE36C93F9A08618AF4AD85CEDE1C22");
        extract_case(ctx, &ke, b"Bob", 3, "annex");
        let de = r9::extract_enc_key(&ke, b"Bob", 3).unwrap();
        ctx.selftest("GM/T 0044.5 de_B.x1", hex::encode_upper(r9::b32(&(de.0).1)) == "94736ACD2C8C8796CC4785E938301A139A059D3537B6414140B2D31EECF41683");
        let kx = r9::hexn("0002E65B0762D042F51F0D23542B13ED8CFA2E9A0E7206361E013A283905E31F");
        extract_case(ctx, &kx, b"Alice", 2, "annex");
        extract_case(ctx, &kx, b"Bob", 2, "annex");
    }
    // --- master key crafted so that the 256-bit sum H1 + k (before reduction) stands in every limb-wise comparison
    // pattern against N: equal upper limbs, then below / above in the lower ones
    {
        let mut pl = ctx.prng("ladder_t1");
        let reps = ctx.n(1, 12);
        let mut li = 0u64;
        for _ in 0..reps {
            let idl = pl.range(1, 20);
            let id = pl.bytes(idl);
            for (pat, s) in ladder_values(&pr.n, &mut pl) {
                li += 1;
                if !ctx.mine(li) {
                    continue;
                }
                let hid = [1u8, 3, 2][(li % 3) as usize];
                let h = r9::h1(&id, hid);
                // k = s - H1 must be a legal master key in [1, N-1]
                if s <= h || &s - &h >= pr.n {
                    continue;
                }
                let k = &s - &h;
                ctx.class("t1_limb_ladder");
                ctx.class(&format!("t1_ladder:{}", pat));
                extract_case(ctx, &k, &id, hid, "t1_limb_ladder");
            }
        }
    }
    // --- identities containing NUL bytes, trailing blanks or newlines, non-UTF-8 bytes (hashed exactly as given)
    {
        let mut pl = ctx.prng("nul_ids");
        for (k, id) in [b"Bob\0".to_vec(), b"\0Bob".to_vec(), b"Bo\0b".to_vec(), vec![0u8], vec![0u8; 4], b"Bob\0\0".to_vec(), b"Bob ".to_vec(), b" Bob".to_vec(), b"Bob\n".to_vec(), vec![0xffu8, 0xfe, 0x80], b"Alice\x01".to_vec(), b"Alice\x02".to_vec(), b"Alice\x03".to_vec(), vec![1u8], vec![3u8]].iter().enumerate() {
            let kk = scalar_for(&mut pl, 100);
            if !ctx.mine(k as u64) {
                continue;
            }
            for hid in [1u8, 2, 3] {
                ctx.class("id_with_nul_bytes");
                extract_case(ctx, &kk, id, hid, "id_with_nul_bytes");
            }
        }
    }
    // --- master keys solved so that t1 = H1 + ks is a boundary value (1, 2, N-1, N-2, N-3, (N+-1)/2), and so that the
    // 256-bit sum H1 + ks before reduction is exactly 2^256 - 1, 2^256, 2^256 + 1
    {
        let mut pl = ctx.prng("t1_boundary");
        let two256: BigUint = BigUint::one() << 256;
        let t1s: Vec<BigUint> = vec![BigUint::one(), BigUint::from(2u32), &pr.n - 1u32, &pr.n - 2u32, &pr.n - 3u32, (&pr.n - 1u32) >> 1, (&pr.n + 1u32) >> 1];
        let mut bi = 0u64;
        for rep in 0..ctx.n(2, 20) {
            for (ti, t1) in t1s.iter().enumerate() {
                bi += 1;
                let idl = pl.range(1, 12);
                let id = pl.bytes(idl);
                if !ctx.mine(bi) {
                    continue;
                }
                let hid = [1u8, 3, 2][((ti as u64 + rep) % 3) as usize];
                let k = (t1 + &pr.n - r9::h1(&id, hid)) % &pr.n;
                if k.is_zero() {
                    continue;
                }
                ctx.class("t1_boundary_value");
                extract_case(ctx, &k, &id, hid, "t1_boundary_value");
            }
            for delta in 0..3u32 {
                bi += 1;
                // needs H1 > 2^256 - N + delta: search an identity (about one in 3.5)
                let mut found = None;
                for c in 0..200u32 {
                    let id = format!("sum-at-2^256-{}-{}-{}", rep, delta, c).into_bytes();
                    let hid = [1u8, 3, 2][(c % 3) as usize];
                    let h = r9::h1(&id, hid);
                    let target = &two256 - 1u32 + delta;
                    if target > h && &target - &h < pr.n {
                        found = Some((id, hid, &target - &h));
                        break;
                    }
                }
                if !ctx.mine(bi) {
                    continue;
                }
                if let Some((id, hid, k)) = found {
                    ctx.class("t1_sum_at_2^256");
                    extract_case(ctx, &k, &id, hid, "t1_sum_at_2^256");
                }
            }
        }
    }
    // --- the largest legal master key N-1 (and N-2) for all three extractions
    if ctx.mine(4) {
        for k in [&pr.n - 1u32, &pr.n - 2u32] {
            for hid in [1u8, 2, 3] {
                ctx.class("master_key=N-1");
                extract_case(ctx, &k, b"Alice", hid, "master_key=N-1");
                extract_case(ctx, &k, b"", hid, "master_key=N-1");
            }
        }
    }
    // --- extraction for identities beyond 8 KiB
    {
        let mut pl = ctx.prng("long_id");
        for (li, idl) in [8185usize, 8186, 8192, 20000, 70001].iter().enumerate() {
            let id = pl.bytes(*idl);
            let k = scalar_for(&mut pl, 100);
            if !ctx.mine(li as u64) {
                continue;
            }
            for hid in [1u8, 2, 3] {
                ctx.class("extract_id_beyond_2^16_bits");
                extract_case(ctx, &k, &id, hid, "id_beyond_2^16_bits");
            }
        }
    }
    // --- master key crafted so that the extracted scalar t2 = ks (H1 + ks)^-1 is N - j or j for small j: the fixed-base
    // multiplication recodes scalars near the group order into digits whose partial sums meet table points again
    {
        let mut pl = ctx.prng("t2_near_N");
        let jmax = ctx.n(160, 600);
        for j in 1..=jmax {
            let idl = pl.range(1, 12);
            let id = pl.bytes(idl);
            if !ctx.mine(j) {
                continue;
            }
            for hid in [1u8, if j % 2 == 0 { 2 } else { 3 }] {
            let h = r9::h1(&id, hid);
            for t2 in [&pr.n - BigUint::from(j), BigUint::from(j + 1)] {
                // t2 (H1 + ks) = ks  =>  ks = t2 H1 / (1 - t2)
                let one_minus = (&pr.n + 1u32 - &t2) % &pr.n;
                let Some(inv) = one_minus.modinv(&pr.n) else { continue };
                let k = (&t2 * &h % &pr.n) * inv % &pr.n;
                if k.is_zero() || r9::extract_scalar(&k, &id, hid) != Some(t2.clone()) {
                    continue;
                }
                ctx.class("t2_near_group_order");
                extract_case(ctx, &k, &id, hid, "t2_near_group_order");
            }
            }
        }
    }
    // --- master key solved so that the extracted scalar t2 is (j+1) * 2^(7i): the signing-key extraction then reads exactly
    // one entry of the fixed-base table of P1 (37 x 64 entries)
    {
        let mut pl = ctx.prng("t2_table");
        let mut ti = 0u64;
        for i in 0..37usize {
            for j in 0..64u64 {
                ti += 1;
                let idl = pl.range(1, 10);
                let id = pl.bytes(idl);
                if !ctx.mine(ti) {
                    continue;
                }
                let t2 = BigUint::from(j + 1) << (7 * i);
                if t2 >= pr.n || t2.is_one() {
                    continue;
                }
                let h = r9::h1(&id, 1);
                let one_minus = (&pr.n + 1u32 - &t2) % &pr.n;
                let Some(inv) = one_minus.modinv(&pr.n) else { continue };
                let k = (&t2 * &h % &pr.n) * inv % &pr.n;
                if k.is_zero() || r9::extract_scalar(&k, &id, 1) != Some(t2.clone()) {
                    continue;
                }
                ctx.class("t2_table_scalar");
                extract_case(ctx, &k, &id, 1, "t2_table_scalar");
            }
        }
        ctx.exhaustive("extracted scalar t2 = (j+1)*2^(7i) for all 37 x 64 table positions (signing keys)", true);
    }
    // --- every identity length 0..=200 (H1 input lengths take every residue modulo the hash block size) and every
    // message length 0..=200 for H2 with a fixed 384-byte w
    {
        let mut pl = ctx.prng("len_sweep");
        let w = pl.bytes(384);
        for len in 0..=200usize {
            let v = pl.bytes(len);
            if !ctx.mine(len as u64) {
                continue;
            }
            ctx.eval();
            ctx.class("h1_h2_length_sweep");
            for hid in [1u8, 2, 3] {
                match guard(|| hk::hash1(&v, hid)) {
                    Outcome::Ret(x) if r9::from_limbs(&x) == r9::h1(&v, hid) => {}
                    o => ctx.violation(&format!("H1:length_sweep:{}", if o.is_ret() { "wrong-value" } else { o.class() }), json!({"id_len": len, "hid": hid})),
                }
            }
            match guard(|| hk::hash2(&v, &w)) {
                Outcome::Ret(x) if r9::from_limbs(&x) == r9::h2(&v, &w) => {}
                o => ctx.violation(&format!("H2:length_sweep:{}", if o.is_ret() { "wrong-value" } else { o.class() }), json!({"msg_len": len})),
            }
        }
        ctx.exhaustive("H1 identity lengths and H2 message lengths 0..=200", true);
    }
    // --- master key crafted so that the 256-bit addition H1 + k ripples a carry through limbs that are all ones
    // (in the sum, or in k itself) or zero
    {
        let mut pl = ctx.prng("carry_t1");
        let reps = ctx.n(2, 24);
        let mut li = 0u64;
        for _ in 0..reps {
            let idl = pl.range(1, 20);
            let id = pl.bytes(idl);
            for i in 1..4usize {
                for run in 1..=(4 - i) {
                    for mode in 0..3u8 {
                        li += 1;
                        let sub = pl.next();
                        if !ctx.mine(li) {
                            continue;
                        }
                        let mut q = Prng::new(sub, "cc");
                        let hid = [1u8, 3, 2][(li % 3) as usize];
                        let hl = r9::to_limbs(&r9::h1(&id, hid));
                        let Some(kk) = (0..i).rev().find(|&k| hl[k] != 0) else { continue };
                        let mut v = q.limbs();
                        for j in (kk + 1)..i {
                            v[j] = !hl[j];
                        }
                        for j in i..(i + run) {
                            v[j] = match mode {
                                0 => !hl[j],
                                1 => u64::MAX,
                                _ => 0,
                            };
                        }
                        v[kk] = 0u64.wrapping_sub(hl[kk]).wrapping_add(q.below(hl[kk]));
                        if i + run <= 3 {
                            v[3] %= 0xB640_0000_02A3_A6F1;
                        }
                        let k = r9::from_limbs(&v);
                        if k.is_zero() || k >= pr.n {
                            continue;
                        }
                        ctx.class("t1_carry_chain");
                        extract_case(ctx, &k, &id, hid, "t1_carry_chain");
                    }
                }
            }
        }
    }
    let n = ctx.n(300, 10_000);
    let mut prng = ctx.prng("extract");
    for i in 0..n {
        let sub = prng.next();
        if !ctx.mine(i) {
            continue;
        }
        let mut p = Prng::new(sub, "x");
        let idl = if i % 11 == 0 { 0 } else { p.range(1, 100) };
        let id = p.bytes(idl);
        let hid = [1u8, 3, 2][(i % 3) as usize];
        let k = match i % 5 {
            // master key crafted so that H1 + k = 0 mod N: extraction must report failure
            0 => (&pr.n - r9::h1(&id, hid)) % &pr.n,
            1 => (&pr.n - r9::h1(&id, hid) + 1u32) % &pr.n,
            2 => (&pr.n + &pr.n - r9::h1(&id, hid) - 1u32) % &pr.n,
            _ => scalar_for(&mut p, i % 28),
        };
        if k.is_zero() {
            continue;
        }
        let cls = match i % 5 {
            0 => "t1=0",
            1 | 2 => "next_to_t1=0",
            _ => "regular",
        };
        extract_case(ctx, &k, &id, hid, cls);
        if i % 60 == 0 {
            ctx.sample(json!({"extract_case": {"k": hex::encode(r9::b32(&k)), "id": hx(&id), "hid": hid, "class": cls}}));
        }
    }
}

fn extract_case(ctx: &mut Ctx, k: &BigUint, id: &[u8], hid: u8, cls: &str) {
    ctx.eval();
    ctx.distinct("extract", &[&r9::b32(k), id, &[hid]]);
    let expect_scalar = r9::extract_scalar(k, id, hid);
    if expect_scalar.is_none() {
        ctx.class("extract_fails_when_t1=0");
    } else if cls == "next_to_t1=0" {
        ctx.class("extract_ok_next_to_failure");
    }
    let w = json!({"k": hex::encode(r9::b32(k)), "id": hx(id), "hid": hid, "class": cls});
    match hid {
        1 => {
            ctx.class("extract_sign");
            let mk = sign_master(k);
            let o = guard(|| mk.extract_key(id));
            let e = expect_scalar.as_ref().and_then(|t| r9::g1_mul(t, &r9::g1_gen()));
            match (o, e) {
                (Outcome::Ret(None), None) => {}
                (Outcome::Ret(Some(key)), Some(e)) => {
                    if r9::ref_g1(&key.ds) != Some(e.clone()) {
                        ctx.violation(&format!("extract_key(sign):{}:wrong-key", cls), json!({"case": w, "expected": g1_hex(&e)}));
                    }
                }
                (Outcome::Ret(Some(_)), None) => ctx.violation("extract_key(sign):t1=0:returned-key", w),
                (Outcome::Ret(None), Some(_)) => ctx.violation(&format!("extract_key(sign):{}:returned-none", cls), w),
                (o, _) => ctx.violation(&format!("extract_key(sign):{}:{}", cls, o.class()), w),
            }
        }
        _ => {
            ctx.class(if hid == 3 { "extract_enc" } else { "extract_exch" });
            let mk = enc_master(k);
            let o = if hid == 3 { guard(|| mk.extract_key(id)) } else { guard(|| mk.extract_exch_key(id)) };
            let e = expect_scalar.as_ref().and_then(|t| r9::g2_mul(t, &r9::g2_gen()));
            let name = if hid == 3 { "extract_key(enc)" } else { "extract_exch_key" };
            match (o, e) {
                (Outcome::Ret(None), None) => {}
                (Outcome::Ret(Some(key)), Some(e)) => {
                    if r9::ref_g2(&key.de) != Some(e) {
                        ctx.violation(&format!("{}:{}:wrong-key", name, cls), w);
                    }
                }
                (Outcome::Ret(Some(_)), None) => ctx.violation(&format!("{}:t1=0:returned-key", name), w),
                (Outcome::Ret(None), Some(_)) => ctx.violation(&format!("{}:{}:returned-none", name, cls), w),
                (o, _) => ctx.violation(&format!("{}:{}:{}", name, cls, o.class()), w),
            }
        }
    }
}
