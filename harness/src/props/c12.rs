//! C12 — SM9 pairing is the bilinear, non-degenerate R-ate pairing of GM/T 0044.1.
use crate::mon::{guard, Ctx, Outcome, Prng};
use crate::refs::sm9 as r9;
use crate::sm9x::*;
use gm_sm9::fields::FieldElement;
use gm_sm9::verif_hooks as hk;
use num_bigint::BigUint;
use num_traits::One;
use serde_json::json;

fn scalar_choice(p: &mut Prng, i: u64) -> BigUint {
    let n = &r9::params().n;
    match i % 9 {
        7 => sparse_scalar(p, 1 + (i / 9) % 14),
        8 => crate::sm2x::run_scalar(p, n),
        0 => BigUint::one(),
        1 => BigUint::from(2u32),
        2 => BigUint::from(3u32),
        3 => n - 2u32,
        4 => n - 1u32,
        _ => rand_scalar(p, n),
    }
}

fn lam1(p: &mut Prng, i: u64) -> BigUint {
    match i % 3 {
        0 => BigUint::one(),
        1 => BigUint::from(2u32),
        _ => rand_scalar(p, &r9::params().p),
    }
}

fn lam2(p: &mut Prng, i: u64) -> r9::F2 {
    let pp = &r9::params().p;
    match i % 4 {
        0 => (BigUint::one(), BigUint::from(0u32)),
        1 => (BigUint::from(0u32), BigUint::one()), // Z = u
        2 => (rand_scalar(p, pp), BigUint::from(0u32)),
        _ => (rand_scalar(p, pp), rand_scalar(p, pp)),
    }
}

pub fn run(ctx: &mut Ctx) {
    for (n, ok) in r9::selftest(ctx.shard == 0) {
        ctx.selftest(&n, ok);
    }
    ctx.require(&["annex_g", "exact_vs_reference", "input_Z_ne_1", "input_affine", "a=N-1", "b=N-1", "a=1", "bilinearity", "nondegenerate", "order_N", "g2_Z_in_Fp2", "infinity_input", "consecutive_negated_P", "consecutive_negated_Q", "crafted_stored_Z_limbs", "many_calls_one_process"]);
    let pr = r9::params();
    // --- Annex value of g = e(P1, Ppub-s): full 384 bytes against the reference, first coefficient against the standard
    if ctx.shard == 0 {
        let ks = r9::hexn("000130E78459D78545CB54C587E02CF480CE0B66340F319F348A1D5B1F2DC5F4");
        let ppubs = r9::g2_mul(&ks, &r9::g2_gen()).unwrap();
        ctx.eval();
        ctx.class("annex_g");
        match guard(|| hk::pairing(&lib_g2_affine(&ppubs), &hk::generator_p1()).to_bytes_be()) {
            Outcome::Ret(b) => {
                let e = r9::f12bytes(&r9::pairing(&pr.p1, &ppubs).unwrap());
                if b != e || hex::encode_upper(&b[..32]) != "4E378FB5561CD0668F906B731AC58FEE25738EDF09CADC7A29C0ABC0177AEA6D" {
                    ctx.violation("pairing:annex-g:differs-from-standard", json!({"expected": hex::encode(&e), "actual": hex::encode(&b)}));
                }
            }
            o => ctx.violation(&format!("pairing:annex-g:{}", o.class()), json!({})),
        }
        ctx.sample(json!({"annex": "g = e(P1, [ks]P2), ks = 000130E7..C5F4, first 32 bytes 4E378FB5..EA6D"}));
    }
    // --- exact comparison with the reference pairing
    let n = ctx.n(150, 5000);
    let mut prng = ctx.prng("exact");
    for i in 0..n {
        let sub = prng.next();
        if !ctx.mine(i) {
            continue;
        }
        let mut p = Prng::new(sub, "e");
        let a = scalar_choice(&mut p, i);
        let b = scalar_choice(&mut p, i / 9 + i);
        for (nm, v) in [("a", &a), ("b", &b)] {
            if v.is_one() {
                ctx.class(&format!("{}=1", nm));
            }
            if *v == &pr.n - 1u32 {
                ctx.class(&format!("{}=N-1", nm));
            }
        }
        let pa = r9::g1_mul(&a, &r9::g1_gen()).unwrap();
        let qa = r9::g2_mul(&b, &r9::g2_gen()).unwrap();
        let (l1, l2) = (lam1(&mut p, i), lam2(&mut p, i / 3));
        if l1.is_one() && l2 == (BigUint::one(), BigUint::from(0u32)) {
            ctx.class("input_affine");
        } else {
            ctx.class("input_Z_ne_1");
        }
        if l2.1 != BigUint::from(0u32) {
            ctx.class("g2_Z_in_Fp2");
        }
        let lp = r9::lib_g1(&pa, &l1);
        let lq = r9::lib_g2(&qa, &l2);
        ctx.eval();
        ctx.class("exact_vs_reference");
        ctx.distinct("pair", &[&r9::b32(&a), &r9::b32(&b), &r9::b32(&l1), &r9::b32(&l2.0), &r9::b32(&l2.1)]);
        let w = json!({"a": hex::encode(r9::b32(&a)), "b": hex::encode(r9::b32(&b)), "Z1": hex::encode(r9::b32(&l1)), "Z2": [hex::encode(r9::b32(&l2.0)), hex::encode(r9::b32(&l2.1))]});
        match guard(|| hk::pairing(&lq, &lp)) {
            Outcome::Ret(v) => {
                let e = r9::pairing(&pa, &qa).unwrap();
                let vb = v.to_bytes_be();
                if vb != r9::f12bytes(&e) {
                    ctx.violation("pairing:value-differs-from-reference", json!({"case": w, "expected": hex::encode(r9::f12bytes(&e)), "actual": hex::encode(&vb)}));
                } else if r9::ref_f12(&v) != e {
                    ctx.violation("pairing:encoding-order-differs", json!({"case": w}));
                }
            }
            o => ctx.violation(&format!("pairing:{}", o.class()), json!({"case": w, "outcome": format!("{:?}", o)})),
        }
        // immediately afterwards on related inputs: -P (same x), -Q (same x), swapped representations
        if i % 3 == 0 {
            let e = r9::pairing(&pa, &qa).unwrap();
            let einv = r9::f12inv(&e).unwrap();
            let np = r9::g1_neg(&Some(pa.clone())).unwrap();
            let nq = r9::g2_neg(&Some(qa.clone())).unwrap();
            // each call differs from the previous one in exactly one negation: (Q,P) was just evaluated
            let rel: Vec<(&str, gm_sm9::points::Point, gm_sm9::points::TwistPoint, &r9::F12)> = vec![
                ("consecutive_negated_Q", lp, r9::lib_g2(&nq, &l2), &einv),
                ("consecutive_both_negated", r9::lib_g1(&np, &l1), r9::lib_g2(&nq, &l2), &e),
                ("consecutive_negated_P", r9::lib_g1(&np, &l1), lq, &einv),
                ("consecutive_repeat", lp, lq, &e),
                ("consecutive_negated_Q_other_Z", lp, r9::lib_g2(&nq, &(BigUint::one(), BigUint::from(0u32))), &einv),
            ];
            for (cls, pp, qq, want) in rel {
                ctx.eval();
                ctx.class(cls);
                match guard(|| hk::pairing(&qq, &pp)) {
                    Outcome::Ret(v) if &r9::ref_f12(&v) == want => {}
                    o => ctx.violation(&format!("pairing:{}:{}", cls, if o.is_ret() { "value-differs-from-reference" } else { o.class() }), json!({"case": w})),
                }
            }
        }
        if i % 40 == 0 {
            ctx.sample(json!({"pairing_case": w}));
        }
    }
    // --- representatives whose STORED (Montgomery) Z limbs are boundary words: integer 1, unit limbs, Montgomery one with
    // a single limb moved by one (a comparison that skips a limb sees "Z = 1"), for G1, and for both components of G2's Z
    {
        let mont_one = r9::to_mont(&BigUint::one());
        let mut zs: Vec<[u64; 4]> = vec![[1, 0, 0, 0], [0, 1, 0, 0], [0, 0, 1, 0], [0, 0, 0, 1], [u64::MAX, 0, 0, 0], [u64::MAX, u64::MAX, 0, 0], [1, 1, 1, 1]];
        for j in 0..4 {
            for d in [1u64, u64::MAX, 0x100, 0u64.wrapping_sub(0x100)] {
                let mut a = mont_one;
                a[j] = a[j].wrapping_add(d);
                zs.push(a);
            }
        }
        zs.push(r9::to_limbs(&(&pr.p - 1u32)));
        let zs: Vec<[u64; 4]> = zs.into_iter().filter(|z| r9::from_limbs(z) < pr.p && r9::from_limbs(z) != BigUint::from(0u32)).collect();
        let mut pz = ctx.prng("craftedZ");
        for (idx, zl) in zs.iter().enumerate() {
            let sub = pz.next();
            if !ctx.mine(idx as u64) {
                continue;
            }
            let mut p = Prng::new(sub, "cz");
            let a = if idx % 2 == 0 { BigUint::one() } else { rand_scalar(&mut p, &pr.n) };
            let b = if idx % 3 == 0 { BigUint::one() } else { rand_scalar(&mut p, &pr.n) };
            let pa = r9::g1_mul(&a, &r9::g1_gen()).unwrap();
            let qa = r9::g2_mul(&b, &r9::g2_gen()).unwrap();
            let l = r9::from_mont(zl);
            let e = r9::f12bytes(&r9::pairing(&pa, &qa).unwrap());
            let zero = BigUint::from(0u32);
            let cases: Vec<(&str, gm_sm9::points::Point, gm_sm9::points::TwistPoint)> = vec![
                ("G1_Z", r9::lib_g1(&pa, &l), r9::lib_g2(&qa, &(BigUint::one(), zero.clone()))),
                ("G2_Z_real", r9::lib_g1(&pa, &BigUint::one()), r9::lib_g2(&qa, &(l.clone(), zero.clone()))),
                ("G2_Z_imag", r9::lib_g1(&pa, &BigUint::one()), r9::lib_g2(&qa, &(zero.clone(), l.clone()))),
                ("G2_Z_real_plus_u", r9::lib_g1(&pa, &BigUint::one()), r9::lib_g2(&qa, &(l.clone(), BigUint::one()))),
                ("G2_Z_one_plus_imag", r9::lib_g1(&pa, &BigUint::one()), r9::lib_g2(&qa, &(BigUint::one(), l.clone()))),
            ];
            for (nm, pp, qq) in cases {
                ctx.eval();
                ctx.class("crafted_stored_Z_limbs");
                ctx.distinct("craftedZ", &[nm.as_bytes(), &r9::b32(&r9::from_limbs(zl))]);
                let w = json!({"which": nm, "stored_Z_limbs_be": hex::encode(r9::b32(&r9::from_limbs(zl))), "a": hex::encode(r9::b32(&a)), "b": hex::encode(r9::b32(&b))});
                match guard(|| hk::pairing(&qq, &pp).to_bytes_be()) {
                    Outcome::Ret(v) if v == e => {}
                    o => ctx.violation(&format!("pairing:crafted_stored_Z_limbs:{}:{}", nm, if o.is_ret() { "value-differs-from-reference" } else { o.class() }), json!({"case": w})),
                }
            }
        }
    }
    // --- many calls in one process: the same pairing 300 times (call-count dependent faults)
    if ctx.shard == 0 {
        let mut pm = ctx.prng("many");
        let (a, b) = (rand_scalar(&mut pm, &pr.n), rand_scalar(&mut pm, &pr.n));
        let pa = r9::g1_mul(&a, &r9::g1_gen()).unwrap();
        let qa = r9::g2_mul(&b, &r9::g2_gen()).unwrap();
        let e = r9::f12bytes(&r9::pairing(&pa, &qa).unwrap());
        let (lp, lq) = (lib_g1_affine(&pa), lib_g2_affine(&qa));
        for i in 0..300u32 {
            ctx.eval();
            ctx.class("many_calls_one_process");
            match guard(|| hk::pairing(&lq, &lp).to_bytes_be()) {
                Outcome::Ret(v) if v == e => {}
                o => {
                    ctx.violation(&format!("pairing:call-number-dependent:{}", if o.is_ret() { "value-differs-from-reference" } else { o.class() }), json!({"call_number": i, "a": hex::encode(r9::b32(&a)), "b": hex::encode(r9::b32(&b))}));
                    break;
                }
            }
        }
    } else {
        ctx.class("many_calls_one_process");
    }
    // --- consecutive calls whose stored coordinates agree in X and Y (or in X only) while the points are opposite:
    // (X, Y, Z) and (X, Y, -Z) both represent valid points, P and -P. One argument is the generator in its stored form
    // (the argument that the protocols pass), the other varies; every value is compared with the reference.
    {
        let nrel = ctx.n(8, 200);
        let mut pc = ctx.prng("sameXY");
        let zero = BigUint::from(0u32);
        for i in 0..nrel {
            let sub = pc.next();
            if !ctx.mine(i) {
                continue;
            }
            let mut p = Prng::new(sub, "xy");
            let a = rand_scalar(&mut p, &pr.n);
            let l = if i % 2 == 0 { BigUint::one() } else { rand_scalar(&mut p, &pr.p) };
            let nl = &pr.p - &l;
            let pa = r9::g1_mul(&a, &r9::g1_gen()).unwrap();
            let np = r9::g1_neg(&Some(pa.clone())).unwrap();
            let qa = r9::g2_mul(&a, &r9::g2_gen()).unwrap();
            let nq = r9::g2_neg(&Some(qa.clone())).unwrap();
            let e1 = r9::pairing(&pa, &r9::g2_gen().unwrap()).unwrap();
            let e1i = r9::f12inv(&e1).unwrap();
            let e2 = r9::pairing(&r9::g1_gen().unwrap(), &qa).unwrap();
            let e2i = r9::f12inv(&e2).unwrap();
            let (g1l, g2l) = (hk::generator_p1(), hk::generator_p2());
            let l2 = (l.clone(), zero.clone());
            let nl2 = (nl.clone(), zero.clone());
            let seq: Vec<(&str, gm_sm9::points::Point, gm_sm9::points::TwistPoint, &r9::F12)> = vec![
                ("genQ:P", r9::lib_g1(&pa, &l), g2l, &e1),
                ("genQ:-P_same_XY_negated_Z", r9::lib_g1(&np, &nl), g2l, &e1i),
                ("genQ:P_again", r9::lib_g1(&pa, &l), g2l, &e1),
                ("genQ:-P_same_X_Z_negated_Y", r9::lib_g1(&np, &l), g2l, &e1i),
                ("genQ:P_negated_Y_negated_Z", r9::lib_g1(&pa, &nl), g2l, &e1),
                ("genP:Q", g1l, r9::lib_g2(&qa, &l2), &e2),
                ("genP:-Q_same_XY_negated_Z", g1l, r9::lib_g2(&nq, &nl2), &e2i),
                ("genP:Q_again", g1l, r9::lib_g2(&qa, &l2), &e2),
                ("genP:-Q_same_X_Z_negated_Y", g1l, r9::lib_g2(&nq, &l2), &e2i),
            ];
            for (cls, pp, qq, want) in seq {
                ctx.eval();
                ctx.class("consecutive_same_stored_XY");
                ctx.distinct("sameXY", &[cls.as_bytes(), &r9::b32(&a), &r9::b32(&l)]);
                match guard(|| hk::pairing(&qq, &pp)) {
                    Outcome::Ret(v) if &r9::ref_f12(&v) == want => {}
                    o => ctx.violation(&format!("pairing:consecutive_same_stored_XY:{}:{}", cls, if o.is_ret() { "value-differs-from-reference" } else { o.class() }), json!({"a": hex::encode(r9::b32(&a)), "Z": hex::encode(r9::b32(&l))})),
                }
            }
        }
    }
    // --- identities evaluated inside the library on many more pairs
    let n = ctx.n(300, 20000);
    let mut prng = ctx.prng("ident");
    let g0 = hk::pairing(&hk::generator_p2(), &hk::generator_p1());
    let g0b = g0.to_bytes_be();
    if ctx.shard == 0 {
        ctx.eval();
        ctx.class("nondegenerate");
        let one = r9::f12bytes(&r9::f12one());
        if g0b == one {
            ctx.violation("pairing:e(P1,P2)=1", json!({}));
        }
        // order N: g^(N-1) * g = 1 and g^k != 1 for the small prime-free check k = 1 (N is prime)
        ctx.eval();
        ctx.class("order_N");
        let nm1 = limbs(&(&pr.n - 1u32));
        match guard(|| hk::fp12_pow(&g0, &nm1).fp_mul(&g0).to_bytes_be()) {
            Outcome::Ret(b) if b == one => {}
            o => ctx.violation(&format!("pairing:g^N!=1:{}", o.class()), json!({})),
        }
        // the ends of the exponent range: g^0 = 1 = e([0]P, Q), g^1 = g
        ctx.eval();
        match guard(|| (hk::fp12_pow(&g0, &[0, 0, 0, 0]).to_bytes_be(), hk::fp12_pow(&g0, &[1, 0, 0, 0]).to_bytes_be())) {
            Outcome::Ret((z, o1)) if z == one && o1 == g0b => {}
            o => ctx.violation(&format!("pairing:g^0!=1_or_g^1!=g:{}", o.class()), json!({})),
        }
    }
    // points at infinity (scalars 0 and N): e(O, Q) = e(P, O) = 1
    if ctx.shard == 0 {
        let one = r9::f12bytes(&r9::f12one());
        let nl = limbs(&pr.n);
        let cases: Vec<(&str, gm_sm9::points::Point, gm_sm9::points::TwistPoint)> = vec![
            ("P=O_canonical", gm_sm9::points::Point::zero(), hk::generator_p2()),
            ("P=[N]P1", hk::generator_p1().point_mul(&nl), hk::generator_p2()),
            ("Q=O_canonical", hk::generator_p1(), gm_sm9::points::TwistPoint::zero()),
            ("Q=[N]P2", hk::generator_p1(), hk::generator_p2().point_mul(&nl)),
            ("P=O,Q=O", gm_sm9::points::Point::zero(), gm_sm9::points::TwistPoint::zero()),
        ];
        for (nm, pp, qq) in cases {
            ctx.eval();
            ctx.class("infinity_input");
            ctx.distinct("inf", &[nm.as_bytes()]);
            match guard(|| hk::pairing(&qq, &pp).to_bytes_be()) {
                Outcome::Ret(b) if b == one => {}
                o => ctx.violation(&format!("pairing:{}:not-1", nm), json!({"case": nm, "outcome": match &o { Outcome::Ret(b) => hex::encode(&b[..32]), o => o.class().to_string() }})),
            }
        }
    }
    for i in 0..n {
        let sub = prng.next();
        if !ctx.mine(i) {
            continue;
        }
        let mut p = Prng::new(sub, "i");
        let a = scalar_choice(&mut p, i + 5);
        let b = scalar_choice(&mut p, i / 2);
        let ab = (&a * &b) % &pr.n;
        ctx.eval();
        ctx.class("bilinearity");
        ctx.distinct("bil", &[&r9::b32(&a), &r9::b32(&b)]);
        let (la, lb, lab) = (limbs(&a), limbs(&b), limbs(&ab));
        // points produced by the library's own multiplications (Z != 1)
        let o = guard(|| {
            let pp = hk::generator_p1().point_mul(&la);
            let qq = hk::generator_p2().point_mul(&lb);
            hk::pairing(&qq, &pp).to_bytes_be()
        });
        let e = guard(|| hk::fp12_pow(&g0, &lab).to_bytes_be());
        match (o, e) {
            (Outcome::Ret(x), Outcome::Ret(y)) => {
                if x != y {
                    ctx.violation("pairing:bilinearity:e([a]P1,[b]P2)!=e(P1,P2)^(ab)", json!({"a": hex::encode(r9::b32(&a)), "b": hex::encode(r9::b32(&b))}));
                }
            }
            (o, _) => ctx.violation(&format!("pairing:bilinearity:{}", o.class()), json!({"a": hex::encode(r9::b32(&a)), "b": hex::encode(r9::b32(&b))})),
        }
    }
}
