//! C05 — SM2 public-key encryption round-trips and conforms to GB/T 32918.4; KDF conformance.
use crate::corpus;
use crate::mon::{guard, hx, Ctx, Outcome, Prng};
use crate::refs::sm2::{self as r2, Order};
use crate::refs::sm3 as r3;
use crate::sm2x::*;
use gm_sm2::key::Sm2Model;
use num_bigint::BigUint;
use serde_json::json;

pub fn model(o: Order) -> Sm2Model {
    match o {
        Order::C1C2C3 => Sm2Model::C1C2C3,
        Order::C1C3C2 => Sm2Model::C1C3C2,
    }
}

pub fn layout_name(o: Order, compressed: bool) -> &'static str {
    match (o, compressed) {
        (Order::C1C2C3, false) => "c1c2c3_uncompressed",
        (Order::C1C2C3, true) => "c1c2c3_compressed",
        (Order::C1C3C2, false) => "c1c3c2_uncompressed",
        (Order::C1C3C2, true) => "c1c3c2_compressed",
    }
}

pub const LAYOUTS: [(Order, bool); 4] = [(Order::C1C2C3, false), (Order::C1C2C3, true), (Order::C1C3C2, false), (Order::C1C3C2, true)];

fn oc<T, E>(o: &Outcome<Result<T, E>>) -> &'static str {
    match o {
        Outcome::Ret(Ok(_)) => "ok",
        Outcome::Ret(Err(_)) => "err",
        Outcome::Panic(_) => "panic",
        Outcome::StepLimit(_) => "steplimit",
    }
}

fn wit(d: &BigUint, msg: &[u8], k: Option<&BigUint>, lay: (Order, bool)) -> serde_json::Value {
    json!({"d": hex::encode(r2::b32(d)), "msg": hx(msg), "msg_len": msg.len(), "k": k.map(|k| hex::encode(r2::b32(k))), "layout": layout_name(lay.0, lay.1)})
}

/// library decrypts `ct` to `msg`
fn expect_decrypt(ctx: &mut Ctx, d: &BigUint, ct: &[u8], msg: &[u8], lay: (Order, bool), cls: &str) {
    let how = (ct.len() as u64) % 3;
    let mut pp = Prng::new(how + 3, "prov");
    let Some((_, sk)) = lib_keys(d, how, &mut pp) else { return };
    ctx.eval();
    ctx.class(cls);
    match guard(|| sk.decrypt(ct, lay.1, model(lay.0))) {
        Outcome::Ret(Ok(m)) if m == msg => {}
        o => {
            let got = if let Outcome::Ret(Ok(m)) = &o { hx(m) } else { String::new() };
            ctx.violation(&format!("decrypt:{}:{}:{}", cls, layout_name(lay.0, lay.1), if got.is_empty() { oc(&o) } else { "wrong-plaintext" }), json!({"case": wit(d, msg, None, lay), "ct": hx(ct), "got": got, "outcome": format!("{:?}", o.class())}));
        }
    }
}

fn enc_case(ctx: &mut Ctx, d: &BigUint, msg: &[u8], k: Option<&BigUint>, lay: (Order, bool), cls: &str) {
    let pk = r2::mul(d, &r2::g()).unwrap();
    // key objects by provenance (constructor / gen_keypair / Jacobian public point), rotating with the message length
    // (not reduced modulo 3: the larger values select the crafted-Z variants of the Jacobian provenance)
    let how = msg.len() as u64 + lay.1 as u64;
    ctx.class(provenance(how));
    let mut pp = Prng::new(how % 3 + msg.len() as u64, "prov");
    let Some((lpk, _)) = lib_keys(d, how, &mut pp) else {
        ctx.violation("Sm2PublicKey::new:valid-point:not-ok", json!({"pk": hex::encode(r2::encode(&pk, false))}));
        return;
    };
    ctx.eval();
    ctx.class(cls);
    ctx.class(layout_name(lay.0, lay.1));
    ctx.class(&format!("klen_mod32={:02}", msg.len() % 32));
    match k {
        Some(k) => rng_prepare(&[k]),
        None => rng_prepare(&[]),
    }
    let o = guard(|| lpk.encrypt(msg, lay.1, model(lay.0)));
    let seen = rng_seen();
    let ct = match o {
        Outcome::Ret(Ok(ct)) => ct,
        o => {
            ctx.violation(&format!("encrypt:{}:{}:{}", cls, layout_name(lay.0, lay.1), oc(&o)), json!({"case": wit(d, msg, k, lay), "outcome": format!("{:?}", o.class())}));
            return;
        }
    };
    ctx.distinct("enc", &[&ct]);
    let l1 = if lay.1 { 33 } else { 65 };
    if ct.len() != l1 + 32 + msg.len() {
        ctx.violation(&format!("encrypt:{}:{}:ciphertext-length", cls, layout_name(lay.0, lay.1)), json!({"case": wit(d, msg, k, lay), "len": ct.len()}));
        return;
    }
    // scalar actually used = last accepted draw; C1 must be [k]G for it
    let used = seen.accepted.last().cloned();
    let mut k = k.cloned();
    if let Some(kk) = k.clone() {
        let refct = r2::encrypt(&pk, msg, &kk, lay.0, lay.1);
        match refct {
            Some(e) => {
                if used.as_ref() == Some(&kk) && seen.pending == 0 {
                    ctx.class("fixed_k_exact");
                    if e != ct {
                        let part = if e[..l1] != ct[..l1] { "C1" } else { "C2/C3" };
                        ctx.violation(&format!("encrypt:{}:{}:ciphertext-differs-from-standard:{}", cls, layout_name(lay.0, lay.1), part), json!({"case": wit(d, msg, Some(&kk), lay), "expected": hx(&e), "actual": hx(&ct)}));
                        return;
                    }
                } else {
                    ctx.violation(&format!("encrypt:{}:injected-valid-k-not-used", cls), json!({"case": wit(d, msg, Some(&kk), lay)}));
                }
            }
            None => {
                // the standard's retry condition (KDF output all zero, probability 2^-8|M|): the injected k must
                // have been drawn and then abandoned for a fresh one, which is judged like a free k below
                ctx.class("ref_retry_condition");
                if seen.accepted.first() != Some(&kk) || used.as_ref() == Some(&kk) {
                    ctx.violation(&format!("encrypt:{}:all-zero-KDF-output-not-retried", cls), json!({"case": wit(d, msg, Some(&kk), lay), "ct": hx(&ct)}));
                    return;
                }
                k = None;
            }
        }
    }
    if k.is_some() {
    } else {
        ctx.class("free_k");
        match used {
            Some(kk) => {
                let c1 = r2::mul(&kk, &r2::g()).unwrap();
                if r2::encode(&c1, lay.1) != ct[..l1] {
                    ctx.violation(&format!("encrypt:{}:C1!=[k]G-for-drawn-k", cls), json!({"case": wit(d, msg, Some(&kk), lay), "ct": hx(&ct)}));
                }
            }
            None => ctx.violation(&format!("encrypt:{}:no-scalar-drawn", cls), json!({"case": wit(d, msg, None, lay)})),
        }
        // independent decryptor recovers M
        match r2::decrypt(d, &ct, lay.0, lay.1) {
            Some(m) if m == msg => {}
            _ => ctx.violation(&format!("encrypt:{}:{}:reference-decryptor-rejects", cls, layout_name(lay.0, lay.1)), json!({"case": wit(d, msg, None, lay), "ct": hx(&ct)})),
        }
    }
    // library round trip
    expect_decrypt(ctx, d, &ct, msg, lay, "roundtrip");
}

pub fn run(ctx: &mut Ctx) {
    for (n, ok) in r2::selftest() {
        ctx.selftest(&n, ok);
    }
    for (n, ok) in r3::selftest() {
        ctx.selftest(&n, ok);
    }
    ctx.require(&["annex_kat", "len_sweep", "fixed_k_exact", "free_k", "roundtrip", "ref_made_decrypts", "openssl_made_decrypts", "all_zero_msg", "leading_zero_msg", "long_msg", "kdf_counter_beyond_16_bits", "kdf", "kdf_klen_mod32=00", "c1c2c3_uncompressed", "c1c2c3_compressed", "c1c3c2_uncompressed", "c1c3c2_compressed", "klen_mod32=00", "key_from_constructor", "key_from_gen_keypair", "key_with_jacobian_public_point", "crafted_recipient_key", "crafted_c1_decrypts", "many_calls_one_process", "shared_point_coordinate_leading_zero", "recipient_key_with_crafted_stored_Z"]);
    let c = r2::curve();

    // --- Annex example
    if ctx.shard == 0 {
        let d = r2::hexn("3945208F7B2144B13F36E38AC6D39F95889393692860B51A42FB81EF4DF7C5B8");
        let k = r2::hexn("59276E27D506861A16680F3AD9C02DCCEF3CC1FA3CDBE4CE6D54B80DEAC1BC21");
        for lay in LAYOUTS {
            enc_case(ctx, &d, b"encryption standard", Some(&k), lay, "annex_kat");
        }
        ctx.sample(json!({"annex": {"msg": "encryption standard", "C1.x": "04EBFC71..9A73", "C3": "59983C18..8766", "C2": "21886CA9..1EFA"}}));
    }

    // --- recipient key objects whose Jacobian Z has boundary words as STORED limbs (sm2x::lib_keys, provenance values
    // 12 v + 5 select the five variants): exact ciphertext for an injected k, and the round trip
    {
        let mut pz = ctx.prng("crafted_z_keys");
        for v in 0..5u64 {
            for rep in 0..ctx.n(2, 12) {
                let sub = pz.next();
                if !ctx.mine(v * 16 + rep) {
                    continue;
                }
                let mut q = Prng::new(sub, "cz");
                let d = rand_scalar(&mut q, &(&c.n - 1u32));
                let k = rand_scalar(&mut q, &c.n);
                let mlen = 1 + q.below(40) as usize;
                let msg = q.bytes(mlen);
                let lay = LAYOUTS[q.below(4) as usize];
                let pk = r2::mul(&d, &r2::g()).unwrap();
                let Some((lpk, _)) = lib_keys(&d, 12 * v + 5, &mut q) else { continue };
                ctx.eval();
                ctx.class("recipient_key_with_crafted_stored_Z");
                rng_prepare(&[&k]);
                let o = guard(|| lpk.encrypt(&msg, lay.1, model(lay.0)));
                let seen = rng_seen();
                let w = json!({"d": hex::encode(r2::b32(&d)), "k": hex::encode(r2::b32(&k)), "msg": hx(&msg), "layout": layout_name(lay.0, lay.1), "Z_variant": v});
                match (o, r2::encrypt(&pk, &msg, &k, lay.0, lay.1)) {
                    (Outcome::Ret(Ok(ct)), Some(e)) if seen.accepted.last() == Some(&k) => {
                        if ct != e {
                            ctx.violation("encrypt:recipient_key_with_crafted_stored_Z:ciphertext-differs-from-standard", json!({"case": w, "expected": hx(&e), "actual": hx(&ct)}));
                        }
                    }
                    (Outcome::Ret(Ok(_)), _) => {}
                    (o, _) => ctx.violation(&format!("encrypt:recipient_key_with_crafted_stored_Z:{}", oc(&o)), w),
                }
            }
        }
    }
    // --- nonces searched (by the reference) so that a coordinate of the SHARED point [k]P begins with a zero byte (1 in 128):
    // x2 and y2 enter the KDF and C3 as fixed 32-byte strings, a conversion that drops leading zeros is wrong only here
    {
        let mut ps = ctx.prng("shared_zero");
        for which in 0..4u64 {
            let sub = ps.next();
            if !ctx.mine(which + 2) {
                continue;
            }
            let mut q = Prng::new(sub, "sz");
            let d = rand_scalar(&mut q, &(&c.n - 1u32));
            let pk = r2::mul(&d, &r2::g()).unwrap();
            let mut found = None;
            for _ in 0..4000 {
                let k = rand_scalar(&mut q, &c.n);
                let sh = r2::mul(&k, &Some(pk.clone())).unwrap();
                let (xb, yb) = (r2::b32(&sh.0), r2::b32(&sh.1));
                if (which % 2 == 0 && xb[0] == 0) || (which % 2 == 1 && yb[0] == 0) {
                    found = Some(k);
                    break;
                }
            }
            let Some(k) = found else { continue };
            let msg = q.bytes(24);
            ctx.class("shared_point_coordinate_leading_zero");
            enc_case(ctx, &d, &msg, Some(&k), LAYOUTS[which as usize], "shared_point_coordinate_leading_zero");
            if let Some(ct) = r2::encrypt(&pk, &msg, &k, LAYOUTS[which as usize].0, LAYOUTS[which as usize].1) {
                expect_decrypt(ctx, &d, &ct, &msg, LAYOUTS[which as usize], "ref_made_decrypts");
            }
        }
    }
    // --- points crafted so that an addition of the on-curve test lands on a carry / reduction boundary (see
    // sm2x::crafted_points): as the RECIPIENT's public key (exact ciphertext for an injected k) and as the C1 of a
    // reference-made ciphertext (must decrypt)
    {
        let mut pc = ctx.prng("crafted_pts");
        let reps = ctx.n(1, 8);
        for _ in 0..reps {
            let sub = pc.next();
            let mut q = Prng::new(sub, "cp");
            for (name, pt) in crafted_points_sharded(&mut q, 1, ctx.shard as u64, ctx.nshards as u64) {
                let lay = LAYOUTS[q.below(4) as usize];
                let mlen = 1 + q.below(80) as usize;
                let msg = q.bytes(mlen);
                let k = rand_scalar(&mut q, &c.n);
                let w = json!({"class": format!("crafted:{}", name), "point": hex::encode(r2::encode(&pt, false)), "msg": hx(&msg), "k": hex::encode(r2::b32(&k)), "layout": layout_name(lay.0, lay.1)});
                ctx.eval();
                ctx.class("crafted_recipient_key");
                ctx.distinct("crafted_pk", &[&r2::b32(&pt.0), &msg]);
                match lib_pk(&pt) {
                    None => ctx.violation("Sm2PublicKey::new:crafted-valid-point:not-ok", w.clone()),
                    Some(lpk) => {
                        rng_prepare(&[&k]);
                        let o = guard(|| lpk.encrypt(&msg, lay.1, model(lay.0)));
                        let seen = rng_seen();
                        match (o, r2::encrypt(&pt, &msg, &k, lay.0, lay.1)) {
                            (Outcome::Ret(Ok(ct)), Some(e)) if seen.accepted.last() == Some(&k) => {
                                if ct != e {
                                    ctx.violation("encrypt:crafted_recipient_key:ciphertext-differs-from-standard", json!({"case": w, "expected": hx(&e), "actual": hx(&ct)}));
                                }
                            }
                            (Outcome::Ret(Ok(_)), _) => ctx.class("ref_retry_condition"),
                            (o, _) => ctx.violation(&format!("encrypt:crafted_recipient_key:{}", oc(&o)), w.clone()),
                        }
                    }
                }
                // as C1 of a ciphertext for a known private key
                let d = rand_scalar(&mut q, &(&c.n - 1u32));
                if let Some((c2, c3)) = r2::craft_for_point(&d, &pt, &msg) {
                    if c2 != msg {
                        let mut ct = r2::encode(&pt, lay.1);
                        match lay.0 {
                            Order::C1C2C3 => {
                                ct.extend_from_slice(&c2);
                                ct.extend_from_slice(&c3);
                            }
                            Order::C1C3C2 => {
                                ct.extend_from_slice(&c3);
                                ct.extend_from_slice(&c2);
                            }
                        }
                        if r2::decrypt(&d, &ct, lay.0, lay.1).as_deref() == Some(&msg[..]) {
                            expect_decrypt(ctx, &d, &ct, &msg, lay, "crafted_c1_decrypts");
                        } else {
                            ctx.violation("harness:crafted-c1-ciphertext-rejected-by-reference", w.clone());
                        }
                    }
                }
            }
        }
    }

    // --- many calls in one process (call-count dependent faults): 300 encryptions with injected k and decryptions, one key
    if ctx.shard == 0 {
        let mut pm = ctx.prng("many");
        let d = rand_scalar(&mut pm, &(&c.n - 1u32));
        for i in 0..300u64 {
            let k = rand_scalar(&mut pm, &c.n);
            let msg = pm.bytes(20);
            ctx.class("many_calls_one_process");
            let before = ctx.violations.len();
            enc_case(ctx, &d, &msg, Some(&k), LAYOUTS[(i % 4) as usize], "many_calls");
            if ctx.violations.len() != before {
                break;
            }
        }
    } else {
        ctx.class("many_calls_one_process");
    }

    // --- opposite recipient keys d and n - d (P and -P share x and z) used alternately on one thread
    {
        let no = ctx.n(4, 64);
        let mut po = ctx.prng("opposite_keys");
        for i in 0..no {
            let sub = po.next();
            if !ctx.mine(i) {
                continue;
            }
            let mut p = Prng::new(sub, "o");
            let d = rand_scalar(&mut p, &(&c.n - 2u32));
            let dn = &c.n - &d;
            if d == BigUint::from(0u32) || dn >= &c.n - 1u32 {
                continue;
            }
            for step in 0..4u64 {
                let k = rand_scalar(&mut p, &c.n);
                // same length and layout within a history: both key objects then have the same provenance (same stored Z)
                let msg = p.bytes(12 + (i % 3) as usize);
                ctx.class("opposite_recipient_keys_consecutive");
                enc_case(ctx, if step % 2 == 0 { &d } else { &dn }, &msg, Some(&k), LAYOUTS[(i % 4) as usize], "opposite_recipient_keys_consecutive");
            }
        }
    }

    // --- every message length 1..=300, rotating layouts; fixed and free k
    let reps = ctx.n(1, 30);
    let mut prng = ctx.prng("sweep");
    let mut idx = 0u64;
    for rep in 0..reps {
        for len in 1..=300usize {
            for lay_i in 0..4usize {
                idx += 1;
                let sub = prng.next();
                // quick: each length in two layouts (one fixed-k, one free-k); thorough: all four, many reps
                if !ctx.thorough && (lay_i + len) % 2 != 0 {
                    continue;
                }
                if !ctx.mine(idx) {
                    continue;
                }
                let mut p = Prng::new(sub, "c");
                let d = key_for(&mut p, (idx % 50) as u64);
                let msg = match (len + rep as usize) % 11 {
                    0 => {
                        ctx.class("all_zero_msg");
                        vec![0u8; len]
                    }
                    1 => {
                        ctx.class("leading_zero_msg");
                        let mut m = p.bytes(len);
                        let z = (len / 2).max(1);
                        for b in m[..z].iter_mut() {
                            *b = 0;
                        }
                        m
                    }
                    _ => p.bytes(len),
                };
                let k = match idx % 13 {
                    0 => BigUint::from(1 + idx % 3),
                    1 => &c.n - 1u32 - BigUint::from(idx % 2),
                    2 | 3 => sparse_scalar(&mut p, 1 + (idx / 13) % 14),
                    4 => run_scalar(&mut p, &c.n),
                    _ => rand_scalar(&mut p, &c.n),
                };
                let lay = LAYOUTS[lay_i];
                if (lay_i / 2 + len + rep as usize) % 2 == 0 {
                    enc_case(ctx, &d, &msg, Some(&k), lay, "len_sweep");
                } else {
                    enc_case(ctx, &d, &msg, None, lay, "len_sweep");
                }
                if rep == 0 && len == 77 {
                    ctx.sample(json!({"encrypt": wit(&d, &msg, Some(&k), lay)}));
                }
            }
        }
    }
    ctx.exhaustive("message lengths 1..=300", true);

    // --- longer messages up to 2^16
    let n = ctx.n(24, 600);
    let mut prng = ctx.prng("long");
    for i in 0..n {
        let sub = prng.next();
        if !ctx.mine(i) {
            continue;
        }
        let mut p = Prng::new(sub, "l");
        let d = rand_scalar(&mut p, &(&c.n - 1u32));
        // 2^21 + 100 bytes needs more than 65 536 KDF blocks (counter beyond 16 bits); 8 161 crosses 255 blocks
        let len = match i % 12 {
            0 => 65536,
            6 => (1 << 21) + 100,
            9 => (1 << 24) + 1,
            3 => 8161,
            _ => p.range(301, 20000),
        };
        if len > (1 << 21) {
            ctx.class("kdf_counter_beyond_16_bits");
        }
        let msg = p.bytes(len);
        let k = rand_scalar(&mut p, &c.n);
        ctx.class("long_msg");
        enc_case(ctx, &d, &msg, if i % 2 == 0 { Some(&k) } else { None }, LAYOUTS[(i % 4) as usize], "long");
    }

    // --- reference-made ciphertexts must decrypt in the library
    let n = ctx.n(200, 8000);
    let mut prng = ctx.prng("refmade");
    for i in 0..n {
        let sub = prng.next();
        if !ctx.mine(i) {
            continue;
        }
        let mut p = Prng::new(sub, "r");
        let d = key_for(&mut p, i % 60);
        let pk = r2::mul(&d, &r2::g()).unwrap();
        let len = p.range(1, 200);
        let msg = p.bytes(len);
        let k = rand_scalar(&mut p, &c.n);
        let lay = LAYOUTS[(i % 4) as usize];
        if let Some(ct) = r2::encrypt(&pk, &msg, &k, lay.0, lay.1) {
            ctx.distinct("refmade", &[&ct]);
            expect_decrypt(ctx, &d, &ct, &msg, lay, "ref_made_decrypts");
        }
    }

    // --- OpenSSL-made ciphertexts (DER re-framed by the harness into the raw layouts)
    let cs = corpus::load("sm2_openssl.json");
    for (i, v) in cs["ciphertexts"].as_array().unwrap().iter().enumerate() {
        if !ctx.mine(i as u64) {
            continue;
        }
        let d = r2::from_b(&corpus::hexf(v, "d"));
        let msg = corpus::hexf(v, "msg");
        let x = r2::from_b(&corpus::hexf(v, "c1x"));
        let y = r2::from_b(&corpus::hexf(v, "c1y"));
        let (c3, c2) = (corpus::hexf(v, "c3"), corpus::hexf(v, "c2"));
        for lay in LAYOUTS {
            let mut ct = r2::encode(&(x.clone(), y.clone()), lay.1);
            match lay.0 {
                Order::C1C2C3 => {
                    ct.extend_from_slice(&c2);
                    ct.extend_from_slice(&c3);
                }
                Order::C1C3C2 => {
                    ct.extend_from_slice(&c3);
                    ct.extend_from_slice(&c2);
                }
            }
            ctx.selftest("reference decryptor accepts the OpenSSL-made ciphertexts", r2::decrypt(&d, &ct, lay.0, lay.1).as_deref() == Some(&msg[..]));
            ctx.distinct("ossl", &[&ct]);
            expect_decrypt(ctx, &d, &ct, &msg, lay, "openssl_made_decrypts");
        }
    }

    // --- KDF purity: one z through many klen consecutively, then one klen through many z
    if ctx.shard == 0 {
        let mut pk = ctx.prng("kdf-consecutive");
        let z = pk.bytes(64);
        for klen in [1usize, 32, 31, 64, 33, 32, 1, 96, 95, 32] {
            ctx.eval();
            ctx.class("kdf_same_z_consecutive");
            let e = r3::kdf(&z, klen);
            match guard(|| gm_sm2::util::kdf(&z, klen)) {
                Outcome::Ret(v) if v == e => {}
                o => ctx.violation(&format!("kdf:same-z-consecutive:{}", if o.is_ret() { "wrong-bytes" } else { o.class() }), json!({"z": hx(&z), "klen": klen})),
            }
        }
        for _ in 0..10 {
            let z2 = pk.bytes(64);
            ctx.eval();
            let e = r3::kdf(&z2, 32);
            match guard(|| gm_sm2::util::kdf(&z2, 32)) {
                Outcome::Ret(v) if v == e => {}
                o => ctx.violation(&format!("kdf:same-klen-consecutive:{}", if o.is_ret() { "wrong-bytes" } else { o.class() }), json!({"z": hx(&z2)})),
            }
        }
    }
    // --- KDF with block counters beyond 8 and 16 bits
    if ctx.shard == ctx.nshards - 1 {
        let mut pk = ctx.prng("kdf-big");
        for klen in [8160usize, 8161, 8192, 65536 * 32 - 1, 65536 * 32, 65536 * 32 + 33] {
            let z = pk.bytes(64);
            ctx.eval();
            ctx.class("kdf_big_klen");
            let e = r3::kdf(&z, klen);
            match guard(|| gm_sm2::util::kdf(&z, klen)) {
                Outcome::Ret(v) if v == e => {}
                o => ctx.violation(&format!("kdf:big-klen:{}", if o.is_ret() { "wrong-bytes" } else { o.class() }), json!({"z": hx(&z), "klen": klen})),
            }
        }
    }
    // --- KDF: every klen 1..=1100 for several |z|
    let mut prng = ctx.prng("kdf");
    idx = 0;
    for zlen in [0usize, 1, 31, 32, 55, 56, 64, 65, 100] {
        for klen in 1..=1100usize {
            idx += 1;
            if !ctx.thorough && !(zlen == 64 || klen % 9 == (zlen % 9)) {
                continue;
            }
            let z = prng.bytes(zlen);
            if !ctx.mine(idx) {
                continue;
            }
            ctx.eval();
            ctx.class("kdf");
            ctx.class(&format!("kdf_klen_mod32={:02}", klen % 32));
            ctx.distinct("kdf", &[&z, &(klen as u32).to_be_bytes()]);
            let e = r3::kdf(&z, klen);
            match guard(|| gm_sm2::util::kdf(&z, klen)) {
                Outcome::Ret(v) if v == e => {}
                Outcome::Ret(v) => ctx.violation(&format!("kdf:klen_mod32={}:{}", klen % 32, if v.len() != klen { "wrong-length" } else { "wrong-bytes" }), json!({"z": hx(&z), "klen": klen, "got_len": v.len(), "expected": hx(&e), "actual": hx(&v)})),
                o => ctx.violation(&format!("kdf:klen_mod32={}:{}", klen % 32, o.class()), json!({"z": hx(&z), "klen": klen})),
            }
        }
    }
}
