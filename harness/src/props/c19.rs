//! C19 — Keys, points and ciphertexts survive encoding, and decoders validate.
use crate::corpus;
use crate::mon::{guard, hx, Ctx, Outcome, Prng};
use crate::props::c05::model;
use crate::refs::der;
use crate::refs::sm2::{self as r2, Order};
use crate::sm2x::*;
use gm_sm2::key::{Sm2PrivateKey, Sm2PublicKey};
use num_bigint::BigUint;
use num_traits::{One, Zero};
use pkcs8::{DecodePrivateKey, DecodePublicKey, EncodePrivateKey, EncodePublicKey, LineEnding};
use serde_json::json;
use std::str::FromStr;

fn same_pk(lpk: &Sm2PublicKey, pt: &(BigUint, BigUint)) -> bool {
    r2::from_lib_point(&lpk.point) == Some(pt.clone())
}

fn oc<T, E>(o: &Outcome<Result<T, E>>) -> &'static str {
    match o {
        Outcome::Ret(Ok(_)) => "ok",
        Outcome::Ret(Err(_)) => "err",
        Outcome::Panic(_) => "panic",
        Outcome::StepLimit(_) => "steplimit",
    }
}

fn key_roundtrips(ctx: &mut Ctx, d: &BigUint, cls: &str) {
    let pt = r2::mul(d, &r2::g()).unwrap();
    let w = json!({"d": hex::encode(r2::b32(d)), "class": cls});
    ctx.class(cls);
    ctx.distinct("key", &[&r2::b32(d)]);
    pub_roundtrips(ctx, &pt, &w);
    key_roundtrips_private(ctx, d, &pt, &w);
}

/// every public-key format for one valid point (the private key need not be known)
fn pub_roundtrips(ctx: &mut Ctx, pt: &(BigUint, BigUint), w: &serde_json::Value) {
    let pt = pt.clone();
    let w = w.clone();
    if r2::b32(&pt.0)[0] == 0 || r2::b32(&pt.1)[0] == 0 {
        ctx.class("pub_coordinate_leading_zero_byte");
    }
    ctx.class(if pt.1.bit(0) { "y_odd" } else { "y_even" });
    // ---- public key: SEC1 compressed / uncompressed
    for compressed in [false, true] {
        let enc = r2::encode(&pt, compressed);
        ctx.eval();
        ctx.class("pub_sec1");
        match guard(|| Sm2PublicKey::new(&enc)) {
            Outcome::Ret(Ok(k)) => {
                if !same_pk(&k, &pt) {
                    ctx.violation(&format!("Sm2PublicKey::new:{}:decodes-to-other-point", if compressed { "compressed" } else { "uncompressed" }), json!({"case": w, "bytes": hex::encode(&enc)}));
                    continue;
                }
                for c2 in [false, true] {
                    ctx.eval();
                    if guard(|| k.to_bytes(c2)).is_ret() && k.to_bytes(c2) != r2::encode(&pt, c2) {
                        ctx.violation("Sm2PublicKey::to_bytes:wrong-encoding", json!({"case": w}));
                    }
                    // hex form
                    ctx.eval();
                    ctx.class("pub_hex");
                    let hs = k.to_hex_string(c2);
                    if hs != hex::encode(r2::encode(&pt, c2)) {
                        ctx.violation("Sm2PublicKey::to_hex_string:wrong", json!({"case": w}));
                    }
                    match guard(|| Sm2PublicKey::from_hex_string(&hs)) {
                        Outcome::Ret(Ok(k2)) if same_pk(&k2, &pt) => {}
                        o => ctx.violation(&format!("Sm2PublicKey::from_hex_string:valid:{}", oc(&o)), json!({"case": w, "hex": hs})),
                    }
                }
                // SPKI DER / PEM
                ctx.eval();
                ctx.class("pub_spki");
                match guard(|| k.to_public_key_der()) {
                    Outcome::Ret(Ok(doc)) => {
                        let want = der::spki_encode(&r2::encode(&pt, false));
                        if doc.as_bytes() != want {
                            ctx.violation("to_public_key_der:differs-from-standard-SPKI", json!({"case": w, "expected": hex::encode(&want), "actual": hex::encode(doc.as_bytes())}));
                        }
                        match guard(|| Sm2PublicKey::from_public_key_der(doc.as_bytes())) {
                            Outcome::Ret(Ok(k2)) if same_pk(&k2, &pt) => {}
                            o => ctx.violation(&format!("from_public_key_der:own-document:{}", oc(&o)), json!({"case": w})),
                        }
                    }
                    o => ctx.violation(&format!("to_public_key_der:{}", oc(&o)), json!({"case": w})),
                }
                ctx.eval();
                match guard(|| k.to_public_key_pem(LineEnding::LF)) {
                    Outcome::Ret(Ok(pem)) => {
                        let a = guard(|| Sm2PublicKey::from_public_key_pem(&pem));
                        let b = guard(|| Sm2PublicKey::from_str(&pem));
                        for (nm, o) in [("from_public_key_pem", a), ("FromStr", b)] {
                            match o {
                                Outcome::Ret(Ok(k2)) if same_pk(&k2, &pt) => {}
                                o => ctx.violation(&format!("{}:own-document:{}", nm, oc(&o)), json!({"case": w})),
                            }
                        }
                    }
                    o => ctx.violation(&format!("to_public_key_pem:{}", oc(&o)), json!({"case": w})),
                }
            }
            o => ctx.violation(&format!("Sm2PublicKey::new:valid-{}:{}", if compressed { "compressed" } else { "uncompressed" }, oc(&o)), json!({"case": w, "bytes": hex::encode(&enc)})),
        }
    }
    // ---- an SPKI whose BIT STRING declares 1..7 unused bits has the wrong bit length: every decoder must refuse it
    {
        let good = der::spki_encode(&r2::encode(&pt, false));
        // the unused-bits octet is the first content octet of the BIT STRING, 65 bytes before the end
        let pos = good.len() - 66;
        for unused in [1u8, 3, 7] {
            let mut bad = good.clone();
            if bad[pos] != 0 {
                break;
            }
            bad[pos] = unused;
            ctx.eval();
            ctx.class("spki_unused_bits");
            match guard(|| Sm2PublicKey::from_public_key_der(&bad)) {
                Outcome::Ret(Err(_)) => {}
                o => ctx.violation(&format!("from_public_key_der:unused-bits!=0:{}", oc(&o)), json!({"case": w, "unused_bits": unused})),
            }
        }
    }
    // ---- reference-built SPKI document decodes
    ctx.eval();
    let spki = der::spki_encode(&r2::encode(&pt, false));
    match guard(|| Sm2PublicKey::from_public_key_der(&spki)) {
        Outcome::Ret(Ok(k2)) if same_pk(&k2, &pt) => {}
        o => ctx.violation(&format!("from_public_key_der:reference-document:{}", oc(&o)), json!({"case": w})),
    }
}

fn key_roundtrips_private(ctx: &mut Ctx, d: &BigUint, pt: &(BigUint, BigUint), w: &serde_json::Value) {
    let pt = pt.clone();
    let w = w.clone();
    // ---- encoders on key objects of every provenance (derived keys carry a Jacobian point with Z != 1)
    let mut pp = Prng::new(d.bits() ^ 0x77, "prov");
    for how in 0..3u64 {
        let Some((kobj, skobj)) = lib_keys(d, how, &mut pp) else {
            ctx.violation(&format!("key-object:{}:not-constructible", provenance(how)), w.clone());
            continue;
        };
        ctx.class(provenance(how));
        for (nm, k) in [("public_key", kobj), ("sk.public_key", skobj.public_key), ("sk.to_public_key()", skobj.to_public_key())] {
            for c2 in [false, true] {
                ctx.eval();
                let want = r2::encode(&pt, c2);
                match guard(|| k.to_bytes(c2)) {
                    Outcome::Ret(b) if b == want => {}
                    o => ctx.violation(&format!("to_bytes({}):{}:{}", if c2 { "compressed" } else { "uncompressed" }, provenance(how), if o.is_ret() { "wrong-encoding" } else { o.class() }), json!({"case": w, "object": nm, "expected": hex::encode(&want)})),
                }
                ctx.eval();
                match guard(|| k.to_hex_string(c2)) {
                    Outcome::Ret(h) if h == hex::encode(&want) => {}
                    o => ctx.violation(&format!("to_hex_string:{}:{}", provenance(how), if o.is_ret() { "wrong-encoding" } else { o.class() }), json!({"case": w, "object": nm})),
                }
            }
            ctx.eval();
            match guard(|| k.to_public_key_der()) {
                Outcome::Ret(Ok(doc)) if doc.as_bytes() == der::spki_encode(&r2::encode(&pt, false)) => {}
                o => ctx.violation(&format!("to_public_key_der:{}:{}", provenance(how), oc(&o)), json!({"case": w, "object": nm})),
            }
        }
        ctx.eval();
        match guard(|| skobj.to_pkcs8_der()) {
            Outcome::Ret(Ok(doc)) => {
                let okd = matches!(der::pkcs8_decode(doc.as_bytes()), Some((dd, pubb)) if dd == r2::b32(d) && pubb.as_deref().map(|p| r2::decode(p)) == Some(Some(pt.clone())));
                if !okd {
                    ctx.violation(&format!("to_pkcs8_der:{}:document-carries-other-key", provenance(how)), w.clone());
                }
            }
            o => ctx.violation(&format!("to_pkcs8_der:{}:{}", provenance(how), oc(&o)), w.clone()),
        }
    }
    // ---- private key
    ctx.eval();
    ctx.class("priv_bytes");
    match guard(|| Sm2PrivateKey::new(&r2::b32(d))) {
        Outcome::Ret(Ok(sk)) => {
            if r2::from_limbs(&sk.d) != *d || !same_pk(&sk.public_key, &pt) || sk.to_bytes_be() != r2::b32(d) {
                ctx.violation("Sm2PrivateKey::new:wrong-key", json!({"case": w}));
            }
            ctx.eval();
            ctx.class("priv_hex");
            let hs = sk.to_hex_string();
            match guard(|| Sm2PrivateKey::from_hex_string(&hs)) {
                Outcome::Ret(Ok(s2)) if s2.d == sk.d && hs == hex::encode(r2::b32(d)) => {}
                o => ctx.violation(&format!("Sm2PrivateKey::from_hex_string:valid:{}", oc(&o)), json!({"case": w})),
            }
            ctx.eval();
            ctx.class("priv_pkcs8");
            match guard(|| sk.to_pkcs8_der()) {
                Outcome::Ret(Ok(doc)) => {
                    match der::pkcs8_decode(doc.as_bytes()) {
                        Some((dd, pubb)) => {
                            if dd != r2::b32(d) || pubb.as_deref().map(|p| r2::decode(p)) != Some(Some(pt.clone())) {
                                ctx.violation("to_pkcs8_der:document-carries-other-key", json!({"case": w, "der": hex::encode(doc.as_bytes())}));
                            }
                        }
                        None => ctx.violation("to_pkcs8_der:not-a-PKCS#8-SM2-document", json!({"case": w, "der": hex::encode(doc.as_bytes())})),
                    }
                    match guard(|| Sm2PrivateKey::from_pkcs8_der(doc.as_bytes())) {
                        Outcome::Ret(Ok(s2)) if s2.d == sk.d && same_pk(&s2.public_key, &pt) => {}
                        o => ctx.violation(&format!("from_pkcs8_der:own-document:{}", oc(&o)), json!({"case": w})),
                    }
                }
                o => ctx.violation(&format!("to_pkcs8_der:{}", oc(&o)), json!({"case": w})),
            }
            ctx.eval();
            match guard(|| sk.to_pkcs8_pem(LineEnding::LF)) {
                Outcome::Ret(Ok(pem)) => match guard(|| Sm2PrivateKey::from_pkcs8_pem(&pem)) {
                    Outcome::Ret(Ok(s2)) if s2.d == sk.d => {}
                    o => ctx.violation(&format!("from_pkcs8_pem:own-document:{}", oc(&o)), json!({"case": w})),
                },
                o => ctx.violation(&format!("to_pkcs8_pem:{}", oc(&o)), json!({"case": w})),
            }
            ctx.eval();
            match guard(|| sk.to_sec1_der()) {
                Outcome::Ret(Ok(doc)) => {
                    if der::sec1_decode(&doc).map(|(dd, _)| dd) != Some(r2::b32(d).to_vec()) {
                        ctx.violation("to_sec1_der:document-carries-other-key", json!({"case": w}));
                    }
                }
                o => ctx.violation(&format!("to_sec1_der:{}", oc(&o)), json!({"case": w})),
            }
        }
        o => ctx.violation(&format!("Sm2PrivateKey::new:valid:{}", oc(&o)), json!({"case": w})),
    }
    // reference-built PKCS#8 (with and without the optional public key)
    for with_pub in [true, false] {
        ctx.eval();
        let enc = r2::encode(&pt, false);
        let doc = der::pkcs8_encode(&r2::b32(d), if with_pub { Some(&enc) } else { None });
        match guard(|| Sm2PrivateKey::from_pkcs8_der(&doc)) {
            Outcome::Ret(Ok(s2)) if r2::from_limbs(&s2.d) == *d && same_pk(&s2.public_key, &pt) => {}
            o => ctx.violation(&format!("from_pkcs8_der:reference-document:{}", oc(&o)), json!({"case": w, "with_public": with_pub})),
        }
    }
    // the embedded public key in COMPRESSED form (what `openssl pkey -ec_conv_form compressed` writes)
    {
        let doc = der::pkcs8_encode(&r2::b32(d), Some(&r2::encode(&pt, true)));
        ctx.eval();
        ctx.class("pkcs8_compressed_public_key");
        match guard(|| Sm2PrivateKey::from_pkcs8_der(&doc)) {
            Outcome::Ret(Ok(s2)) if r2::from_limbs(&s2.d) == *d && same_pk(&s2.public_key, &pt) => {}
            o => ctx.violation(&format!("from_pkcs8_der:compressed-embedded-public-key:{}", oc(&o)), json!({"case": w, "doc": hex::encode(&doc)})),
        }
    }
    // a PKCS#8 document whose optional public-key field holds ANOTHER valid point: the decoder may refuse it, or decode
    // the private key with its own public key [d]G; a key object that pairs d with the foreign point is not a key
    // (its signatures verify under neither point's owner)
    {
        let other = r2::mul(&((d + 1u32) % (&r2::curve().n - 1u32) + 1u32), &r2::g()).unwrap();
        let doc = der::pkcs8_encode(&r2::b32(d), Some(&r2::encode(&other, false)));
        ctx.eval();
        ctx.class("pkcs8_foreign_public_key");
        match guard(|| Sm2PrivateKey::from_pkcs8_der(&doc)) {
            Outcome::Ret(Err(_)) => ctx.class("pkcs8_foreign_public_key_refused"),
            Outcome::Ret(Ok(s2)) => {
                if r2::from_limbs(&s2.d) != *d || !same_pk(&s2.public_key, &pt) || !same_pk(&s2.to_public_key(), &pt) {
                    ctx.violation("from_pkcs8_der:foreign-public-key:inconsistent-key-object", json!({"case": w, "doc": hex::encode(&doc)}));
                }
            }
            o => ctx.violation(&format!("from_pkcs8_der:foreign-public-key:{}", oc(&o)), json!({"case": w})),
        }
    }
}

fn asn1_case(ctx: &mut Ctx, d: &BigUint, msg: &[u8], k: &BigUint, compressed: bool, order: Order, cls: &str) {
    let pk = r2::mul(d, &r2::g()).unwrap();
    let (Some(lpk), Some(sk)) = (lib_pk(&pk), lib_sk(d)) else { return };
    let w = json!({"d": hex::encode(r2::b32(d)), "k": hex::encode(r2::b32(k)), "msg": hx(msg), "compressed_flag": compressed, "model": format!("{:?}", order), "class": cls});
    ctx.eval();
    ctx.class(cls);
    ctx.class("asn1_encrypt");
    ctx.distinct("asn1", &[&r2::b32(d), &r2::b32(k), msg, &[compressed as u8, order as u8]]);
    rng_prepare(&[k]);
    let o = guard(|| lpk.encrypt_asn1(msg, compressed, model(order)));
    let seen = rng_seen();
    let doc = match o {
        Outcome::Ret(Ok(v)) => v,
        o => {
            ctx.violation(&format!("encrypt_asn1:{}:{}", cls, oc(&o)), w);
            return;
        }
    };
    // reference components for this k (None = the standard's all-zero-KDF retry condition: nothing to compare)
    let Some(raw) = r2::encrypt(&pk, msg, k, Order::C1C3C2, false) else {
        ctx.class("ref_retry_condition");
        return;
    };
    if seen.accepted.last() != Some(k) {
        ctx.violation("encrypt_asn1:injected-valid-k-not-used", w);
        return;
    }
    let (x, y, c3, c2) = (&raw[1..33], &raw[33..65], &raw[65..97], &raw[97..]);
    let want = der::sm2cipher_encode(x, y, c3, c2);
    if doc != want {
        let sym = match der::sm2cipher_decode(&doc) {
            None => "not-an-SM2Cipher-SEQUENCE",
            Some(p) => {
                if r2::from_b(&p.x) != r2::from_b(x) {
                    "x-is-not-C1.x"
                } else if r2::from_b(&p.y) != r2::from_b(y) {
                    "y-is-not-C1.y"
                } else if p.c3 != c3 {
                    "hash-is-not-C3"
                } else if p.c2 != c2 {
                    "ciphertext-is-not-C2"
                } else {
                    "non-canonical-DER"
                }
            }
        };
        ctx.violation(&format!("encrypt_asn1:{}", sym), json!({"case": w, "expected": hx(&want), "actual": hx(&doc)}));
    }
    // round trip through the library
    ctx.eval();
    ctx.class("asn1_decrypt");
    match guard(|| sk.decrypt_asn1(&doc, compressed, model(order))) {
        Outcome::Ret(Ok(m)) if m == msg => {}
        o => ctx.violation(&format!("decrypt_asn1:own-document:{}:{}", cls, if let Outcome::Ret(Ok(_)) = &o { "wrong-plaintext" } else { oc(&o) }), json!({"case": w})),
    }
    // the standard document must decrypt as well
    ctx.eval();
    match guard(|| sk.decrypt_asn1(&want, compressed, model(order))) {
        Outcome::Ret(Ok(m)) if m == msg => {}
        o => ctx.violation(&format!("decrypt_asn1:standard-document:{}:{}", cls, if let Outcome::Ret(Ok(_)) = &o { "wrong-plaintext" } else { oc(&o) }), json!({"case": w, "doc": hx(&want)})),
    }
}

fn must_reject_pub(ctx: &mut Ctx, bytes: &[u8], cls: &str) {
    ctx.class(cls);
    ctx.distinct(cls, &[bytes]);
    let w = json!({"bytes": hx(bytes), "len": bytes.len(), "class": cls});
    ctx.eval();
    match guard(|| Sm2PublicKey::new(bytes)) {
        Outcome::Ret(Err(_)) => {}
        o => ctx.violation(&format!("Sm2PublicKey::new:{}:{}", cls, oc(&o)), w.clone()),
    }
    ctx.eval();
    let hs = hex::encode(bytes);
    match guard(|| Sm2PublicKey::from_hex_string(&hs)) {
        Outcome::Ret(Err(_)) => {}
        o => ctx.violation(&format!("Sm2PublicKey::from_hex_string:{}:{}", cls, oc(&o)), w.clone()),
    }
    ctx.eval();
    let spki = der::spki_encode(bytes);
    match guard(|| Sm2PublicKey::from_public_key_der(&spki)) {
        Outcome::Ret(Err(_)) => {}
        o => ctx.violation(&format!("from_public_key_der:{}:{}", cls, oc(&o)), w.clone()),
    }
    ctx.eval();
    let pem = der::pem("PUBLIC KEY", &spki);
    match guard(|| Sm2PublicKey::from_str(&pem)) {
        Outcome::Ret(Err(_)) => {}
        o => ctx.violation(&format!("FromStr(pem):{}:{}", cls, oc(&o)), w),
    }
}

pub fn run(ctx: &mut Ctx) {
    for (n, ok) in r2::selftest() {
        ctx.selftest(&n, ok);
    }
    ctx.require(&["edge_key", "random_key", "pub_coordinate_leading_zero_byte", "y_odd", "y_even", "pub_sec1", "pub_hex", "pub_spki", "priv_bytes", "priv_hex", "priv_pkcs8", "openssl_pkcs8", "openssl_spki", "openssl_sm2cipher", "asn1_encrypt", "asn1_decrypt", "asn1_zero_coord", "asn1_top_bit_set", "asn1_top_bit_clear", "reject_offcurve", "reject_coordinate_ge_p", "reject_coordinate_eq_p", "reject_wrong_length", "reject_wrong_pc_byte", "reject_priv_wrong_length", "key_from_gen_keypair", "key_with_jacobian_public_point", "crafted_pub_point", "pkcs8_foreign_public_key", "pub_point_with_zero_x", "pkcs8_compressed_public_key", "spki_unused_bits", "asn1_zero_coord_short_msg"]);
    let c = r2::curve();
    // ---- key round trips
    let n = ctx.n(150, 6000);
    let mut prng = ctx.prng("keys");
    for i in 0..n {
        let sub = prng.next();
        if !ctx.mine(i) {
            continue;
        }
        let mut p = Prng::new(sub, "k");
        let ne = edge_keys().len() as u64;
        let d = key_for(&mut p, i % (ne + 40));
        key_roundtrips(ctx, &d, if i % (ne + 40) < ne { "edge_key" } else { "random_key" });
        if i % 50 == 0 {
            ctx.sample(json!({"key_roundtrip": {"d": hex::encode(r2::b32(&d))}, "forms": "SEC1 compressed/uncompressed, hex, SPKI DER/PEM, FromStr, bytes, PKCS#8 DER/PEM, SEC1 DER"}));
        }
    }
    // ---- public keys crafted so that an addition of the decoder's on-curve test lands on a carry / reduction boundary
    {
        let mut pc = ctx.prng("crafted_pub");
        let reps = ctx.n(1, 8);
        let mut idx = 0u64;
        for rep in 0..reps {
            let sub = pc.next();
            // each shard generates only its share of the classes (generation costs a few modular square roots per point)
            let mut q = Prng::new(sub, "cp");
            let pts = crafted_points_sharded(&mut q, 1, ctx.shard as u64, ctx.nshards as u64);
            for (name, pt) in pts {
                idx += 1;
                ctx.class("crafted_pub_point");
                ctx.class(&format!("crafted:{}", name));
                ctx.distinct("crafted_pub", &[&r2::b32(&pt.0)]);
                let w = json!({"class": format!("crafted:{}", name), "x": hex::encode(r2::b32(&pt.0)), "y": hex::encode(r2::b32(&pt.1))});
                pub_roundtrips(ctx, &pt, &w);
                let neg = (pt.0.clone(), &c.p - &pt.1);
                pub_roundtrips(ctx, &neg, &w);
                if rep == 0 && idx == 1 {
                    ctx.sample(w);
                }
            }
        }
    }
    // ---- the two curve points with x = 0, (0, +-sqrt(b)): 32 zero bytes as a coordinate
    if ctx.mine(11) {
        if let Some(y) = r2::sqrt_p(&c.b) {
            for yy in [y.clone(), &c.p - &y] {
                let pt = (BigUint::zero(), yy);
                ctx.class("pub_point_with_zero_x");
                let w = json!({"class": "x=0", "y": hex::encode(r2::b32(&pt.1))});
                pub_roundtrips(ctx, &pt, &w);
            }
        }
    }
    // keys whose public point has a leading zero byte: scan small multiples (library used only to scan, reference confirms)
    if ctx.mine(3) {
        let mut found = 0;
        let mut d = BigUint::from(1000u32 + ctx.seed as u32 % 1000);
        let mut tries = 0;
        while found < 2 && tries < 4000 {
            tries += 1;
            d += 1u32;
            let a = gm_sm2::p256_ecc::g_mul(&r2::to_limbs(&d)).to_affine_point();
            let x = gm_sm2::verif_hooks::fp_from_mont(&a.x);
            let y = gm_sm2::verif_hooks::fp_from_mont(&a.y);
            if x[3] >> 56 == 0 || y[3] >> 56 == 0 {
                key_roundtrips(ctx, &d, "scanned_leading_zero");
                found += 1;
            }
        }
    }
    // ---- OpenSSL documents
    let cs = corpus::load("sm2_openssl.json");
    for (i, v) in cs["keys"].as_array().unwrap().iter().enumerate() {
        if !ctx.mine(i as u64) {
            continue;
        }
        let d = r2::from_b(&corpus::hexf(v, "d"));
        let pt = r2::mul(&d, &r2::g()).unwrap();
        ctx.selftest("OpenSSL key corpus: pub == [d]G in the reference", r2::encode(&pt, false) == corpus::hexf(v, "pub"));
        let w = json!({"openssl_key": i});
        let p8 = corpus::hexf(v, "pkcs8_der");
        ctx.selftest("reference DER reader parses OpenSSL PKCS#8", der::pkcs8_decode(&p8).map(|(dd, _)| dd) == Some(r2::b32(&d).to_vec()));
        ctx.eval();
        ctx.class("openssl_pkcs8");
        ctx.distinct("ossl", &[&p8]);
        match guard(|| Sm2PrivateKey::from_pkcs8_der(&p8)) {
            Outcome::Ret(Ok(s)) if r2::from_limbs(&s.d) == d && same_pk(&s.public_key, &pt) => {}
            o => ctx.violation(&format!("from_pkcs8_der:openssl-document:{}", oc(&o)), w.clone()),
        }
        ctx.eval();
        match guard(|| Sm2PrivateKey::from_pkcs8_pem(v["pkcs8_pem"].as_str().unwrap())) {
            Outcome::Ret(Ok(s)) if r2::from_limbs(&s.d) == d => {}
            o => ctx.violation(&format!("from_pkcs8_pem:openssl-document:{}", oc(&o)), w.clone()),
        }
        let spki = corpus::hexf(v, "spki_der");
        ctx.selftest("reference SPKI writer == OpenSSL's bytes", der::spki_encode(&r2::encode(&pt, false)) == spki);
        ctx.eval();
        ctx.class("openssl_spki");
        match guard(|| Sm2PublicKey::from_public_key_der(&spki)) {
            Outcome::Ret(Ok(k)) if same_pk(&k, &pt) => {}
            o => ctx.violation(&format!("from_public_key_der:openssl-document:{}", oc(&o)), w.clone()),
        }
        ctx.eval();
        match guard(|| Sm2PublicKey::from_str(v["spki_pem"].as_str().unwrap())) {
            Outcome::Ret(Ok(k)) if same_pk(&k, &pt) => {}
            o => ctx.violation(&format!("FromStr:openssl-pem:{}", oc(&o)), w.clone()),
        }
        // re-encoding equals OpenSSL's DER byte for byte
        if let Some(k) = lib_pk(&pt) {
            ctx.eval();
            if let Outcome::Ret(Ok(doc)) = guard(|| k.to_public_key_der()) {
                if doc.as_bytes() != spki {
                    ctx.violation("to_public_key_der:differs-from-openssl", w.clone());
                }
            }
        }
    }
    for (i, v) in cs["ciphertexts"].as_array().unwrap().iter().enumerate() {
        if !ctx.mine(i as u64) {
            continue;
        }
        let d = r2::from_b(&corpus::hexf(v, "d"));
        let msg = corpus::hexf(v, "msg");
        let doc = corpus::hexf(v, "der");
        let Some(sk) = lib_sk(&d) else { continue };
        ctx.eval();
        ctx.class("openssl_sm2cipher");
        ctx.distinct("osslct", &[&doc]);
        let flags = [(false, Order::C1C3C2), (false, Order::C1C2C3), (true, Order::C1C3C2)][i % 3];
        match guard(|| sk.decrypt_asn1(&doc, flags.0, model(flags.1))) {
            Outcome::Ret(Ok(m)) if m == msg => {}
            o => ctx.violation(&format!("decrypt_asn1:openssl-document:{}", if let Outcome::Ret(Ok(_)) = &o { "wrong-plaintext" } else { oc(&o) }), json!({"doc": hx(&doc), "d": hex::encode(r2::b32(&d)), "flags": format!("{:?}", flags)})),
        }
    }
    // ---- ASN.1 ciphertexts with chosen ephemeral scalars
    let zc = corpus::load("sm2_zero_coord.json");
    for (i, v) in zc["zero_coord"].as_array().unwrap().iter().enumerate() {
        let k = r2::from_b(&corpus::hexf(v, "k"));
        let cls = v["class"].as_str().unwrap();
        let pt = r2::mul(&k, &r2::g()).unwrap();
        let (xb, yb) = (r2::b32(&pt.0), r2::b32(&pt.1));
        let parts: Vec<&str> = cls.split('_').collect();
        let coord = if parts[0] == "x" { xb } else { yb };
        let cnt: usize = parts[2].parse().unwrap();
        let ok = if parts[1] == "lead" { coord[..cnt].iter().all(|&b| b == 0) } else { coord[32 - cnt..].iter().all(|&b| b == 0) };
        ctx.selftest(&format!("zero-coordinate witness {} reproduces in the reference", cls), ok);
        if !ctx.mine(i as u64) {
            continue;
        }
        let mut p = ctx.prng(&format!("zc{}", i));
        let d = rand_scalar(&mut p, &(&c.n - 1u32));
        ctx.class("asn1_zero_coord");
        let ml = p.range(1, 80);
        let msg = p.bytes(ml);
        for (cf, ord) in [(false, Order::C1C3C2), (false, Order::C1C2C3), (true, Order::C1C3C2), (true, Order::C1C2C3)] {
            asn1_case(ctx, &d, &msg, &k, cf, ord, &format!("zero_coord:{}", cls));
        }
        // the shortest documents there are: a shortened coordinate AND a message of 1, 2, 3 bytes
        for ml in 1..=3usize {
            let m = p.bytes(ml);
            ctx.class("asn1_zero_coord_short_msg");
            asn1_case(ctx, &d, &m, &k, false, Order::C1C3C2, &format!("zero_coord_short_msg:{}", cls));
        }
    }
    let n = ctx.n(300, 12_000);
    let mut prng = ctx.prng("asn1");
    for i in 0..n {
        let sub = prng.next();
        if !ctx.mine(i) {
            continue;
        }
        let mut p = Prng::new(sub, "a");
        let d = key_for(&mut p, i % 60);
        let k = rand_scalar(&mut p, &c.n);
        let pt = r2::mul(&k, &r2::g()).unwrap();
        ctx.class(if r2::b32(&pt.0)[0] & 0x80 != 0 || r2::b32(&pt.1)[0] & 0x80 != 0 { "asn1_top_bit_set" } else { "asn1_top_bit_clear" });
        let ml = match i % 7 {
            0 => 1,
            1 => 32,
            2 => 127,
            3 => 128,
            _ => p.range(1, 300),
        };
        let msg = p.bytes(ml);
        let (cf, ord) = [(false, Order::C1C3C2), (false, Order::C1C2C3), (true, Order::C1C3C2), (true, Order::C1C2C3)][(i % 4) as usize];
        asn1_case(ctx, &d, &msg, &k, cf, ord, "random_k");
        if i % 100 == 0 {
            ctx.sample(json!({"asn1_case": {"d": hex::encode(r2::b32(&d)), "k": hex::encode(r2::b32(&k)), "msg_len": ml}}));
        }
    }
    // ---- decoders must reject
    let n = ctx.n(40, 1500);
    let mut prng = ctx.prng("reject");
    for i in 0..n {
        let sub = prng.next();
        if !ctx.mine(i) {
            continue;
        }
        let mut p = Prng::new(sub, "r");
        let pt = r2::mul(&rand_scalar(&mut p, &c.n), &r2::g()).unwrap();
        let good = r2::encode(&pt, false);
        // off-curve
        let mut b = good.clone();
        b[64] ^= 1;
        must_reject_pub(ctx, &b, "reject_offcurve");
        let rnd = {
            let mut v = vec![4u8];
            v.extend_from_slice(&r2::b32(&rand_scalar(&mut p, &c.p)));
            v.extend_from_slice(&r2::b32(&rand_scalar(&mut p, &c.p)));
            v
        };
        if r2::decode(&rnd).is_none() {
            must_reject_pub(ctx, &rnd, "reject_offcurve");
        }
        // coordinates >= p: x+p alias of a small-x curve point, p itself, all ff
        let lim: BigUint = (BigUint::one() << 256) - &c.p;
        let mut xs = BigUint::from(p.below(1 << 24));
        loop {
            xs += 1u32;
            let rhs = (&xs * &xs * &xs + &c.a * &xs + &c.b) % &c.p;
            if let Some(y) = r2::sqrt_p(&rhs) {
                assert!(xs < lim);
                let mut v = vec![4u8];
                v.extend_from_slice(&r2::b32(&(&xs + &c.p)));
                v.extend_from_slice(&r2::b32(&y));
                must_reject_pub(ctx, &v, "reject_coordinate_ge_p");
                let mut v2 = vec![if y.bit(0) { 3u8 } else { 2 }];
                v2.extend_from_slice(&r2::b32(&(&xs + &c.p)));
                must_reject_pub(ctx, &v2, "reject_coordinate_ge_p");
                break;
            }
        }
        let mut v = vec![4u8];
        v.extend_from_slice(&[0xff; 64]);
        must_reject_pub(ctx, &v, "reject_coordinate_ge_p");
        // exact boundary: x' = p aliases x = 0, and (0, sqrt(b)) is on the curve
        if let Some(y0) = r2::sqrt_p(&c.b) {
            let mut v = vec![4u8];
            v.extend_from_slice(&r2::b32(&c.p));
            v.extend_from_slice(&r2::b32(&y0));
            must_reject_pub(ctx, &v, "reject_coordinate_eq_p");
            let mut v2 = vec![if y0.bit(0) { 3u8 } else { 2 }];
            v2.extend_from_slice(&r2::b32(&c.p));
            must_reject_pub(ctx, &v2, "reject_coordinate_eq_p");
        }
        // wrong lengths
        for len in [0usize, 1, 32, 33, 34, 63, 64, 66, 96, 129] {
            let mut v = good.clone();
            v.resize(len, 0x5a);
            if len == 33 {
                // 04 || 32 bytes: wrong length for the format byte
                must_reject_pub(ctx, &v, "reject_wrong_length");
                continue;
            }
            must_reject_pub(ctx, &v, "reject_wrong_length");
        }
        let comp = r2::encode(&pt, true);
        for len in [2usize, 32, 34, 65] {
            let mut v = comp.clone();
            v.resize(len, 0x11);
            must_reject_pub(ctx, &v, "reject_wrong_length");
        }
        // wrong point-format bytes on otherwise valid encodings
        for pc in [0u8, 1, 5, 6, 7, 0x0c, 0x14, 0x24, 0x44, 0x84, 0xff] {
            let mut v = good.clone();
            v[0] = pc;
            must_reject_pub(ctx, &v, "reject_wrong_pc_byte");
            let mut v = comp.clone();
            v[0] = pc;
            if pc != 4 {
                must_reject_pub(ctx, &v, "reject_wrong_pc_byte");
            }
        }
        // compressed x that is not on the curve
        let mut tries = 0;
        loop {
            tries += 1;
            let x = rand_scalar(&mut p, &c.p);
            let rhs = (&x * &x * &x + &c.a * &x + &c.b) % &c.p;
            if r2::sqrt_p(&rhs).is_none() || tries > 50 {
                let mut v = vec![2u8];
                v.extend_from_slice(&r2::b32(&x));
                if r2::decode(&v).is_none() {
                    must_reject_pub(ctx, &v, "reject_offcurve");
                }
                break;
            }
        }
        // private keys of wrong length (bytes, hex, PKCS#8)
        for len in [0usize, 1, 16, 31, 33, 48, 64] {
            let v = p.bytes(len);
            ctx.class("reject_priv_wrong_length");
            ctx.distinct("privlen", &[&v]);
            ctx.eval();
            match guard(|| Sm2PrivateKey::new(&v)) {
                Outcome::Ret(Err(_)) => {}
                o => ctx.violation(&format!("Sm2PrivateKey::new:len={}:{}", if len < 32 { "<32" } else { ">32" }, oc(&o)), json!({"bytes": hex::encode(&v)})),
            }
            ctx.eval();
            let hs = hex::encode(&v);
            match guard(|| Sm2PrivateKey::from_hex_string(&hs)) {
                Outcome::Ret(Err(_)) => {}
                o => ctx.violation(&format!("Sm2PrivateKey::from_hex_string:len={}:{}", if len < 32 { "<32" } else { ">32" }, oc(&o)), json!({"hex": hs})),
            }
            ctx.eval();
            let doc = der::pkcs8_encode(&v, None);
            match guard(|| Sm2PrivateKey::from_pkcs8_der(&doc)) {
                Outcome::Ret(Err(_)) => {}
                o => ctx.violation(&format!("from_pkcs8_der:private-key-len={}:{}", if len < 32 { "<32" } else { ">32" }, oc(&o)), json!({"doc": hex::encode(&doc)})),
            }
        }
    }
    let _ = BigUint::zero().is_zero();
}
