//! Reference SM4 (GB/T 32907-2016). The S-box is not a copied table: it is computed as
//! S(x) = A * inv(A*x + 0xD3) + 0xD3 over GF(2^8)/(x^8+x^7+x^6+x^5+x^4+x^2+1) with A the
//! circulant matrix of first row 0xD3 (confirmed once against all 256 published entries and
//! on every run by the standard's known answers and the OpenSSL corpus). One round function,
//! explicit reversed key array for decryption. Modes: CBC-PKCS7, CFB-128, OFB, CTR (128-bit
//! big-endian counter).
use std::sync::OnceLock;

fn gmul(mut a: u32, mut b: u32) -> u32 {
    let mut r = 0;
    while b != 0 {
        if b & 1 != 0 {
            r ^= a;
        }
        a <<= 1;
        if a & 0x100 != 0 {
            a ^= 0x1F5;
        }
        b >>= 1;
    }
    r
}

fn ginv(a: u32) -> u32 {
    if a == 0 {
        return 0;
    }
    let mut r = 1;
    for _ in 0..254 {
        r = gmul(r, a);
    }
    r
}

fn affine(x: u32) -> u32 {
    let mut y = 0;
    for i in 0..8u32 {
        let row = (0xD3u32 >> i | 0xD3u32 << (8 - i)) & 0xff; // rotate right by i
        let bit = (row & x).count_ones() & 1;
        y |= bit << (7 - i);
    }
    y
}

pub fn sbox() -> &'static [u8; 256] {
    static S: OnceLock<[u8; 256]> = OnceLock::new();
    S.get_or_init(|| {
        let mut t = [0u8; 256];
        for x in 0..256u32 {
            t[x as usize] = (affine(ginv(affine(x) ^ 0xD3)) ^ 0xD3) as u8;
        }
        t
    })
}

fn tau(a: u32) -> u32 {
    let s = sbox();
    let b = a.to_be_bytes();
    u32::from_be_bytes([s[b[0] as usize], s[b[1] as usize], s[b[2] as usize], s[b[3] as usize]])
}

const FK: [u32; 4] = [0xa3b1bac6, 0x56aa3350, 0x677d9197, 0xb27022dc];

fn ck(i: u32) -> u32 {
    // ck_{i,j} = (4i + j) * 7 mod 256
    let mut v = 0u32;
    for j in 0..4 {
        v = (v << 8) | (((4 * i + j) * 7) & 0xff);
    }
    v
}

pub struct Sm4 {
    rk: [u32; 32],
}

impl Sm4 {
    pub fn new(key: &[u8; 16]) -> Sm4 {
        let mut k = [0u32; 36];
        for i in 0..4 {
            k[i] = u32::from_be_bytes([key[4 * i], key[4 * i + 1], key[4 * i + 2], key[4 * i + 3]]) ^ FK[i];
        }
        let mut rk = [0u32; 32];
        for i in 0..32 {
            let b = tau(k[i + 1] ^ k[i + 2] ^ k[i + 3] ^ ck(i as u32));
            k[i + 4] = k[i] ^ b ^ b.rotate_left(13) ^ b.rotate_left(23);
            rk[i] = k[i + 4];
        }
        Sm4 { rk }
    }
    fn crypt(&self, block: &[u8; 16], rks: &[u32; 32]) -> [u8; 16] {
        let mut x = [0u32; 36];
        for i in 0..4 {
            x[i] = u32::from_be_bytes([block[4 * i], block[4 * i + 1], block[4 * i + 2], block[4 * i + 3]]);
        }
        for i in 0..32 {
            let b = tau(x[i + 1] ^ x[i + 2] ^ x[i + 3] ^ rks[i]);
            x[i + 4] = x[i] ^ b ^ b.rotate_left(2) ^ b.rotate_left(10) ^ b.rotate_left(18) ^ b.rotate_left(24);
        }
        let mut o = [0u8; 16];
        for i in 0..4 {
            o[4 * i..4 * i + 4].copy_from_slice(&x[35 - i].to_be_bytes());
        }
        o
    }
    pub fn enc(&self, b: &[u8; 16]) -> [u8; 16] {
        self.crypt(b, &self.rk)
    }
    pub fn dec(&self, b: &[u8; 16]) -> [u8; 16] {
        let mut r = self.rk;
        r.reverse();
        self.crypt(b, &r)
    }
}

fn lt(b: u32) -> u32 {
    b ^ b.rotate_left(2) ^ b.rotate_left(10) ^ b.rotate_left(18) ^ b.rotate_left(24)
}
fn lt_key(b: u32) -> u32 {
    b ^ b.rotate_left(13) ^ b.rotate_left(23)
}

impl Sm4 {
    pub fn round_keys(&self) -> [u32; 32] {
        self.rk
    }
    /// Plaintext block for which the input of the round function T in round `round` (0..32) of ENCRYPTION is `tin`;
    /// the three free state words are `free`. The state of round `round` is fixed and the rounds before it inverted.
    pub fn block_with_round_input(&self, round: usize, tin: u32, free: [u32; 3]) -> [u8; 16] {
        self.craft(&self.rk, round, tin, free)
    }
    /// same for DECRYPTION (returns a ciphertext block)
    pub fn ct_block_with_round_input(&self, round: usize, tin: u32, free: [u32; 3]) -> [u8; 16] {
        let mut r = self.rk;
        r.reverse();
        self.craft(&r, round, tin, free)
    }
    fn craft(&self, rks: &[u32; 32], round: usize, tin: u32, free: [u32; 3]) -> [u8; 16] {
        // x[round], x[round+1], x[round+2] free; x[round+3] = tin ^ x[round+1] ^ x[round+2] ^ rk[round]
        let mut x = [0u32; 36];
        x[round] = free[0];
        x[round + 1] = free[1];
        x[round + 2] = free[2];
        x[round + 3] = tin ^ free[1] ^ free[2] ^ rks[round];
        // x[i+4] = x[i] ^ T(x[i+1]^x[i+2]^x[i+3]^rk[i])  =>  x[i] = x[i+4] ^ T(...)
        for i in (0..round).rev() {
            x[i] = x[i + 4] ^ lt(tau(x[i + 1] ^ x[i + 2] ^ x[i + 3] ^ rks[i]));
        }
        let mut o = [0u8; 16];
        for i in 0..4 {
            o[4 * i..4 * i + 4].copy_from_slice(&x[i].to_be_bytes());
        }
        o
    }
    /// The T input of every round of an encryption (for confirming a crafted block inside the reference).
    pub fn round_inputs(&self, block: &[u8; 16], decrypt: bool) -> [u32; 32] {
        let mut rks = self.rk;
        if decrypt {
            rks.reverse();
        }
        let mut x = [0u32; 36];
        for i in 0..4 {
            x[i] = u32::from_be_bytes([block[4 * i], block[4 * i + 1], block[4 * i + 2], block[4 * i + 3]]);
        }
        let mut out = [0u32; 32];
        for i in 0..32 {
            out[i] = x[i + 1] ^ x[i + 2] ^ x[i + 3] ^ rks[i];
            x[i + 4] = x[i] ^ lt(tau(out[i]));
        }
        out
    }
}

/// A 128-bit key whose round key rk[round] equals `value` (the key schedule run backwards from a chosen state).
pub fn key_with_round_key(round: usize, value: u32, free: [u32; 3]) -> [u8; 16] {
    // k[i+4] = k[i] ^ T'(k[i+1]^k[i+2]^k[i+3]^ck(i)); rk[i] = k[i+4]
    let mut k = [0u32; 36];
    k[round + 4] = value;
    k[round + 1] = free[0];
    k[round + 2] = free[1];
    k[round + 3] = free[2];
    for i in (0..=round).rev() {
        k[i] = k[i + 4] ^ lt_key(tau(k[i + 1] ^ k[i + 2] ^ k[i + 3] ^ ck(i as u32)));
    }
    let mut o = [0u8; 16];
    for i in 0..4 {
        o[4 * i..4 * i + 4].copy_from_slice(&(k[i] ^ FK[i]).to_be_bytes());
    }
    o
}

fn blk(b: &[u8]) -> [u8; 16] {
    let mut a = [0u8; 16];
    a.copy_from_slice(&b[..16]);
    a
}

fn xor16(a: &[u8; 16], b: &[u8]) -> [u8; 16] {
    let mut o = [0u8; 16];
    for i in 0..16 {
        o[i] = a[i] ^ b[i];
    }
    o
}

#[derive(Clone, Copy, Debug, PartialEq)]
pub enum Mode {
    Cbc,
    Cfb,
    Ofb,
    Ctr,
}

pub const MODES: [Mode; 4] = [Mode::Cbc, Mode::Cfb, Mode::Ofb, Mode::Ctr];

pub fn mode_name(m: Mode) -> &'static str {
    match m {
        Mode::Cbc => "cbc",
        Mode::Cfb => "cfb",
        Mode::Ofb => "ofb",
        Mode::Ctr => "ctr",
    }
}

pub fn mode_encrypt(m: Mode, key: &[u8; 16], iv: &[u8; 16], data: &[u8]) -> Vec<u8> {
    let c = Sm4::new(key);
    let mut out = Vec::with_capacity(data.len() + 16);
    match m {
        Mode::Cbc => {
            let pad = 16 - data.len() % 16;
            let mut p = data.to_vec();
            p.extend(std::iter::repeat(pad as u8).take(pad));
            let mut prev = *iv;
            for ch in p.chunks(16) {
                let e = c.enc(&xor16(&prev, ch));
                out.extend_from_slice(&e);
                prev = e;
            }
        }
        Mode::Cfb => {
            let mut reg = *iv;
            for ch in data.chunks(16) {
                let ks = c.enc(&reg);
                let ct: Vec<u8> = ch.iter().zip(ks.iter()).map(|(a, b)| a ^ b).collect();
                out.extend_from_slice(&ct);
                if ct.len() == 16 {
                    reg = blk(&ct);
                }
            }
        }
        Mode::Ofb => {
            let mut reg = *iv;
            for ch in data.chunks(16) {
                reg = c.enc(&reg);
                out.extend(ch.iter().zip(reg.iter()).map(|(a, b)| a ^ b));
            }
        }
        Mode::Ctr => {
            let mut ctr = u128::from_be_bytes(*iv);
            for ch in data.chunks(16) {
                let ks = c.enc(&ctr.to_be_bytes());
                out.extend(ch.iter().zip(ks.iter()).map(|(a, b)| a ^ b));
                ctr = ctr.wrapping_add(1);
            }
        }
    }
    out
}

/// None = must be rejected (CBC: length not a positive multiple of 16, or final byte not in 1..=16).
/// CBC unpadding follows the property statement: only the final byte is constrained.
pub fn mode_decrypt(m: Mode, key: &[u8; 16], iv: &[u8; 16], data: &[u8]) -> Option<Vec<u8>> {
    let c = Sm4::new(key);
    match m {
        Mode::Cbc => {
            if data.is_empty() || data.len() % 16 != 0 {
                return None;
            }
            let mut out = Vec::with_capacity(data.len());
            let mut prev = *iv;
            for ch in data.chunks(16) {
                let d = c.dec(&blk(ch));
                out.extend_from_slice(&xor16(&prev, &d));
                prev = blk(ch);
            }
            let last = *out.last().unwrap() as usize;
            if last == 0 || last > 16 {
                return None;
            }
            out.truncate(out.len() - last);
            Some(out)
        }
        Mode::Cfb => {
            let mut out = Vec::with_capacity(data.len());
            let mut reg = *iv;
            for ch in data.chunks(16) {
                let ks = c.enc(&reg);
                out.extend(ch.iter().zip(ks.iter()).map(|(a, b)| a ^ b));
                if ch.len() == 16 {
                    reg = blk(ch);
                }
            }
            Some(out)
        }
        Mode::Ofb | Mode::Ctr => Some(mode_encrypt(m, key, iv, data)),
    }
}

pub fn selftest() -> Vec<(String, bool)> {
    let mut r = vec![];
    let key: [u8; 16] = [0x01, 0x23, 0x45, 0x67, 0x89, 0xab, 0xcd, 0xef, 0xfe, 0xdc, 0xba, 0x98, 0x76, 0x54, 0x32, 0x10];
    let c = Sm4::new(&key);
    let e = c.enc(&key);
    r.push(("sm4 standard example".to_string(), hex::encode(e) == "681edf34d206965e86b3e94f536e4246"));
    r.push(("sm4 dec(enc)".to_string(), c.dec(&e) == key));
    let mut b = key;
    for _ in 0..1_000_000 {
        b = c.enc(&b);
    }
    r.push(("sm4 10^6 iterations".to_string(), hex::encode(b) == "595298c7c6fd271f0402f804c33d3f66"));
    let s = sbox();
    let mut seen = [false; 256];
    for &v in s.iter() {
        seen[v as usize] = true;
    }
    r.push(("sm4 computed sbox bijective, S(0)=d6, S(ff)=48".to_string(), seen.iter().all(|&x| x) && s[0] == 0xd6 && s[255] == 0x48));
    r
}
