//! Reference SM2 (GB/T 32918.1-4) in affine coordinates over num_bigint::BigUint: no Montgomery
//! form, no Jacobian formulas, double-and-add. Protocol functions take the random scalar as a
//! parameter so that library outputs can be compared byte for byte.
use super::sm3::{kdf, sm3_parts};
use num_bigint::BigUint;
use num_traits::{One, Zero};
use std::sync::OnceLock;

pub struct Curve {
    pub p: BigUint,
    pub a: BigUint,
    pub b: BigUint,
    pub n: BigUint,
    pub gx: BigUint,
    pub gy: BigUint,
    /// 2^256 mod p (Montgomery radix of the library's internal representation)
    pub r_p: BigUint,
    pub r_p_inv: BigUint,
    pub r_n: BigUint,
}

pub fn hexn(s: &str) -> BigUint {
    BigUint::parse_bytes(s.as_bytes(), 16).unwrap()
}

pub fn curve() -> &'static Curve {
    static C: OnceLock<Curve> = OnceLock::new();
    C.get_or_init(|| {
        let p = hexn("FFFFFFFEFFFFFFFFFFFFFFFFFFFFFFFFFFFFFFFF00000000FFFFFFFFFFFFFFFF");
        let n = hexn("FFFFFFFEFFFFFFFFFFFFFFFFFFFFFFFF7203DF6B21C6052B53BBF40939D54123");
        let r: BigUint = BigUint::one() << 256;
        let r_p: BigUint = &r % &p;
        Curve {
            a: &p - 3u32,
            b: hexn("28E9FA9E9D9F5E344D5A9E4BCF6509A7F39789F515AB8F92DDBCBD414D940E93"),
            gx: hexn("32C4AE2C1F1981195F9904466A39C9948FE30BBFF2660BE1715A4589334C74C7"),
            gy: hexn("BC3736A2F4F6779C59BDCEE36B692153D0A9877CC62A474002DF32E52139F0A0"),
            r_p_inv: r_p.modinv(&p).unwrap(),
            r_n: &r % &n,
            r_p,
            p,
            n,
        }
    })
}

/// Affine point; None = point at infinity.
pub type Pt = Option<(BigUint, BigUint)>;

pub fn g() -> Pt {
    let c = curve();
    Some((c.gx.clone(), c.gy.clone()))
}

fn sub_mod(a: &BigUint, b: &BigUint, m: &BigUint) -> BigUint {
    ((a % m) + m - (b % m)) % m
}

pub fn on_curve_b(x: &BigUint, y: &BigUint, b: &BigUint) -> bool {
    let c = curve();
    if x >= &c.p || y >= &c.p {
        return false;
    }
    let l = (y * y) % &c.p;
    let r = (x * x * x + &c.a * x + b) % &c.p;
    l == r
}

pub fn on_curve(x: &BigUint, y: &BigUint) -> bool {
    on_curve_b(x, y, &curve().b)
}

pub fn neg(a: &Pt) -> Pt {
    let c = curve();
    a.as_ref().map(|(x, y)| (x.clone(), (&c.p - y) % &c.p))
}

/// Group law by the textbook chord-and-tangent rule. Uses only the coefficient a, so it is also
/// the arithmetic an implementation performs on an invalid-curve point (any b').
pub fn add(a: &Pt, b: &Pt) -> Pt {
    let c = curve();
    let p = &c.p;
    let (x1, y1) = match a {
        None => return b.clone(),
        Some(v) => v,
    };
    let (x2, y2) = match b {
        None => return a.clone(),
        Some(v) => v,
    };
    let lam = if x1 == x2 {
        if ((y1 + y2) % p).is_zero() {
            return None;
        }
        let num = (BigUint::from(3u32) * x1 * x1 + &c.a) % p;
        let den = (BigUint::from(2u32) * y1) % p;
        (num * den.modinv(p).unwrap()) % p
    } else {
        let num = sub_mod(y2, y1, p);
        let den = sub_mod(x2, x1, p);
        (num * den.modinv(p).unwrap()) % p
    };
    let x3 = sub_mod(&sub_mod(&(&lam * &lam), x1, p), x2, p);
    let y3 = sub_mod(&(&lam * sub_mod(x1, &x3, p)), y1, p);
    Some((x3, y3))
}

pub fn dbl(a: &Pt) -> Pt {
    add(a, a)
}

// Homogeneous projective arithmetic (X:Y:Z), y^2 z = x^3 + a x z^2 + b z^3, textbook formulas
// (EFD add-1998-cmo-2 / dbl-2007-bl). Only used to make scalar multiplication ~7x faster; `mul_affine`
// stays the anchor and the self-test compares the two on every run.
type Pj = (BigUint, BigUint, BigUint);

fn pj_dbl(p1: &Pj) -> Pj {
    let c = curve();
    let m = &c.p;
    if p1.2.is_zero() || p1.1.is_zero() {
        return (BigUint::zero(), BigUint::one(), BigUint::zero());
    }
    let (x1, y1, z1) = p1;
    let xx = (x1 * x1) % m;
    let zz = (z1 * z1) % m;
    let w = (&c.a * &zz + &xx * 3u32) % m;
    let s = (y1 * z1 * 2u32) % m;
    let ss = (&s * &s) % m;
    let sss = (&s * &ss) % m;
    let r = (y1 * &s) % m;
    let rr = (&r * &r) % m;
    let xr = (x1 + &r) % m;
    let b = sub_mod(&sub_mod(&(&xr * &xr), &xx, m), &rr, m);
    let h = sub_mod(&(&w * &w), &(&b * 2u32), m);
    let x3 = (&h * &s) % m;
    let y3 = sub_mod(&(&w * sub_mod(&b, &h, m)), &(&rr * 2u32), m);
    (x3, y3, sss)
}

fn pj_add(p1: &Pj, p2: &Pj) -> Pj {
    let m = &curve().p;
    if p1.2.is_zero() {
        return p2.clone();
    }
    if p2.2.is_zero() {
        return p1.clone();
    }
    let (x1, y1, z1) = p1;
    let (x2, y2, z2) = p2;
    let y1z2 = (y1 * z2) % m;
    let x1z2 = (x1 * z2) % m;
    let z1z2 = (z1 * z2) % m;
    let u = sub_mod(&(y2 * z1), &y1z2, m);
    let v = sub_mod(&(x2 * z1), &x1z2, m);
    if v.is_zero() {
        return if u.is_zero() { pj_dbl(p1) } else { (BigUint::zero(), BigUint::one(), BigUint::zero()) };
    }
    let uu = (&u * &u) % m;
    let vv = (&v * &v) % m;
    let vvv = (&v * &vv) % m;
    let r = (&vv * &x1z2) % m;
    let a = sub_mod(&sub_mod(&(&uu * &z1z2), &vvv, m), &(&r * 2u32), m);
    let x3 = (&v * &a) % m;
    let y3 = sub_mod(&(&u * sub_mod(&r, &a, m)), &(&vvv * &y1z2), m);
    let z3 = (&vvv * &z1z2) % m;
    (x3, y3, z3)
}

/// [k]P; k may be any non-negative integer. Projective double-and-add, result converted to affine.
pub fn mul(k: &BigUint, a: &Pt) -> Pt {
    let m = &curve().p;
    let base: Pj = match a {
        None => return None,
        Some((x, y)) => (x.clone(), y.clone(), BigUint::one()),
    };
    let mut r: Pj = (BigUint::zero(), BigUint::one(), BigUint::zero());
    for i in (0..k.bits()).rev() {
        r = pj_dbl(&r);
        if k.bit(i) {
            r = pj_add(&r, &base);
        }
    }
    if r.2.is_zero() {
        return None;
    }
    let zi = r.2.modinv(m).unwrap();
    Some(((&r.0 * &zi) % m, (&r.1 * &zi) % m))
}

/// [k]P by left-to-right double-and-add in affine coordinates (the anchor for `mul`).
pub fn mul_affine(k: &BigUint, a: &Pt) -> Pt {
    let mut r: Pt = None;
    let bits = k.bits();
    for i in (0..bits).rev() {
        r = dbl(&r);
        if k.bit(i) {
            r = add(&r, a);
        }
    }
    r
}

pub fn b32(x: &BigUint) -> [u8; 32] {
    let v = x.to_bytes_be();
    assert!(v.len() <= 32, "value does not fit 32 bytes");
    let mut o = [0u8; 32];
    o[32 - v.len()..].copy_from_slice(&v);
    o
}

pub fn from_b(b: &[u8]) -> BigUint {
    BigUint::from_bytes_be(b)
}

pub fn sqrt_p(v: &BigUint) -> Option<BigUint> {
    let c = curve();
    let e = (&c.p + 1u32) >> 2; // p = 3 mod 4
    let r = v.modpow(&e, &c.p);
    if (&r * &r) % &c.p == v % &c.p {
        Some(r)
    } else {
        None
    }
}

/// SEC1 encoding of a finite point.
pub fn encode(pt: &(BigUint, BigUint), compressed: bool) -> Vec<u8> {
    let mut v = vec![];
    if compressed {
        v.push(if pt.1.bit(0) { 0x03 } else { 0x02 });
        v.extend_from_slice(&b32(&pt.0));
    } else {
        v.push(0x04);
        v.extend_from_slice(&b32(&pt.0));
        v.extend_from_slice(&b32(&pt.1));
    }
    v
}

/// Strict SEC1 decoding: None unless the bytes denote a point on the curve with coordinates < p.
pub fn decode(b: &[u8]) -> Option<(BigUint, BigUint)> {
    let c = curve();
    match b.first()? {
        0x04 if b.len() == 65 => {
            let x = from_b(&b[1..33]);
            let y = from_b(&b[33..65]);
            if on_curve(&x, &y) {
                Some((x, y))
            } else {
                None
            }
        }
        t @ (0x02 | 0x03) if b.len() == 33 => {
            let x = from_b(&b[1..33]);
            if x >= c.p {
                return None;
            }
            let rhs = (&x * &x * &x + &c.a * &x + &c.b) % &c.p;
            let mut y = sqrt_p(&rhs)?;
            if y.bit(0) != (*t == 0x03) {
                y = (&c.p - &y) % &c.p;
            }
            Some((x, y))
        }
        _ => None,
    }
}

pub fn za(id: &[u8], pk: &(BigUint, BigUint)) -> [u8; 32] {
    let c = curve();
    let entl = ((id.len() * 8) as u16).to_be_bytes();
    sm3_parts(&[&entl, id, &b32(&c.a), &b32(&c.b), &b32(&c.gx), &b32(&c.gy), &b32(&pk.0), &b32(&pk.1)])
}

pub fn digest_e(id: &[u8], pk: &(BigUint, BigUint), msg: &[u8]) -> BigUint {
    from_b(&sm3_parts(&[&za(id, pk), msg]))
}

/// GB/T 32918.2 signing with a given nonce. None = the standard's retry conditions (r = 0, r + k = n, s = 0).
pub fn sign(d: &BigUint, id: &[u8], msg: &[u8], k: &BigUint) -> Option<([u8; 32], [u8; 32])> {
    let pk = mul(d, &g())?;
    sign_e(d, &digest_e(id, &pk, msg), k)
}

/// steps A3..A7 for a given e (any 256-bit integer) and nonce
pub fn sign_e(d: &BigUint, e: &BigUint, k: &BigUint) -> Option<([u8; 32], [u8; 32])> {
    let c = curve();
    let (x1, _) = mul(k, &g())?;
    let r = (e + x1) % &c.n;
    if r.is_zero() || (&r + k) == c.n {
        return None;
    }
    let inv = (BigUint::one() + d).modinv(&c.n)?;
    let s = (inv * sub_mod(k, &(&r * d), &c.n)) % &c.n;
    if s.is_zero() {
        return None;
    }
    Some((b32(&r), b32(&s)))
}

/// GB/T 32918.2 verification of a 64-byte r||s. Anything else is rejected.
pub fn verify(pk: &(BigUint, BigUint), id: &[u8], msg: &[u8], sig: &[u8]) -> bool {
    verify_e(pk, &digest_e(id, pk, msg), sig)
}

/// steps B1..B7 for a given e (any 256-bit integer)
pub fn verify_e(pk: &(BigUint, BigUint), e: &BigUint, sig: &[u8]) -> bool {
    let c = curve();
    if sig.len() != 64 {
        return false;
    }
    let r = from_b(&sig[..32]);
    let s = from_b(&sig[32..]);
    if r.is_zero() || s.is_zero() || r >= c.n || s >= c.n {
        return false;
    }
    let t = (&r + &s) % &c.n;
    if t.is_zero() {
        return false;
    }
    let q = add(&mul(&s, &g()), &mul(&t, &Some(pk.clone())));
    match q {
        None => false,
        Some((x1, _)) => (e + x1) % &c.n == r,
    }
}

/// nonce used by a signature, recovered with the private key: k = s(1+d) + r d mod n
pub fn recover_nonce(d: &BigUint, sig: &[u8]) -> BigUint {
    let c = curve();
    let r = from_b(&sig[..32]);
    let s = from_b(&sig[32..64]);
    (s * (BigUint::one() + d) + r * d) % &c.n
}

#[derive(Clone, Copy, PartialEq, Debug)]
pub enum Order {
    C1C2C3,
    C1C3C2,
}

/// GB/T 32918.4 encryption with a given k. None = KDF output all zero (retry) or infinity.
pub fn encrypt(pk: &(BigUint, BigUint), msg: &[u8], k: &BigUint, order: Order, compressed: bool) -> Option<Vec<u8>> {
    let c1 = mul(k, &g())?;
    let (x2, y2) = mul(k, &Some(pk.clone()))?;
    let mut z = b32(&x2).to_vec();
    z.extend_from_slice(&b32(&y2));
    let t = kdf(&z, msg.len());
    if t.iter().all(|&b| b == 0) {
        return None;
    }
    let c2: Vec<u8> = msg.iter().zip(t.iter()).map(|(a, b)| a ^ b).collect();
    let c3 = sm3_parts(&[&b32(&x2), msg, &b32(&y2)]);
    let mut out = encode(&c1, compressed);
    match order {
        Order::C1C2C3 => {
            out.extend_from_slice(&c2);
            out.extend_from_slice(&c3);
        }
        Order::C1C3C2 => {
            out.extend_from_slice(&c3);
            out.extend_from_slice(&c2);
        }
    }
    Some(out)
}

/// Split a raw ciphertext into (C1 bytes, C2, C3); None if too short.
pub fn split(ct: &[u8], order: Order, compressed: bool) -> Option<(&[u8], &[u8], &[u8])> {
    let l1 = if compressed { 33 } else { 65 };
    if ct.len() < l1 + 32 {
        return None;
    }
    let c1 = &ct[..l1];
    let rest = &ct[l1..];
    Some(match order {
        Order::C1C2C3 => (c1, &rest[..rest.len() - 32], &rest[rest.len() - 32..]),
        Order::C1C3C2 => (c1, &rest[32..], &rest[..32]),
    })
}

/// GB/T 32918.4 decryption; None = reject.
pub fn decrypt(d: &BigUint, ct: &[u8], order: Order, compressed: bool) -> Option<Vec<u8>> {
    let (c1b, c2, c3) = split(ct, order, compressed)?;
    // the layout fixes the encoding: a compressed layout carries 02/03, an uncompressed one 04
    match (compressed, c1b[0]) {
        (true, 0x02) | (true, 0x03) | (false, 0x04) => {}
        _ => return None,
    }
    let c1 = decode(c1b)?;
    let (x2, y2) = mul(d, &Some(c1))?;
    let mut z = b32(&x2).to_vec();
    z.extend_from_slice(&b32(&y2));
    let t = kdf(&z, c2.len());
    if t.iter().all(|&b| b == 0) {
        return None;
    }
    let m: Vec<u8> = c2.iter().zip(t.iter()).map(|(a, b)| a ^ b).collect();
    let u = sm3_parts(&[&b32(&x2), &m, &b32(&y2)]);
    if u != c3 {
        return None;
    }
    Some(m)
}

/// What a decryptor WITHOUT any point validation computes for an arbitrary affine (x, y) as C1:
/// the shared point by the a-only group law, then a matching C2/C3 for `msg`. Used to craft
/// ciphertexts that only a point check can reject.
pub fn craft_for_point(d: &BigUint, c1: &(BigUint, BigUint), msg: &[u8]) -> Option<(Vec<u8>, [u8; 32])> {
    let (x2, y2) = mul(d, &Some(c1.clone()))?;
    let mut z = b32(&x2).to_vec();
    z.extend_from_slice(&b32(&y2));
    let t = kdf(&z, msg.len());
    let c2: Vec<u8> = msg.iter().zip(t.iter()).map(|(a, b)| a ^ b).collect();
    let c3 = sm3_parts(&[&b32(&x2), msg, &b32(&y2)]);
    Some((c2, c3))
}

// ---------------------------------------------------------------- key agreement (GB/T 32918.3)

pub fn xbar(x: &BigUint) -> BigUint {
    let w = 127u32;
    let m = (BigUint::one() << w) - 1u32;
    (BigUint::one() << w) + (x & m)
}

pub struct ExchOut {
    pub key: Vec<u8>,
    pub s_b: [u8; 32], // tag 0x02
    pub s_a: [u8; 32], // tag 0x03
    pub shared: (BigUint, BigUint),
}

/// One party's computation. `initiator` selects the ZA||ZB ordering (always initiator first).
/// own_d / own_r: this party's static and ephemeral scalars; peer_pk / peer_r_pt: the other's public values.
/// ra_pt/rb_pt are always (initiator's R, responder's R). None = shared point at infinity or invalid peer point.
pub fn exchange(
    own_d: &BigUint,
    own_r: &BigUint,
    own_r_pt: &(BigUint, BigUint),
    peer_pk: &(BigUint, BigUint),
    peer_r_pt: &(BigUint, BigUint),
    za_init: &[u8; 32],
    zb_resp: &[u8; 32],
    initiator: bool,
    klen: usize,
) -> Option<ExchOut> {
    let c = curve();
    if !on_curve(&peer_r_pt.0, &peer_r_pt.1) {
        return None;
    }
    let t = (own_d + xbar(&own_r_pt.0) * own_r) % &c.n;
    let q = add(&Some(peer_pk.clone()), &mul(&xbar(&peer_r_pt.0), &Some(peer_r_pt.clone())));
    let (xv, yv) = mul(&t, &q)?; // cofactor h = 1
    let (ra, rb) = if initiator { (own_r_pt, peer_r_pt) } else { (peer_r_pt, own_r_pt) };
    let mut z = b32(&xv).to_vec();
    z.extend_from_slice(&b32(&yv));
    z.extend_from_slice(za_init);
    z.extend_from_slice(zb_resp);
    let key = kdf(&z, klen);
    let inner = sm3_parts(&[&b32(&xv), za_init, zb_resp, &b32(&ra.0), &b32(&ra.1), &b32(&rb.0), &b32(&rb.1)]);
    let s_b = sm3_parts(&[&[0x02], &b32(&yv), &inner]);
    let s_a = sm3_parts(&[&[0x03], &b32(&yv), &inner]);
    Some(ExchOut { key, s_b, s_a, shared: (xv, yv) })
}

// ---------------------------------------------------------------- bridge to the library's representation

/// Library field elements are Montgomery residues (v * 2^256 mod p) in four little-endian u64 limbs.
pub fn to_limbs(x: &BigUint) -> [u64; 4] {
    let mut a = [0u64; 4];
    for (i, d) in x.to_u64_digits().iter().enumerate() {
        a[i] = *d;
    }
    a
}

pub fn from_limbs(a: &[u64; 4]) -> BigUint {
    let mut v = BigUint::zero();
    for i in (0..4).rev() {
        v = (v << 64) + a[i];
    }
    v
}

pub fn to_mont_p(x: &BigUint) -> [u64; 4] {
    let c = curve();
    to_limbs(&((x * &c.r_p) % &c.p))
}

pub fn from_mont_p(a: &[u64; 4]) -> BigUint {
    let c = curve();
    (from_limbs(a) * &c.r_p_inv) % &c.p
}

/// Jacobian (X, Y, Z) in Montgomery form for an affine point and a chosen non-zero Z = lambda.
pub fn to_lib_point(pt: &(BigUint, BigUint), lambda: &BigUint) -> gm_sm2::p256_ecc::Point {
    let c = curve();
    let l2 = (lambda * lambda) % &c.p;
    let l3 = (&l2 * lambda) % &c.p;
    gm_sm2::p256_ecc::Point {
        x: to_mont_p(&((&pt.0 * &l2) % &c.p)),
        y: to_mont_p(&((&pt.1 * &l3) % &c.p)),
        z: to_mont_p(&(lambda % &c.p)),
    }
}

/// Affine value of a library point computed by the reference (not by the library's own conversion).
pub fn from_lib_point(pt: &gm_sm2::p256_ecc::Point) -> Pt {
    let c = curve();
    let z = from_mont_p(&pt.z);
    if z.is_zero() {
        return None;
    }
    let zi = z.modinv(&c.p).unwrap();
    let zi2 = (&zi * &zi) % &c.p;
    let zi3 = (&zi2 * &zi) % &c.p;
    Some(((from_mont_p(&pt.x) * zi2) % &c.p, (from_mont_p(&pt.y) * zi3) % &c.p))
}

pub fn selftest() -> Vec<(String, bool)> {
    let c = curve();
    let mut r = vec![];
    r.push(("sm2 G on curve, [n]G = O".to_string(), on_curve(&c.gx, &c.gy) && mul(&c.n, &g()).is_none()));
    // GM/T 0003.5 signature example
    let id = b"1234567812345678";
    let d = hexn("3945208F7B2144B13F36E38AC6D39F95889393692860B51A42FB81EF4DF7C5B8");
    let k = hexn("59276E27D506861A16680F3AD9C02DCCEF3CC1FA3CDBE4CE6D54B80DEAC1BC21");
    let pk = mul(&d, &g()).unwrap();
    r.push((
        "GM/T 0003.5 public key".to_string(),
        hex::encode_upper(b32(&pk.0)) == "09F9DF311E5421A150DD7D161E4BC5C672179FAD1833FC076BB08FF356F35020"
            && hex::encode_upper(b32(&pk.1)) == "CCEA490CE26775A52DC6EA718CC1AA600AED05FBF35E084A6632F6072DA9AD13",
    ));
    let sg = sign(&d, id, b"message digest", &k);
    let okk = match &sg {
        Some((rr, ss)) => {
            hex::encode_upper(rr) == "F5A03B0648D2C4630EEAC513E1BB81A15944DA3827D5B74143AC7EACEEE720B3"
                && hex::encode_upper(ss) == "B1B6AA29DF212FD8763182BC0D421CA1BB9038FD1F7F42D4840B69C485BBC1AA"
        }
        None => false,
    };
    r.push(("GM/T 0003.5 signature example (r,s)".to_string(), okk));
    if let Some((rr, ss)) = sg {
        let mut sig = rr.to_vec();
        sig.extend_from_slice(&ss);
        r.push(("reference verifies the Annex signature, recovers k".to_string(), verify(&pk, id, b"message digest", &sig) && recover_nonce(&d, &sig) == k));
    }
    // encryption example
    let ct = encrypt(&pk, b"encryption standard", &k, Order::C1C3C2, false);
    let oke = match &ct {
        Some(ct) => {
            hex::encode_upper(&ct[1..33]) == "04EBFC718E8D1798620432268E77FEB6415E2EDE0E073C0F4F640ECD2E149A73"
                && hex::encode_upper(&ct[65..97]) == "59983C18F809E262923C53AEC295D30383B54E39D609D160AFCB1908D0BD8766"
                && hex::encode_upper(&ct[97..]) == "21886CA989CA9C7D58087307CA93092D651EFA"
                && decrypt(&d, ct, Order::C1C3C2, false).as_deref() == Some(&b"encryption standard"[..])
        }
        None => false,
    };
    r.push(("GM/T 0003.5 encryption example (C1,C3,C2) and decryption".to_string(), oke));
    // key agreement example
    let da = hexn("81EB26E941BB5AF16DF116495F90695272AE2CD63D6C4AE1678418BE48230029");
    let db = hexn("785129917D45A9EA5437A59356B82338EAADDA6CEB199088F14AE10DEFA229B5");
    let ra = hexn("D4DE15474DB74D06491C440D305E012400990F3E390C7E87153C12DB2EA60BB3");
    let rb = hexn("7E07124814B309489125EAED101113164EBF0F3458C5BD88335C1F9D596243D6");
    let pa = mul(&da, &g()).unwrap();
    let pb = mul(&db, &g()).unwrap();
    let (zza, zzb) = (za(id, &pa), za(id, &pb));
    let rap = mul(&ra, &g()).unwrap();
    let rbp = mul(&rb, &g()).unwrap();
    let ob = exchange(&db, &rb, &rbp, &pa, &rap, &zza, &zzb, false, 16);
    let oa = exchange(&da, &ra, &rap, &pb, &rbp, &zza, &zzb, true, 16);
    let okx = match (&oa, &ob) {
        (Some(a), Some(b)) => {
            a.key == b.key
                && hex::encode_upper(&a.key) == "6C89347354DE2484C60B4AB1FDE4C6E5"
                && hex::encode_upper(a.s_b) == "D3A0FE15DEE185CEAE907A6B595CC32A266ED7B3367E9983A896DC32FA20F8EB"
                && hex::encode_upper(a.s_a) == "18C7894B3816DF16CF07B05C5EC0BEF5D655D58F779CC1B400A4F3884644DB88"
                && a.s_b == b.s_b
                && a.s_a == b.s_a
        }
        _ => false,
    };
    r.push(("GM/T 0003.5 key agreement example (K, S_B, S_A)".to_string(), okx));
    // projective scalar multiplication == affine double-and-add (also on an off-curve point: a-only formulas)
    let mut okm = true;
    for (i, kk) in [BigUint::one(), BigUint::from(2u32), BigUint::from(3u32), &c.n - 1u32, c.n.clone(), &c.n + 26u32, k.clone(), d.clone()].iter().enumerate() {
        let base = if i % 2 == 0 { g() } else { Some(pk.clone()) };
        okm &= mul(kk, &base) == mul_affine(kk, &base);
    }
    let off = Some((c.gx.clone(), (&c.gy + 1u32) % &c.p));
    okm &= mul(&k, &off) == mul_affine(&k, &off);
    r.push(("projective scalar multiplication == affine double-and-add".to_string(), okm));
    // point codec
    let enc = encode(&pk, true);
    r.push(("SEC1 compressed round trip".to_string(), decode(&enc) == Some(pk.clone()) && decode(&encode(&pk, false)) == Some(pk.clone())));
    // Montgomery bridge
    let lp = to_lib_point(&pk, &hexn("1234567"));
    r.push(("bridge to/from library representation".to_string(), from_lib_point(&lp) == Some(pk)));
    r
}

// ---------------------------------------------------------------- crafted curve points
/// Roots in F_p of X^3 + c1 X + c0 when there is exactly ONE (None when there are zero or three roots):
/// g = gcd(X^p - X, f) computed in F_p[X]/(f).
pub fn cubic_single_root(c1: &BigUint, c0: &BigUint) -> Option<BigUint> {
    let p = &curve().p;
    let neg = |v: &BigUint| (p - (v % p)) % p;
    // multiplication in F_p[X]/(X^3 + c1 X + c0); elements [e0, e1, e2]
    let mul = |a: &[BigUint; 3], b: &[BigUint; 3]| -> [BigUint; 3] {
        let mut t = vec![BigUint::zero(); 5];
        for i in 0..3 {
            for j in 0..3 {
                t[i + j] = (&t[i + j] + &a[i] * &b[j]) % p;
            }
        }
        // X^4 = -c1 X^2 - c0 X ; X^3 = -c1 X - c0
        let t4 = t[4].clone();
        t[2] = (&t[2] + &t4 * neg(c1)) % p;
        t[1] = (&t[1] + &t4 * neg(c0)) % p;
        let t3 = t[3].clone();
        t[1] = (&t[1] + &t3 * neg(c1)) % p;
        t[0] = (&t[0] + &t3 * neg(c0)) % p;
        [t[0].clone(), t[1].clone(), t[2].clone()]
    };
    let x: [BigUint; 3] = [BigUint::zero(), BigUint::one(), BigUint::zero()];
    let mut acc: [BigUint; 3] = [BigUint::one(), BigUint::zero(), BigUint::zero()];
    for i in (0..p.bits()).rev() {
        acc = mul(&acc, &acc);
        if p.bit(i) {
            acc = mul(&acc, &x);
        }
    }
    // h = X^p - X (degree <= 2), f = X^3 + c1 X + c0
    let mut h: Vec<BigUint> = vec![acc[0].clone(), (&acc[1] + p - 1u32) % p, acc[2].clone()];
    let mut f: Vec<BigUint> = vec![c0 % p, c1 % p, BigUint::zero(), BigUint::one()];
    let trim = |v: &mut Vec<BigUint>| {
        while v.last().map(|c| c.is_zero()).unwrap_or(false) {
            v.pop();
        }
    };
    trim(&mut h);
    // Euclid
    while !h.is_empty() {
        // f = f mod h
        let lead_inv = h.last().unwrap().modinv(p).unwrap();
        while f.len() >= h.len() {
            let k = f.len() - h.len();
            let q = (f.last().unwrap() * &lead_inv) % p;
            for i in 0..h.len() {
                let s = (&q * &h[i]) % p;
                f[i + k] = (&f[i + k] + p - s) % p;
            }
            trim(&mut f);
            if f.is_empty() {
                break;
            }
        }
        std::mem::swap(&mut f, &mut h);
    }
    // gcd is f
    if f.len() == 2 {
        let inv = f[1].modinv(p).unwrap();
        Some((neg(&f[0]) * inv) % p)
    } else {
        None
    }
}

/// curve point with the given x, if x^3 + ax + b is a square
pub fn point_from_x(x: &BigUint) -> Option<(BigUint, BigUint)> {
    let c = curve();
    let rhs = (x * x * x + &c.a * x + &c.b) % &c.p;
    sqrt_p(&rhs).map(|y| (x.clone(), y))
}

/// curve point whose x^2 has the given Montgomery representation (x^2 * 2^256 mod p = v)
pub fn point_with_mont_x2(v: &[u64; 4]) -> Option<(BigUint, BigUint)> {
    let c = curve();
    if from_limbs(v) >= c.p {
        return None;
    }
    let x = sqrt_p(&from_mont_p(v))?;
    point_from_x(&x)
}

/// curve point whose x^3 + ax has the given Montgomery representation
pub fn point_with_mont_x3ax(v: &[u64; 4]) -> Option<(BigUint, BigUint)> {
    let c = curve();
    if from_limbs(v) >= c.p {
        return None;
    }
    let w = from_mont_p(v);
    let y2 = (&w + &c.b) % &c.p;
    let y = sqrt_p(&y2)?;
    let x = cubic_single_root(&c.a, &((&c.p - &w) % &c.p))?;
    Some((x, y))
}
