//! Reference SM3 (GB/T 32905-2016), written from the standard: streaming over a 64-byte
//! buffer (no padded copy of the message), table-free, explicit 68/64-word expansion.
pub struct Sm3 {
    v: [u32; 8],
    buf: [u8; 64],
    fill: usize,
    total: u64, // bytes
}

const IV: [u32; 8] = [
    0x7380166f, 0x4914b2b9, 0x172442d7, 0xda8a0600, 0xa96f30bc, 0x163138aa, 0xe38dee4d, 0xb0fb0e4e,
];

fn compress(v: &mut [u32; 8], block: &[u8]) {
    let mut w = [0u32; 68];
    for (j, c) in block.chunks(4).enumerate().take(16) {
        w[j] = u32::from_be_bytes([c[0], c[1], c[2], c[3]]);
    }
    for j in 16..68 {
        let x = w[j - 16] ^ w[j - 9] ^ w[j - 3].rotate_left(15);
        let p1 = x ^ x.rotate_left(15) ^ x.rotate_left(23);
        w[j] = p1 ^ w[j - 13].rotate_left(7) ^ w[j - 6];
    }
    let [mut a, mut b, mut c, mut d, mut e, mut f, mut g, mut h] = *v;
    for j in 0..64usize {
        let tj: u32 = if j < 16 { 0x79cc4519 } else { 0x7a879d8a };
        let a12 = a.rotate_left(12);
        let ss1 = a12.wrapping_add(e).wrapping_add(tj.rotate_left((j % 32) as u32)).rotate_left(7);
        let ss2 = ss1 ^ a12;
        let (ffv, ggv) = if j < 16 {
            (a ^ b ^ c, e ^ f ^ g)
        } else {
            ((a & b) | (a & c) | (b & c), (e & f) | (!e & g))
        };
        let tt1 = ffv.wrapping_add(d).wrapping_add(ss2).wrapping_add(w[j] ^ w[j + 4]);
        let tt2 = ggv.wrapping_add(h).wrapping_add(ss1).wrapping_add(w[j]);
        d = c;
        c = b.rotate_left(9);
        b = a;
        a = tt1;
        h = g;
        g = f.rotate_left(19);
        f = e;
        e = tt2 ^ tt2.rotate_left(9) ^ tt2.rotate_left(17);
    }
    let n = [a, b, c, d, e, f, g, h];
    for i in 0..8 {
        v[i] ^= n[i];
    }
}

impl Sm3 {
    pub fn new() -> Sm3 {
        Sm3 { v: IV, buf: [0; 64], fill: 0, total: 0 }
    }
    pub fn update(&mut self, mut data: &[u8]) {
        self.total = self.total.wrapping_add(data.len() as u64);
        if self.fill > 0 {
            let take = (64 - self.fill).min(data.len());
            self.buf[self.fill..self.fill + take].copy_from_slice(&data[..take]);
            self.fill += take;
            data = &data[take..];
            if self.fill == 64 {
                let b = self.buf;
                compress(&mut self.v, &b);
                self.fill = 0;
            }
        }
        while data.len() >= 64 {
            compress(&mut self.v, &data[..64]);
            data = &data[64..];
        }
        if !data.is_empty() {
            self.buf[..data.len()].copy_from_slice(data);
            self.fill = data.len();
        }
    }
    pub fn finish(mut self) -> [u8; 32] {
        let bits = self.total.wrapping_mul(8);
        let mut tail = [0u8; 128];
        tail[..self.fill].copy_from_slice(&self.buf[..self.fill]);
        tail[self.fill] = 0x80;
        let n = if self.fill < 56 { 64 } else { 128 };
        tail[n - 8..n].copy_from_slice(&bits.to_be_bytes());
        compress(&mut self.v, &tail[..64]);
        if n == 128 {
            compress(&mut self.v, &tail[64..128]);
        }
        let mut out = [0u8; 32];
        for i in 0..8 {
            out[i * 4..i * 4 + 4].copy_from_slice(&self.v[i].to_be_bytes());
        }
        out
    }
}

pub fn sm3(m: &[u8]) -> [u8; 32] {
    let mut h = Sm3::new();
    h.update(m);
    h.finish()
}

pub fn sm3_parts(parts: &[&[u8]]) -> [u8; 32] {
    let mut h = Sm3::new();
    for p in parts {
        h.update(p);
    }
    h.finish()
}

/// KDF of GB/T 32918.4 / GM/T 0044: first klen bytes of SM3(Z||1) || SM3(Z||2) || ...
pub fn kdf(z: &[u8], klen: usize) -> Vec<u8> {
    let mut out = Vec::with_capacity(klen + 32);
    let mut ct: u32 = 1;
    while out.len() < klen {
        out.extend_from_slice(&sm3_parts(&[z, &ct.to_be_bytes()]));
        ct += 1;
    }
    out.truncate(klen);
    out
}

pub fn selftest() -> Vec<(String, bool)> {
    let mut r = vec![];
    r.push((
        "sm3(abc)".to_string(),
        hex::encode(sm3(b"abc")) == "66c7f0f462eeedd9d1f2d46bdc10e4e24167c4875cf2f7a2297da02b8f4ba8e0",
    ));
    let m: Vec<u8> = b"abcd".iter().cycle().take(64).cloned().collect();
    r.push((
        "sm3(abcd*16)".to_string(),
        hex::encode(sm3(&m)) == "debe9ff92275b8a138604889c18e5a4d6fdb70e5387e5765293dcba39c0c5732",
    ));
    // streaming split must not matter
    let mut h = Sm3::new();
    h.update(&m[..7]);
    h.update(&m[7..64]);
    r.push(("sm3 streaming split".to_string(), h.finish() == sm3(&m)));
    r
}

/// HMAC-SM3 (RFC 2104 construction, 64-byte block)
pub fn hmac(key: &[u8], data: &[u8]) -> [u8; 32] {
    let mut k = [0u8; 64];
    if key.len() > 64 {
        k[..32].copy_from_slice(&sm3(key));
    } else {
        k[..key.len()].copy_from_slice(key);
    }
    let ipad: Vec<u8> = k.iter().map(|b| b ^ 0x36).collect();
    let opad: Vec<u8> = k.iter().map(|b| b ^ 0x5c).collect();
    let inner = sm3_parts(&[&ipad, data]);
    sm3_parts(&[&opad, &inner])
}
