//! Reference ZUC-128 (GM/T 0001-2012 / ETSI-SAGE v1.6), 128-EEA3 and 128-EIA3.
//! Structured differently from the library: 31-bit arithmetic through u64 `%` (2^31-1) with the
//! literal "if 0 then 2^31-1" rule, S1 computed as M*inv(x)+0x55 over GF(2^8)/(x^8+x^7+x^3+x+1),
//! bit-serial EIA3 straight from the specification.
use std::sync::OnceLock;

include!("zuc_s0.rs");

const D: [u32; 16] = [
    0x44D7, 0x26BC, 0x626B, 0x135E, 0x5789, 0x35E2, 0x7135, 0x09AF, 0x4D78, 0x2F13, 0x6BC4, 0x1AF1, 0x5E26, 0x3C4D,
    0x789A, 0x47AC,
];

const P31: u64 = 0x7FFF_FFFF;

fn g8mul(mut a: u32, mut b: u32) -> u32 {
    let mut r = 0;
    while b != 0 {
        if b & 1 != 0 {
            r ^= a;
        }
        a <<= 1;
        if a & 0x100 != 0 {
            a ^= 0x18B;
        }
        b >>= 1;
    }
    r
}

pub fn s1() -> &'static [u8; 256] {
    static S: OnceLock<[u8; 256]> = OnceLock::new();
    S.get_or_init(|| {
        const COLS: [u8; 8] = [0x97, 0x3e, 0x6d, 0xcb, 0xee, 0xdd, 0xbb, 0x77];
        let mut t = [0u8; 256];
        for x in 0..256u32 {
            let mut inv = 0u32;
            if x != 0 {
                inv = 1;
                for _ in 0..254 {
                    inv = g8mul(inv, x);
                }
            }
            let mut y = 0x55u8;
            for i in 0..8 {
                if inv >> i & 1 == 1 {
                    y ^= COLS[i];
                }
            }
            t[x as usize] = y;
        }
        t
    })
}

fn mulpow2(x: u32, k: u32) -> u32 {
    // x * 2^k mod (2^31 - 1), canonical representative with 0 written as 2^31-1 never needed here
    (((x as u64) << k) % P31) as u32
}

pub struct Zuc {
    s: [u32; 16],
    r1: u32,
    r2: u32,
    /// number of times the LFSR feedback was congruent to 0 (the "replace by 2^31-1" rule),
    /// in initialisation mode and in work mode
    pub zero_feedback_init: u32,
    pub zero_feedback_work: u32,
}

impl Zuc {
    pub fn new(key: &[u8; 16], iv: &[u8; 16]) -> Zuc {
        let mut s = [0u32; 16];
        for i in 0..16 {
            s[i] = ((key[i] as u32) << 23) | (D[i] << 8) | iv[i] as u32;
        }
        let mut z = Zuc { s, r1: 0, r2: 0, zero_feedback_init: 0, zero_feedback_work: 0 };
        for _ in 0..32 {
            let x = z.bitreorg();
            let w = z.f(x[0], x[1], x[2]);
            z.lfsr(Some(w >> 1));
        }
        // one discarded round in work mode
        let x = z.bitreorg();
        let _ = z.f(x[0], x[1], x[2]);
        z.lfsr(None);
        z
    }
    /// start from an arbitrary register state (cells must be in [1, 2^31-1])
    pub fn from_state(s: [u32; 16], r1: u32, r2: u32) -> Zuc {
        Zuc { s, r1, r2, zero_feedback_init: 0, zero_feedback_work: 0 }
    }
    pub fn state(&self) -> ([u32; 16], u32, u32) {
        (self.s, self.r1, self.r2)
    }
    /// one LFSR step: initialisation mode with Some(u), work mode with None
    pub fn lfsr_step(&mut self, u: Option<u32>) {
        self.lfsr(u)
    }
    /// BitReconstruction followed by F; returns (W, X0..X3)
    pub fn br_f(&mut self) -> (u32, [u32; 4]) {
        let x = self.bitreorg();
        let w = self.f(x[0], x[1], x[2]);
        (w, x)
    }
    fn bitreorg(&self) -> [u32; 4] {
        let h = |v: u32| (v >> 15) & 0xFFFF; // high 16 bits of a 31-bit cell
        let l = |v: u32| v & 0xFFFF;
        [
            (h(self.s[15]) << 16) | l(self.s[14]),
            (l(self.s[11]) << 16) | h(self.s[9]),
            (l(self.s[7]) << 16) | h(self.s[5]),
            (l(self.s[2]) << 16) | h(self.s[0]),
        ]
    }
    fn f(&mut self, x0: u32, x1: u32, x2: u32) -> u32 {
        let w = (x0 ^ self.r1).wrapping_add(self.r2);
        let w1 = self.r1.wrapping_add(x1);
        let w2 = self.r2 ^ x2;
        let a = (w1 << 16) | (w2 >> 16);
        let b = (w2 << 16) | (w1 >> 16);
        let l1 = a ^ a.rotate_left(2) ^ a.rotate_left(10) ^ a.rotate_left(18) ^ a.rotate_left(24);
        let l2 = b ^ b.rotate_left(8) ^ b.rotate_left(14) ^ b.rotate_left(22) ^ b.rotate_left(30);
        let sb = |v: u32| -> u32 {
            let t = v.to_be_bytes();
            u32::from_be_bytes([S0[t[0] as usize], s1()[t[1] as usize], S0[t[2] as usize], s1()[t[3] as usize]])
        };
        self.r1 = sb(l1);
        self.r2 = sb(l2);
        w
    }
    fn lfsr(&mut self, u: Option<u32>) {
        let s = &self.s;
        let mut v: u64 = mulpow2(s[15], 15) as u64
            + mulpow2(s[13], 17) as u64
            + mulpow2(s[10], 21) as u64
            + mulpow2(s[4], 20) as u64
            + mulpow2(s[0], 8) as u64
            + s[0] as u64;
        if let Some(u) = u {
            v += u as u64;
        }
        let mut s16 = (v % P31) as u32;
        if s16 == 0 {
            s16 = P31 as u32;
            if u.is_some() {
                self.zero_feedback_init += 1;
            } else {
                self.zero_feedback_work += 1;
            }
        }
        for i in 0..15 {
            self.s[i] = self.s[i + 1];
        }
        self.s[15] = s16;
    }
    pub fn word(&mut self) -> u32 {
        let x = self.bitreorg();
        let z = self.f(x[0], x[1], x[2]) ^ x[3];
        self.lfsr(None);
        z
    }
    pub fn words(&mut self, n: usize) -> Vec<u32> {
        (0..n).map(|_| self.word()).collect()
    }
}

pub fn eea3(ck: &[u8; 16], count: u32, bearer: u32, direction: u32, length: u32, msg: &[u32]) -> Vec<u32> {
    let mut iv = [0u8; 16];
    iv[..4].copy_from_slice(&count.to_be_bytes());
    iv[4] = (((bearer & 0x1f) << 3) | ((direction & 1) << 2)) as u8;
    let (a, b) = iv.split_at_mut(8);
    b.copy_from_slice(a);
    let l = ((length as u64 + 31) / 32) as usize;
    let mut z = Zuc::new(ck, &iv);
    let mut out: Vec<u32> = (0..l).map(|i| msg[i] ^ z.word()).collect();
    let rem = length % 32;
    if rem != 0 {
        out[l - 1] &= !0u32 << (32 - rem);
    }
    out
}

pub fn eia3(ik: &[u8; 16], count: u32, bearer: u32, direction: u32, length: u32, msg: &[u32]) -> u32 {
    let mut iv = [0u8; 16];
    iv[..4].copy_from_slice(&count.to_be_bytes());
    iv[4] = ((bearer & 0x1f) << 3) as u8;
    iv[8] = iv[0] ^ (((direction & 1) << 7) as u8);
    iv[9] = iv[1];
    iv[10] = iv[2];
    iv[11] = iv[3];
    iv[12] = iv[4];
    iv[13] = iv[5];
    iv[14] = iv[6] ^ (((direction & 1) << 7) as u8);
    iv[15] = iv[7];
    let l = ((length as u64 + 31) / 32) as usize + 2;
    let mut z = Zuc::new(ik, &iv);
    let ks = z.words(l);
    // keystream as a bit string; z_i = bits i..i+31
    let bit = |i: u64| -> u32 { (ks[(i / 32) as usize] >> (31 - (i % 32))) & 1 };
    let word_at = |i: u64| -> u32 {
        let mut w = 0u32;
        for j in 0..32 {
            w = (w << 1) | bit(i + j);
        }
        w
    };
    let mut t = 0u32;
    for i in 0..length as u64 {
        if (msg[(i / 32) as usize] >> (31 - (i % 32))) & 1 == 1 {
            t ^= word_at(i);
        }
    }
    t ^= word_at(length as u64);
    t ^ ks[l - 1]
}

pub fn selftest() -> Vec<(String, bool)> {
    let mut r = vec![];
    let kat = |k: [u8; 16], iv: [u8; 16], z1: u32, z2: u32| -> bool {
        let mut z = Zuc::new(&k, &iv);
        z.word() == z1 && z.word() == z2
    };
    r.push(("zuc vector 1 (zero)".into(), kat([0; 16], [0; 16], 0x27bede74, 0x018082da)));
    r.push(("zuc vector 2 (ff)".into(), kat([0xff; 16], [0xff; 16], 0x0657cfa0, 0x7096398b)));
    let k3 = [0x3d, 0x4c, 0x4b, 0xe9, 0x6a, 0x82, 0xfd, 0xae, 0xb5, 0x8f, 0x64, 0x1d, 0xb1, 0x7b, 0x45, 0x5b];
    let i3 = [0x84, 0x31, 0x9a, 0xa8, 0xde, 0x69, 0x15, 0xca, 0x1f, 0x6b, 0xda, 0x6b, 0xfb, 0xd8, 0xc7, 0x66];
    r.push(("zuc vector 3 (random)".into(), kat(k3, i3, 0x14f1c272, 0x3279c419)));
    let k4 = [0x4d, 0x32, 0x0b, 0xfa, 0xd4, 0xc2, 0x85, 0xbf, 0xd6, 0xb8, 0xbd, 0x00, 0xf3, 0x9d, 0x8b, 0x41];
    let i4 = [0x52, 0x95, 0x9d, 0xab, 0xa0, 0xbf, 0x17, 0x6e, 0xce, 0x2d, 0xc3, 0x15, 0x04, 0x9e, 0xb5, 0x74];
    let mut z = Zuc::new(&k4, &i4);
    let w = z.words(2000);
    r.push(("zuc vector 4 (z1,z2,z2000)".into(), w[0] == 0xed4400e7 && w[1] == 0x0633e5c5 && w[1999] == 0x7a574cdb));
    // EEA3 test set 1 (also in the repository's tests)
    let ck = [0x17, 0x3d, 0x14, 0xba, 0x50, 0x03, 0x73, 0x1d, 0x7a, 0x60, 0x04, 0x94, 0x70, 0xf0, 0x0a, 0x29];
    let ibs = [0x6cf65340u32, 0x735552ab, 0x0c9752fa, 0x6f9025fe, 0x0bd675d9, 0x005875b2, 0];
    let obs = [0xa6c85fc6u32, 0x6afb8533, 0xaafc2518, 0xdfe78494, 0x0ee1e4b0, 0x30238cc8, 0];
    r.push(("eea3 test set 1".into(), eea3(&ck, 0x66035492, 0xf, 0, 0xc1, &ibs) == obs));
    // EIA3 test sets 1, 2 and the repository's vector (test set 4 of the 3GPP document)
    r.push(("eia3 test set 1".into(), eia3(&[0; 16], 0, 0, 0, 1, &[0]) == 0xc8a9595e));
    let ik2 = [0x47, 0x05, 0x41, 0x25, 0x56, 0x1e, 0xb2, 0xdd, 0xa9, 0x40, 0x59, 0xda, 0x05, 0x09, 0x78, 0x50];
    r.push(("eia3 test set 2".into(), eia3(&ik2, 0x561eb2dd, 0x14, 0, 90, &[0, 0, 0]) == 0x6719a088));
    let ik = [0xc9, 0xe6, 0xce, 0xc4, 0x60, 0x7c, 0x72, 0xdb, 0x00, 0x0a, 0xef, 0xa8, 0x83, 0x85, 0xab, 0x0a];
    let m = [
        0x983b41d4u32, 0x7d780c9e, 0x1ad11d7e, 0xb70391b1, 0xde0b35da, 0x2dc62f83, 0xe7b78d63, 0x06ca0ea0, 0x7e941b7b,
        0xe91348f9, 0xfcb170e2, 0x217fecd9, 0x7f9f68ad, 0xb16e5d7d, 0x21e569d2, 0x80ed775c, 0xebde3f40, 0x93c53881, 0,
    ];
    r.push(("eia3 test set 3 (577 bits)".into(), eia3(&ik, 0xa94059da, 0x0a, 1, 0x0241, &m) == 0xfae8ff0b));
    r
}
