//! Reference SM9 (GM/T 0044.1-5): textbook formulation, deliberately unlike the library.
//! Fp2 = Fp[u]/(u^2+2); Fp12 = Fp[w]/(w^12+2) as 12 coefficients with schoolbook multiplication
//! (u = w^6, v = w^3); Frobenius = coefficient scaling by c^i, c = (-2)^((p-1)/12); groups in affine
//! coordinates with double-and-add; R-ate pairing as the generic Miller loop for 6t+2 on the twist
//! y^2 = x^3 + 5u with untwist (x', y') -> (x' w^-2, y' w^-3) and the final exponent (p^12-1)/N.
use super::sm3::{kdf, sm3_parts};
use num_bigint::BigUint;
use num_traits::{One, Zero};
use std::sync::OnceLock;

pub struct Params {
    pub p: BigUint,
    pub n: BigUint,
    pub t: BigUint,
    pub p1: (BigUint, BigUint),
    pub p2: (F2, F2),
    /// c = (-2)^((p-1)/12) = w^(p-1)
    pub c: BigUint,
    pub c_pows: Vec<BigUint>,
    pub r_p: BigUint,
    pub r_p_inv: BigUint,
    /// (p^4 - p^2 + 1) / N
    pub hard_exp: BigUint,
}

pub fn hexn(s: &str) -> BigUint {
    BigUint::parse_bytes(s.as_bytes(), 16).unwrap()
}

pub type F2 = (BigUint, BigUint); // c0 + c1 u

pub fn params() -> &'static Params {
    static P: OnceLock<Params> = OnceLock::new();
    P.get_or_init(|| {
        let p = hexn("B640000002A3A6F1D603AB4FF58EC74521F2934B1A7AEEDBE56F9B27E351457D");
        let n = hexn("B640000002A3A6F1D603AB4FF58EC74449F2934B18EA8BEEE56EE19CD69ECF25");
        let t = hexn("600000000058F98A");
        // the curve family: p = 36t^4+36t^3+24t^2+6t+1, N = 36t^4+36t^3+18t^2+6t+1
        let t2 = &t * &t;
        let t3 = &t2 * &t;
        let t4 = &t3 * &t;
        assert_eq!(p, &t4 * 36u32 + &t3 * 36u32 + &t2 * 24u32 + &t * 6u32 + 1u32);
        assert_eq!(n, &t4 * 36u32 + &t3 * 36u32 + &t2 * 18u32 + &t * 6u32 + 1u32);
        let minus2 = &p - 2u32;
        let c = minus2.modpow(&((&p - 1u32) / 12u32), &p);
        let mut c_pows = vec![BigUint::one()];
        for i in 1..12 {
            let nx = (&c_pows[i - 1] * &c) % &p;
            c_pows.push(nx);
        }
        let r: BigUint = BigUint::one() << 256;
        let r_p: BigUint = &r % &p;
        let p2v = &p * &p;
        let p4 = &p2v * &p2v;
        let hard = (&p4 - &p2v + 1u32) / &n;
        assert!(((&p4 - &p2v + 1u32) % &n).is_zero());
        Params {
            p1: (
                hexn("93DE051D62BF718FF5ED0704487D01D6E1E4086909DC3280E8C4E4817C66DDDD"),
                hexn("21FE8DDA4F21E607631065125C395BBC1C1C00CBFA6024350C464CD70A3EA616"),
            ),
            p2: (
                (
                    hexn("3722755292130B08D2AAB97FD34EC120EE265948D19C17ABF9B7213BAF82D65B"),
                    hexn("85AEF3D078640C98597B6027B441A01FF1DD2C190F5E93C454806C11D8806141"),
                ),
                (
                    hexn("A7CF28D519BE3DA65F3170153D278FF247EFBA98A71A08116215BBA5C999A7C7"),
                    hexn("17509B092E845C1266BA0D262CBEE6ED0736A96FA347C8BD856DC76B84EBEB96"),
                ),
            ),
            r_p_inv: r_p.modinv(&p).unwrap(),
            r_p,
            c,
            c_pows,
            hard_exp: hard,
            t,
            p,
            n,
        }
    })
}

fn sm(a: &BigUint, b: &BigUint) -> BigUint {
    let p = &params().p;
    ((a % p) + p - (b % p)) % p
}

// ---------------------------------------------------------------- Fp2
pub fn f2(a: u32, b: u32) -> F2 {
    (BigUint::from(a), BigUint::from(b))
}
pub fn f2add(a: &F2, b: &F2) -> F2 {
    let p = &params().p;
    ((&a.0 + &b.0) % p, (&a.1 + &b.1) % p)
}
pub fn f2sub(a: &F2, b: &F2) -> F2 {
    (sm(&a.0, &b.0), sm(&a.1, &b.1))
}
pub fn f2neg(a: &F2) -> F2 {
    f2sub(&f2(0, 0), a)
}
pub fn f2mul(a: &F2, b: &F2) -> F2 {
    let p = &params().p;
    // (a0 + a1 u)(b0 + b1 u) = a0b0 - 2 a1b1 + (a0b1 + a1b0) u
    (sm(&(&a.0 * &b.0), &(&a.1 * &b.1 * 2u32)), (&a.0 * &b.1 + &a.1 * &b.0) % p)
}
pub fn f2scal(a: &F2, k: &BigUint) -> F2 {
    let p = &params().p;
    ((&a.0 * k) % p, (&a.1 * k) % p)
}
pub fn f2inv(a: &F2) -> Option<F2> {
    let p = &params().p;
    let d = (&a.0 * &a.0 + &a.1 * &a.1 * 2u32) % p;
    let di = d.modinv(p)?;
    Some(((&a.0 * &di) % p, sm(&BigUint::zero(), &(&a.1 * &di))))
}
pub fn f2conj(a: &F2) -> F2 {
    (a.0.clone(), sm(&BigUint::zero(), &a.1))
}
pub fn f2zero(a: &F2) -> bool {
    a.0.is_zero() && a.1.is_zero()
}
pub fn f2half(a: &F2) -> F2 {
    let p = &params().p;
    let h = BigUint::from(2u32).modinv(p).unwrap();
    f2scal(a, &h)
}

// ---------------------------------------------------------------- G1 (y^2 = x^3 + 5 over Fp), affine
pub type G1 = Option<(BigUint, BigUint)>;

pub fn g1_gen() -> G1 {
    Some(params().p1.clone())
}
pub fn g1_on_curve(x: &BigUint, y: &BigUint) -> bool {
    let p = &params().p;
    x < p && y < p && (y * y) % p == (x * x * x + 5u32) % p
}
pub fn g1_neg(a: &G1) -> G1 {
    a.as_ref().map(|(x, y)| (x.clone(), sm(&BigUint::zero(), y)))
}
pub fn g1_add(a: &G1, b: &G1) -> G1 {
    let p = &params().p;
    let (x1, y1) = match a {
        None => return b.clone(),
        Some(v) => v,
    };
    let (x2, y2) = match b {
        None => return a.clone(),
        Some(v) => v,
    };
    let lam = if x1 == x2 {
        if ((y1 + y2) % p).is_zero() {
            return None;
        }
        (x1 * x1 * 3u32 % p) * (y1 * 2u32 % p).modinv(p).unwrap() % p
    } else {
        sm(y2, y1) * sm(x2, x1).modinv(p).unwrap() % p
    };
    let x3 = sm(&sm(&(&lam * &lam), x1), x2);
    let y3 = sm(&(&lam * sm(x1, &x3)), y1);
    Some((x3, y3))
}
// homogeneous projective (X:Y:Z) double-and-add for y^2 z = x^3 + b z^3 (a = 0), generic over the coordinate
// field through closures; `g1_mul_affine` / `g2_mul_affine` stay the anchors (self-test compares them)
fn pj_mul<F: Clone + PartialEq>(
    k: &BigUint,
    base: &(F, F),
    zero: &F,
    one: &F,
    add: &dyn Fn(&F, &F) -> F,
    sub: &dyn Fn(&F, &F) -> F,
    mulf: &dyn Fn(&F, &F) -> F,
    inv: &dyn Fn(&F) -> F,
) -> Option<(F, F)> {
    let inf = (zero.clone(), one.clone(), zero.clone());
    let two = |x: &F| add(x, x);
    let dbl = |p: &(F, F, F)| -> (F, F, F) {
        if p.2 == *zero || p.1 == *zero {
            return inf.clone();
        }
        let (x1, y1, z1) = p;
        let xx = mulf(x1, x1);
        let w = add(&two(&xx), &xx); // a = 0
        let s = two(&mulf(y1, z1));
        let ss = mulf(&s, &s);
        let sss = mulf(&s, &ss);
        let r = mulf(y1, &s);
        let rr = mulf(&r, &r);
        let xr = add(x1, &r);
        let b = sub(&sub(&mulf(&xr, &xr), &xx), &rr);
        let h = sub(&mulf(&w, &w), &two(&b));
        (mulf(&h, &s), sub(&mulf(&w, &sub(&b, &h)), &two(&rr)), sss)
    };
    let addp = |p1: &(F, F, F), p2: &(F, F, F)| -> (F, F, F) {
        if p1.2 == *zero {
            return p2.clone();
        }
        if p2.2 == *zero {
            return p1.clone();
        }
        let (x1, y1, z1) = p1;
        let (x2, y2, z2) = p2;
        let y1z2 = mulf(y1, z2);
        let x1z2 = mulf(x1, z2);
        let z1z2 = mulf(z1, z2);
        let u = sub(&mulf(y2, z1), &y1z2);
        let v = sub(&mulf(x2, z1), &x1z2);
        if v == *zero {
            return if u == *zero { dbl(p1) } else { inf.clone() };
        }
        let uu = mulf(&u, &u);
        let vv = mulf(&v, &v);
        let vvv = mulf(&v, &vv);
        let r = mulf(&vv, &x1z2);
        let a = sub(&sub(&mulf(&uu, &z1z2), &vvv), &two(&r));
        (mulf(&v, &a), sub(&mulf(&u, &sub(&r, &a)), &mulf(&vvv, &y1z2)), mulf(&vvv, &z1z2))
    };
    let b3 = (base.0.clone(), base.1.clone(), one.clone());
    let mut r = inf.clone();
    for i in (0..k.bits()).rev() {
        r = dbl(&r);
        if k.bit(i) {
            r = addp(&r, &b3);
        }
    }
    if r.2 == *zero {
        return None;
    }
    let zi = inv(&r.2);
    Some((mulf(&r.0, &zi), mulf(&r.1, &zi)))
}

pub fn g1_mul(k: &BigUint, a: &G1) -> G1 {
    let p = params().p.clone();
    let base = a.as_ref()?;
    let (p1, p2, p3, p4) = (p.clone(), p.clone(), p.clone(), p.clone());
    pj_mul(
        k,
        base,
        &BigUint::zero(),
        &BigUint::one(),
        &move |x: &BigUint, y: &BigUint| (x + y) % &p1,
        &move |x: &BigUint, y: &BigUint| ((x % &p2) + &p2 - (y % &p2)) % &p2,
        &move |x: &BigUint, y: &BigUint| (x * y) % &p3,
        &move |x: &BigUint| x.modinv(&p4).unwrap(),
    )
}

pub fn g1_mul_affine(k: &BigUint, a: &G1) -> G1 {
    let mut r: G1 = None;
    for i in (0..k.bits()).rev() {
        r = g1_add(&r, &r);
        if k.bit(i) {
            r = g1_add(&r, a);
        }
    }
    r
}

// ---------------------------------------------------------------- G2 (twist y^2 = x^3 + 5u over Fp2), affine
pub type G2 = Option<(F2, F2)>;

pub fn g2_gen() -> G2 {
    Some(params().p2.clone())
}
pub fn g2_on_curve(x: &F2, y: &F2) -> bool {
    let p = &params().p;
    if x.0 >= *p || x.1 >= *p || y.0 >= *p || y.1 >= *p {
        return false;
    }
    f2mul(y, y) == f2add(&f2mul(&f2mul(x, x), x), &f2(0, 5))
}
pub fn g2_neg(a: &G2) -> G2 {
    a.as_ref().map(|(x, y)| (x.clone(), f2neg(y)))
}
pub fn g2_add(a: &G2, b: &G2) -> G2 {
    let (x1, y1) = match a {
        None => return b.clone(),
        Some(v) => v,
    };
    let (x2, y2) = match b {
        None => return a.clone(),
        Some(v) => v,
    };
    let lam = if x1 == x2 {
        if f2zero(&f2add(y1, y2)) {
            return None;
        }
        f2mul(&f2scal(&f2mul(x1, x1), &BigUint::from(3u32)), &f2inv(&f2scal(y1, &BigUint::from(2u32))).unwrap())
    } else {
        f2mul(&f2sub(y2, y1), &f2inv(&f2sub(x2, x1)).unwrap())
    };
    let x3 = f2sub(&f2sub(&f2mul(&lam, &lam), x1), x2);
    let y3 = f2sub(&f2mul(&lam, &f2sub(x1, &x3)), y1);
    Some((x3, y3))
}
pub fn g2_mul(k: &BigUint, a: &G2) -> G2 {
    let base = a.as_ref()?;
    pj_mul(k, base, &f2(0, 0), &f2(1, 0), &|x: &F2, y: &F2| f2add(x, y), &|x: &F2, y: &F2| f2sub(x, y), &|x: &F2, y: &F2| f2mul(x, y), &|x: &F2| f2inv(x).unwrap())
}

pub fn g2_mul_affine(k: &BigUint, a: &G2) -> G2 {
    let mut r: G2 = None;
    for i in (0..k.bits()).rev() {
        r = g2_add(&r, &r);
        if k.bit(i) {
            r = g2_add(&r, a);
        }
    }
    r
}

// ---------------------------------------------------------------- Fp12 = Fp[w]/(w^12 + 2)
pub type F12 = Vec<BigUint>; // 12 coefficients, index = power of w

pub fn f12one() -> F12 {
    let mut v = vec![BigUint::zero(); 12];
    v[0] = BigUint::one();
    v
}
pub fn f12zero() -> F12 {
    vec![BigUint::zero(); 12]
}
pub fn f12add(a: &F12, b: &F12) -> F12 {
    let p = &params().p;
    (0..12).map(|i| (&a[i] + &b[i]) % p).collect()
}
pub fn f12sub(a: &F12, b: &F12) -> F12 {
    (0..12).map(|i| sm(&a[i], &b[i])).collect()
}
pub fn f12neg(a: &F12) -> F12 {
    f12sub(&f12zero(), a)
}
pub fn f12scal(a: &F12, k: &BigUint) -> F12 {
    let p = &params().p;
    a.iter().map(|x| (x * k) % p).collect()
}
pub fn f12mul(a: &F12, b: &F12) -> F12 {
    let p = &params().p;
    let mut r = vec![BigUint::zero(); 23];
    for i in 0..12 {
        if a[i].is_zero() {
            continue;
        }
        for j in 0..12 {
            if b[j].is_zero() {
                continue;
            }
            r[i + j] += &a[i] * &b[j];
        }
    }
    let mut out = Vec::with_capacity(12);
    for i in 0..12 {
        let lo = &r[i] % p;
        let hi = if i + 12 < 23 { (&r[i + 12] * 2u32) % p } else { BigUint::zero() };
        out.push((lo + p - hi) % p);
    }
    out
}
pub fn f12pow(a: &F12, e: &BigUint) -> F12 {
    let mut r = f12one();
    for i in (0..e.bits()).rev() {
        r = f12mul(&r, &r);
        if e.bit(i) {
            r = f12mul(&r, a);
        }
    }
    r
}
/// p^k-power Frobenius: w^(p^k) = c^k... coefficient i is scaled by c^(i*k) (coefficients are in Fp).
pub fn f12frob(a: &F12, k: usize) -> F12 {
    let pr = params();
    (0..12).map(|i| (&a[i] * &pr.c_pows[(i * k) % 12]) % &pr.p).collect()
}
/// inverse through the norm: a^-1 = (prod_{k=1..11} frob^k(a)) / N(a), N(a) in Fp
pub fn f12inv(a: &F12) -> Option<F12> {
    let p = &params().p;
    let mut prod = f12frob(a, 1);
    for k in 2..12 {
        prod = f12mul(&prod, &f12frob(a, k));
    }
    let nrm = f12mul(&prod, a);
    if nrm[1..].iter().any(|x| !x.is_zero()) {
        return None; // cannot happen for a field element
    }
    let ni = nrm[0].modinv(p)?;
    Some(f12scal(&prod, &ni))
}
/// embedding of an Fp2 element a0 + a1 u (u = w^6)
pub fn f12_from_f2(a: &F2, shift: usize) -> F12 {
    let mut v = f12zero();
    v[shift] = a.0.clone();
    v[shift + 6] = a.1.clone();
    v
}

/// 384-byte encoding used by the standard and the library: coefficients of
/// w^(i + 3j + 6k) for i = 2,1,0; j = 1,0; k = 1,0, each 32 bytes big-endian.
pub fn f12bytes(a: &F12) -> Vec<u8> {
    let mut out = Vec::with_capacity(384);
    for i in [2usize, 1, 0] {
        for j in [1usize, 0] {
            for k in [1usize, 0] {
                out.extend_from_slice(&b32(&a[i + 3 * j + 6 * k]));
            }
        }
    }
    out
}

pub fn b32(x: &BigUint) -> [u8; 32] {
    let v = x.to_bytes_be();
    assert!(v.len() <= 32);
    let mut o = [0u8; 32];
    o[32 - v.len()..].copy_from_slice(&v);
    o
}
pub fn from_b(b: &[u8]) -> BigUint {
    BigUint::from_bytes_be(b)
}

// ---------------------------------------------------------------- pairing
fn line(lam: &F2, t: &(F2, F2), p: &(BigUint, BigUint)) -> F12 {
    // l * w^3 = yP w^3 - (lam xP) w^2 + (lam xT - yT)
    let a = f2scal(lam, &p.0);
    let cc = f2sub(&f2mul(lam, &t.0), &t.1);
    let mut l = f12zero();
    l[0] = cc.0;
    l[6] = cc.1;
    let na = f2neg(&a);
    l[2] = na.0;
    l[8] = na.1;
    l[3] = p.1.clone();
    l
}

/// e(P, Q) for finite P in E(Fp), Q in E'(Fp2); None when a degenerate step occurs (not for points of order N).
pub fn pairing(pt: &(BigUint, BigUint), q: &(F2, F2)) -> Option<F12> {
    let pr = params();
    let a = &pr.t * 6u32 + 2u32;
    let mut f = f12one();
    let mut tt = q.clone();
    let three = BigUint::from(3u32);
    let two = BigUint::from(2u32);
    for i in (0..a.bits() - 1).rev() {
        let lam = f2mul(&f2scal(&f2mul(&tt.0, &tt.0), &three), &f2inv(&f2scal(&tt.1, &two))?);
        let l = line(&lam, &tt, pt);
        tt = g2_add(&Some(tt.clone()), &Some(tt.clone()))?;
        f = f12mul(&f12mul(&f, &f), &l);
        if a.bit(i) {
            let lam = f2mul(&f2sub(&q.1, &tt.1), &f2inv(&f2sub(&q.0, &tt.0))?);
            let l = line(&lam, &tt, pt);
            tt = g2_add(&Some(tt.clone()), &Some(q.clone()))?;
            f = f12mul(&f, &l);
        }
    }
    // Q1 = pi(Q), Q2 = -pi^2(Q), expressed on the twist
    let ci = pr.c.modinv(&pr.p).unwrap();
    let ci2 = (&ci * &ci) % &pr.p;
    let ci3 = (&ci2 * &ci) % &pr.p;
    let ci4 = (&ci2 * &ci2) % &pr.p;
    let q1 = (f2scal(&f2conj(&q.0), &ci2), f2scal(&f2conj(&q.1), &ci3));
    let q2n = (f2scal(&q.0, &ci4), q.1.clone());
    if !g2_on_curve(&q1.0, &q1.1) || !g2_on_curve(&q2n.0, &q2n.1) {
        return None;
    }
    for qq in [q1, q2n] {
        let lam = f2mul(&f2sub(&qq.1, &tt.1), &f2inv(&f2sub(&qq.0, &tt.0))?);
        let l = line(&lam, &tt, pt);
        let nt = g2_add(&Some(tt.clone()), &Some(qq.clone()));
        f = f12mul(&f, &l);
        match nt {
            Some(v) => tt = v,
            None => break,
        }
    }
    Some(final_exp(&f))
}

/// f^((p^12-1)/N) = ((f^(p^6-1))^(p^2+1))^((p^4-p^2+1)/N)
pub fn final_exp(f: &F12) -> F12 {
    let pr = params();
    let fi = f12inv(f).expect("nonzero miller value");
    let g = f12mul(&f12frob(f, 6), &fi);
    let h = f12mul(&f12frob(&g, 2), &g);
    f12pow(&h, &pr.hard_exp)
}

/// the same final exponent by plain square-and-multiply with the full 2800-bit exponent (self-test only)
pub fn final_exp_plain(f: &F12) -> F12 {
    let pr = params();
    let mut p12 = BigUint::one();
    for _ in 0..12 {
        p12 *= &pr.p;
    }
    f12pow(f, &((p12 - 1u32) / &pr.n))
}

// ---------------------------------------------------------------- hash-to-range, KDF, MAC
pub fn hn(prefix: u8, z_parts: &[&[u8]]) -> BigUint {
    let n = &params().n;
    let mut p1: Vec<&[u8]> = vec![];
    let pre = [prefix];
    p1.push(&pre);
    p1.extend_from_slice(z_parts);
    let mut a = p1.clone();
    a.push(&[0, 0, 0, 1]);
    let mut b = p1;
    b.push(&[0, 0, 0, 2]);
    let mut ha = sm3_parts(&a).to_vec();
    ha.extend_from_slice(&sm3_parts(&b));
    from_hash(&ha[..40])
}
/// (int(Ha[0..40]) mod (N-1)) + 1
pub fn from_hash(ha40: &[u8]) -> BigUint {
    let n = &params().n;
    (from_b(&ha40[..40]) % (n - 1u32)) + 1u32
}
pub fn h1(id: &[u8], hid: u8) -> BigUint {
    hn(1, &[id, &[hid]])
}
pub fn h2(msg: &[u8], w: &[u8]) -> BigUint {
    hn(2, &[msg, w])
}
pub fn mac(k2: &[u8], z: &[u8]) -> [u8; 32] {
    sm3_parts(&[z, k2])
}
pub fn pt_bytes(p: &(BigUint, BigUint)) -> Vec<u8> {
    let mut v = b32(&p.0).to_vec();
    v.extend_from_slice(&b32(&p.1));
    v
}

pub const HID_SIGN: u8 = 1;
pub const HID_EXCH: u8 = 2;
pub const HID_ENC: u8 = 3;

// ---------------------------------------------------------------- key extraction
/// t2 = k (H1(ID||hid) + k)^-1 mod N; None when H1 + k = 0 mod N
pub fn extract_scalar(k: &BigUint, id: &[u8], hid: u8) -> Option<BigUint> {
    let n = &params().n;
    let t1 = (h1(id, hid) + k) % n;
    if t1.is_zero() {
        return None;
    }
    Some((k * t1.modinv(n)?) % n)
}
pub fn extract_sign_key(ks: &BigUint, id: &[u8]) -> Option<(BigUint, BigUint)> {
    g1_mul(&extract_scalar(ks, id, HID_SIGN)?, &g1_gen())
}
pub fn extract_enc_key(ke: &BigUint, id: &[u8], hid: u8) -> Option<(F2, F2)> {
    g2_mul(&extract_scalar(ke, id, hid)?, &g2_gen())
}

// ---------------------------------------------------------------- signature (GM/T 0044.2)
/// (h, S) for the given r; None = the standard's retry condition l = 0
pub fn sign(ks: &BigUint, id: &[u8], msg: &[u8], r: &BigUint) -> Option<(BigUint, (BigUint, BigUint))> {
    let pr = params();
    let ppubs = g2_mul(ks, &g2_gen())?;
    let ds = extract_sign_key(ks, id)?;
    let g = pairing(&pr.p1, &ppubs)?;
    let w = f12pow(&g, r);
    let h = h2(msg, &f12bytes(&w));
    let l = (r + &pr.n - &h) % &pr.n;
    if l.is_zero() {
        return None;
    }
    let s = g1_mul(&l, &Some(ds))?;
    Some((h, s))
}

pub fn verify(ppubs: &(F2, F2), id: &[u8], msg: &[u8], h: &BigUint, s: &(BigUint, BigUint)) -> bool {
    let pr = params();
    if h.is_zero() || h >= &pr.n {
        return false;
    }
    if !g1_on_curve(&s.0, &s.1) {
        return false;
    }
    let g = match pairing(&pr.p1, ppubs) {
        Some(g) => g,
        None => return false,
    };
    let t = f12pow(&g, h);
    let hh1 = h1(id, HID_SIGN);
    let pp = match g2_add(&g2_mul(&hh1, &g2_gen()), &Some(ppubs.clone())) {
        Some(p) => p,
        None => return false,
    };
    let u = match pairing(s, &pp) {
        Some(u) => u,
        None => return false,
    };
    let w = f12mul(&u, &t);
    &h2(msg, &f12bytes(&w)) == h
}

// ---------------------------------------------------------------- encryption (GM/T 0044.4, KDF-based stream variant)
/// C1 || C3 || C2 for the given r; None = retry (K1 all zero)
pub fn encrypt(ke: &BigUint, id: &[u8], msg: &[u8], r: &BigUint) -> Option<Vec<u8>> {
    let pr = params();
    let ppube = g1_mul(ke, &g1_gen())?;
    let qb = g1_add(&g1_mul(&h1(id, HID_ENC), &g1_gen()), &Some(ppube.clone()))?;
    let c1 = g1_mul(r, &Some(qb))?;
    let g = pairing(&ppube, &pr.p2)?;
    let w = f12pow(&g, r);
    let mut z = pt_bytes(&c1);
    z.extend_from_slice(&f12bytes(&w));
    z.extend_from_slice(id);
    let k = kdf(&z, msg.len() + 32);
    let (k1, k2) = k.split_at(msg.len());
    if k1.iter().all(|&b| b == 0) {
        return None;
    }
    let c2: Vec<u8> = msg.iter().zip(k1.iter()).map(|(a, b)| a ^ b).collect();
    let c3 = mac(k2, &c2);
    let mut out = vec![0x04];
    out.extend_from_slice(&pt_bytes(&c1));
    out.extend_from_slice(&c3);
    out.extend_from_slice(&c2);
    Some(out)
}

/// None = reject
pub fn decrypt(de: &(F2, F2), id: &[u8], ct: &[u8]) -> Option<Vec<u8>> {
    if ct.len() <= 65 + 32 || ct[0] != 0x04 {
        return None;
    }
    let x = from_b(&ct[1..33]);
    let y = from_b(&ct[33..65]);
    if !g1_on_curve(&x, &y) {
        return None;
    }
    let c3 = &ct[65..97];
    let c2 = &ct[97..];
    let w = pairing(&(x, y), de)?;
    let mut z = ct[1..65].to_vec();
    z.extend_from_slice(&f12bytes(&w));
    z.extend_from_slice(id);
    let k = kdf(&z, c2.len() + 32);
    let (k1, k2) = k.split_at(c2.len());
    if k1.iter().all(|&b| b == 0) {
        return None;
    }
    if mac(k2, c2) != c3 {
        return None;
    }
    Some(c2.iter().zip(k1.iter()).map(|(a, b)| a ^ b).collect())
}

// ---------------------------------------------------------------- key exchange (GM/T 0044.3)
pub fn exch_q(ke: &BigUint, peer_id: &[u8]) -> Option<(BigUint, BigUint)> {
    let ppube = g1_mul(ke, &g1_gen())?;
    g1_add(&g1_mul(&h1(peer_id, HID_EXCH), &g1_gen()), &Some(ppube))
}
pub fn exch_key(ida: &[u8], idb: &[u8], ra: &(BigUint, BigUint), rb: &(BigUint, BigUint), g1: &F12, g2: &F12, g3: &F12, klen: usize) -> Vec<u8> {
    let mut z = ida.to_vec();
    z.extend_from_slice(idb);
    z.extend_from_slice(&pt_bytes(ra));
    z.extend_from_slice(&pt_bytes(rb));
    z.extend_from_slice(&f12bytes(g1));
    z.extend_from_slice(&f12bytes(g2));
    z.extend_from_slice(&f12bytes(g3));
    kdf(&z, klen)
}
/// responder's view: g1 = e(R_A, de_B), g2 = e(Ppub, P2)^rB, g3 = g1^rB
pub fn exch_responder(ke: &BigUint, ida: &[u8], idb: &[u8], ra: &(BigUint, BigUint), r_b: &BigUint, klen: usize) -> Option<((BigUint, BigUint), Vec<u8>)> {
    let pr = params();
    if !g1_on_curve(&ra.0, &ra.1) {
        return None;
    }
    let qa = exch_q(ke, ida)?;
    let rb = g1_mul(r_b, &Some(qa))?;
    let deb = extract_enc_key(ke, idb, HID_EXCH)?;
    let ppube = g1_mul(ke, &g1_gen())?;
    let g1 = pairing(ra, &deb)?;
    let g2 = f12pow(&pairing(&ppube, &pr.p2)?, r_b);
    let g3 = f12pow(&g1, r_b);
    let sk = exch_key(ida, idb, ra, &rb, &g1, &g2, &g3, klen);
    Some((rb, sk))
}
/// initiator's view: g1 = e(Ppub, P2)^rA, g2 = e(R_B, de_A), g3 = g2^rA
pub fn exch_initiator(ke: &BigUint, ida: &[u8], idb: &[u8], r_a: &BigUint, ra: &(BigUint, BigUint), rb: &(BigUint, BigUint), klen: usize) -> Option<Vec<u8>> {
    let pr = params();
    if !g1_on_curve(&rb.0, &rb.1) {
        return None;
    }
    let dea = extract_enc_key(ke, ida, HID_EXCH)?;
    let ppube = g1_mul(ke, &g1_gen())?;
    let g1 = f12pow(&pairing(&ppube, &pr.p2)?, r_a);
    let g2 = pairing(rb, &dea)?;
    let g3 = f12pow(&g2, r_a);
    Some(exch_key(ida, idb, ra, rb, &g1, &g2, &g3, klen))
}

// ---------------------------------------------------------------- bridge to the library's representation
pub fn to_limbs(x: &BigUint) -> [u64; 4] {
    let mut a = [0u64; 4];
    for (i, d) in x.to_u64_digits().iter().enumerate() {
        a[i] = *d;
    }
    a
}
pub fn from_limbs(a: &[u64; 4]) -> BigUint {
    let mut v = BigUint::zero();
    for i in (0..4).rev() {
        v = (v << 64) + a[i];
    }
    v
}
pub fn to_mont(x: &BigUint) -> [u64; 4] {
    let pr = params();
    to_limbs(&((x * &pr.r_p) % &pr.p))
}
pub fn from_mont(a: &[u64; 4]) -> BigUint {
    let pr = params();
    (from_limbs(a) * &pr.r_p_inv) % &pr.p
}
pub fn lib_f2(a: &F2) -> gm_sm9::verif_hooks::Fp2 {
    gm_sm9::verif_hooks::fp2_new([to_mont(&a.0), to_mont(&a.1)])
}
pub fn ref_f2(a: &gm_sm9::verif_hooks::Fp2) -> F2 {
    let p = gm_sm9::verif_hooks::fp2_parts(a);
    (from_mont(&p[0]), from_mont(&p[1]))
}
/// library Fp12 (tower) -> 12 coefficients in powers of w
pub fn ref_f12(a: &gm_sm9::verif_hooks::Fp12) -> F12 {
    let parts = gm_sm9::verif_hooks::fp12_parts(a);
    let mut v = f12zero();
    for i in 0..3 {
        for j in 0..2 {
            for k in 0..2 {
                v[i + 3 * j + 6 * k] = from_mont(&parts[4 * i + 2 * j + k]);
            }
        }
    }
    v
}
pub fn lib_f12(a: &F12) -> gm_sm9::verif_hooks::Fp12 {
    let mut parts = [[0u64; 4]; 12];
    for i in 0..3 {
        for j in 0..2 {
            for k in 0..2 {
                parts[4 * i + 2 * j + k] = to_mont(&a[i + 3 * j + 6 * k]);
            }
        }
    }
    gm_sm9::verif_hooks::fp12_new(parts)
}
pub fn lib_g1(pt: &(BigUint, BigUint), lambda: &BigUint) -> gm_sm9::points::Point {
    let p = &params().p;
    let l2 = (lambda * lambda) % p;
    let l3 = (&l2 * lambda) % p;
    gm_sm9::points::Point { x: to_mont(&((&pt.0 * &l2) % p)), y: to_mont(&((&pt.1 * &l3) % p)), z: to_mont(&(lambda % p)) }
}
pub fn ref_g1(pt: &gm_sm9::points::Point) -> G1 {
    let p = &params().p;
    let z = from_mont(&pt.z);
    if z.is_zero() {
        return None;
    }
    let zi = z.modinv(p).unwrap();
    let zi2 = (&zi * &zi) % p;
    let zi3 = (&zi2 * &zi) % p;
    Some(((from_mont(&pt.x) * zi2) % p, (from_mont(&pt.y) * zi3) % p))
}
pub fn lib_g2(pt: &(F2, F2), lambda: &F2) -> gm_sm9::points::TwistPoint {
    let l2 = f2mul(lambda, lambda);
    let l3 = f2mul(&l2, lambda);
    gm_sm9::points::TwistPoint { x: lib_f2(&f2mul(&pt.0, &l2)), y: lib_f2(&f2mul(&pt.1, &l3)), z: lib_f2(lambda) }
}
pub fn ref_g2(pt: &gm_sm9::points::TwistPoint) -> G2 {
    let z = ref_f2(&pt.z);
    if f2zero(&z) {
        return None;
    }
    let zi = f2inv(&z).unwrap();
    let zi2 = f2mul(&zi, &zi);
    let zi3 = f2mul(&zi2, &zi);
    Some((f2mul(&ref_f2(&pt.x), &zi2), f2mul(&ref_f2(&pt.y), &zi3)))
}

// ---------------------------------------------------------------- self-test (GM/T 0044.5 Annex examples)
pub fn selftest(full: bool) -> Vec<(String, bool)> {
    let pr = params();
    let mut r = vec![];
    r.push(("sm9 generators on curve, [N]P1 = O, [N]P2 = O".to_string(), g1_on_curve(&pr.p1.0, &pr.p1.1) && g2_on_curve(&pr.p2.0, &pr.p2.1) && g1_mul(&pr.n, &g1_gen()).is_none() && g2_mul(&pr.n, &g2_gen()).is_none()));
    let mut okm = true;
    for kk in [BigUint::one(), BigUint::from(2u32), BigUint::from(5u32), &pr.n - 1u32, pr.n.clone(), &pr.n + 3u32, hexn("000130E78459D78545CB54C587E02CF480CE0B66340F319F348A1D5B1F2DC5F4")] {
        okm &= g1_mul(&kk, &g1_gen()) == g1_mul_affine(&kk, &g1_gen());
        okm &= g2_mul(&kk, &g2_gen()) == g2_mul_affine(&kk, &g2_gen());
    }
    r.push(("projective G1/G2 scalar multiplication == affine double-and-add".to_string(), okm));
    // signature example
    let ks = hexn("000130E78459D78545CB54C587E02CF480CE0B66340F319F348A1D5B1F2DC5F4");
    let ppubs = g2_mul(&ks, &g2_gen()).unwrap();
    r.push(("GM/T 0044.5 Ppub-s".to_string(), hex::encode_upper(b32(&(ppubs.0).1)) == "9F64080B3084F733E48AFF4B41B565011CE0711C5E392CFB0AB1B6791B94C408"));
    let g = pairing(&pr.p1, &ppubs).unwrap();
    r.push(("GM/T 0044.5 g = e(P1, Ppub-s) first coefficient".to_string(), hex::encode_upper(b32(&g[11])) == "4E378FB5561CD0668F906B731AC58FEE25738EDF09CADC7A29C0ABC0177AEA6D"));
    r.push(("g has order N, g != 1".to_string(), f12pow(&g, &pr.n) == f12one() && g != f12one()));
    let rr = hexn("00033C8616B06704813203DFD00965022ED15975C662337AED648835DC4B1CBE");
    let sg = sign(&ks, b"Alice", b"Chinese IBS standard", &rr);
    let oks = match &sg {
        Some((h, s)) => {
            hex::encode_upper(b32(h)) == "823C4B21E4BD2DFE1ED92C606653E996668563152FC33F55D7BFBB9BD9705ADB"
                && hex::encode_upper(b32(&s.0)) == "73BF96923CE58B6AD0E13E9643A406D8EB98417C50EF1B29CEF9ADB48B6D598C"
                && hex::encode_upper(b32(&s.1)) == "856712F1C2E0968AB7769F42A99586AED139D5B8B3E15891827CC2ACED9BAA05"
                && verify(&ppubs, b"Alice", b"Chinese IBS standard", h, s)
        }
        None => false,
    };
    r.push(("GM/T 0044.5 signature example (h, S) and verification".to_string(), oks));
    // encryption example
    let ke = hexn("0001EDEE3778F441F8DEA3D9FA0ACC4E07EE36C93F9A08618AF4AD85CEDE1C22");
    let re = hexn("0000AAC0541779C8FC45E3E2CB25C12B5D2576B2129AE8BB5EE2CBE5EC9E785C");
    let ct = encrypt(&ke, b"Bob", b"Chinese IBE standard", &re);
    let oke = match &ct {
        Some(ct) => {
            let de = extract_enc_key(&ke, b"Bob", HID_ENC).unwrap();
            hex::encode_upper(&ct[1..33]) == "2445471164490618E1EE20528FF1D545B0F14C8BCAA44544F03DAB5DAC07D8FF"
                && hex::encode_upper(&ct[65..97]) == "BA672387BCD6DE5016A158A52BB2E7FC429197BCAB70B25AFEE37A2B9DB9F367"
                && hex::encode_upper(&ct[97..]) == "1B5F5B0E951489682F3E64E1378CDD5DA9513B1C"
                && decrypt(&de, b"Bob", ct).as_deref() == Some(&b"Chinese IBE standard"[..])
        }
        None => false,
    };
    r.push(("GM/T 0044.5 encryption example (C1, C3, C2) and decryption".to_string(), oke));
    if full {
        // key exchange example
        let ke = hexn("0002E65B0762D042F51F0D23542B13ED8CFA2E9A0E7206361E013A283905E31F");
        let ra_s = hexn("00005879DD1D51E175946F23B1B41E93BA31C584AE59A426EC1046A4D03B06C8");
        let rb_s = hexn("00018B98C44BEF9F8537FB7D071B2C928B3BC65BD3D69E1EEE213564905634FE");
        let qb = exch_q(&ke, b"Bob").unwrap();
        let ra = g1_mul(&ra_s, &Some(qb)).unwrap();
        let resp = exch_responder(&ke, b"Alice", b"Bob", &ra, &rb_s, 16);
        let okx = match resp {
            Some((rb, skb)) => {
                let ska = exch_initiator(&ke, b"Alice", b"Bob", &ra_s, &ra, &rb, 16);
                hex::encode_upper(&skb) == "C5C13A8F59A97CDEAE64F16A2272A9E7" && ska.as_deref() == Some(&skb[..])
            }
            None => false,
        };
        r.push(("GM/T 0044.5 key exchange example SK".to_string(), okx));
        // fast final exponent == plain exponentiation; bilinearity
        let f: F12 = (0..12u32).map(|i| BigUint::from(i * 7 + 3)).collect();
        r.push(("final exponent: Frobenius decomposition == plain (p^12-1)/N power".to_string(), final_exp(&f) == final_exp_plain(&f)));
        let e1 = pairing(&g1_mul(&BigUint::from(3u32), &g1_gen()).unwrap(), &g2_mul(&BigUint::from(5u32), &g2_gen()).unwrap()).unwrap();
        let e0 = pairing(&pr.p1, &pr.p2).unwrap();
        r.push(("reference pairing bilinear: e([3]P1,[5]P2) = e(P1,P2)^15".to_string(), e1 == f12pow(&e0, &BigUint::from(15u32))));
        let fi = f12inv(&f).unwrap();
        r.push(("f12inv".to_string(), f12mul(&f, &fi) == f12one()));
    }
    r
}

// ---------------------------------------------------------------- crafted G1 points
/// square root in F_p (p = 5 mod 8, Atkin)
pub fn sqrt_p(a: &BigUint) -> Option<BigUint> {
    let p = &params().p;
    let a = a % p;
    if a.is_zero() {
        return Some(a);
    }
    let two_a = (&a * 2u32) % p;
    let v = two_a.modpow(&((p - 5u32) >> 3), p);
    let i = (&two_a * &v % p) * &v % p;
    let r = (&a * &v % p) * ((&i + p - 1u32) % p) % p;
    if (&r * &r) % p == a {
        Some(r)
    } else {
        None
    }
}
/// cube root in F_p (p = 4 mod 9): a^((2p+1)/9) when a is a cubic residue
pub fn cbrt_p(a: &BigUint) -> Option<BigUint> {
    let p = &params().p;
    let a = a % p;
    let e = (p * 2u32 + 1u32) / 9u32;
    let r = a.modpow(&e, p);
    if (&r * &r % p) * &r % p == a {
        Some(r)
    } else {
        None
    }
}
/// G1 point whose x^3 has the given Montgomery representation (x^3 * 2^256 mod p = v)
pub fn g1_point_with_mont_x3(v: &[u64; 4]) -> Option<(BigUint, BigUint)> {
    let p = &params().p;
    if from_limbs(v) >= *p {
        return None;
    }
    let x3 = from_mont(v);
    let x = cbrt_p(&x3)?;
    let y = sqrt_p(&((x3 + 5u32) % p))?;
    if g1_on_curve(&x, &y) {
        Some((x, y))
    } else {
        None
    }
}
