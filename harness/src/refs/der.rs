//! Minimal strict DER reader/writer for the four shapes that occur (ECDSA-style (r,s), SM2Cipher,
//! SubjectPublicKeyInfo, PKCS#8 / SEC1 ECPrivateKey). Definite lengths only, minimal length encoding.
#[derive(Debug, Clone)]
pub struct Tlv<'a> {
    pub tag: u8,
    pub val: &'a [u8],
}

pub fn read_tlv(b: &[u8]) -> Option<(Tlv<'_>, &[u8])> {
    if b.len() < 2 {
        return None;
    }
    let tag = b[0];
    let (len, hdr) = if b[1] & 0x80 == 0 {
        (b[1] as usize, 2)
    } else {
        let n = (b[1] & 0x7f) as usize;
        if n == 0 || n > 4 || b.len() < 2 + n {
            return None;
        }
        let mut l = 0usize;
        for &x in &b[2..2 + n] {
            l = (l << 8) | x as usize;
        }
        // DER: minimal length form
        if l < 0x80 || b[2] == 0 {
            return None;
        }
        (l, 2 + n)
    };
    if b.len() < hdr + len {
        return None;
    }
    Some((Tlv { tag, val: &b[hdr..hdr + len] }, &b[hdr + len..]))
}

pub fn children(b: &[u8]) -> Option<Vec<Tlv<'_>>> {
    let mut out = vec![];
    let mut rest = b;
    while !rest.is_empty() {
        let (t, r) = read_tlv(rest)?;
        out.push(t);
        rest = r;
    }
    Some(out)
}

/// DER INTEGER content -> non-negative big-endian magnitude; None if negative or non-minimal
pub fn uint(t: &Tlv) -> Option<Vec<u8>> {
    if t.tag != 0x02 || t.val.is_empty() {
        return None;
    }
    if t.val[0] & 0x80 != 0 {
        return None;
    }
    if t.val.len() > 1 && t.val[0] == 0 && t.val[1] & 0x80 == 0 {
        return None; // non-minimal
    }
    let v: Vec<u8> = t.val.iter().cloned().skip_while(|&b| b == 0).collect();
    Some(v)
}

pub fn len_bytes(n: usize) -> Vec<u8> {
    if n < 0x80 {
        vec![n as u8]
    } else if n < 0x100 {
        vec![0x81, n as u8]
    } else if n < 0x10000 {
        vec![0x82, (n >> 8) as u8, n as u8]
    } else {
        vec![0x83, (n >> 16) as u8, (n >> 8) as u8, n as u8]
    }
}

pub fn tlv(tag: u8, val: &[u8]) -> Vec<u8> {
    let mut v = vec![tag];
    v.extend_from_slice(&len_bytes(val.len()));
    v.extend_from_slice(val);
    v
}

pub fn int_from_be(mag: &[u8]) -> Vec<u8> {
    let m: Vec<u8> = mag.iter().cloned().skip_while(|&b| b == 0).collect();
    let mut v = vec![];
    if m.is_empty() {
        v.push(0);
    } else {
        if m[0] & 0x80 != 0 {
            v.push(0);
        }
        v.extend_from_slice(&m);
    }
    tlv(0x02, &v)
}

/// GM/T 0009 SM2Cipher ::= SEQUENCE { x INTEGER, y INTEGER, hash OCTET STRING (32), cipher OCTET STRING }
pub fn sm2cipher_encode(x: &[u8], y: &[u8], c3: &[u8], c2: &[u8]) -> Vec<u8> {
    let mut body = int_from_be(x);
    body.extend_from_slice(&int_from_be(y));
    body.extend_from_slice(&tlv(0x04, c3));
    body.extend_from_slice(&tlv(0x04, c2));
    tlv(0x30, &body)
}

pub struct Sm2Cipher {
    pub x: Vec<u8>,
    pub y: Vec<u8>,
    pub c3: Vec<u8>,
    pub c2: Vec<u8>,
}

pub fn sm2cipher_decode(b: &[u8]) -> Option<Sm2Cipher> {
    let (seq, rest) = read_tlv(b)?;
    if seq.tag != 0x30 || !rest.is_empty() {
        return None;
    }
    let c = children(seq.val)?;
    if c.len() != 4 || c[2].tag != 0x04 || c[3].tag != 0x04 {
        return None;
    }
    Some(Sm2Cipher { x: uint(&c[0])?, y: uint(&c[1])?, c3: c[2].val.to_vec(), c2: c[3].val.to_vec() })
}

const OID_EC_PUBLIC_KEY: [u8; 7] = [0x2a, 0x86, 0x48, 0xce, 0x3d, 0x02, 0x01];
const OID_SM2: [u8; 8] = [0x2a, 0x81, 0x1c, 0xcf, 0x55, 0x01, 0x82, 0x2d];

fn alg_id() -> Vec<u8> {
    let mut a = tlv(0x06, &OID_EC_PUBLIC_KEY);
    a.extend_from_slice(&tlv(0x06, &OID_SM2));
    tlv(0x30, &a)
}

/// SubjectPublicKeyInfo for an uncompressed SM2 point
pub fn spki_encode(point65: &[u8]) -> Vec<u8> {
    let mut body = alg_id();
    let mut bits = vec![0u8];
    bits.extend_from_slice(point65);
    body.extend_from_slice(&tlv(0x03, &bits));
    tlv(0x30, &body)
}

/// returns the public-key bytes of an SM2 SPKI
pub fn spki_decode(b: &[u8]) -> Option<Vec<u8>> {
    let (seq, rest) = read_tlv(b)?;
    if seq.tag != 0x30 || !rest.is_empty() {
        return None;
    }
    let c = children(seq.val)?;
    if c.len() != 2 || c[0].tag != 0x30 || c[1].tag != 0x03 {
        return None;
    }
    let a = children(c[0].val)?;
    if a.len() != 2 || a[0].val != OID_EC_PUBLIC_KEY || a[1].val != OID_SM2 {
        return None;
    }
    if c[1].val.is_empty() || c[1].val[0] != 0 {
        return None;
    }
    Some(c[1].val[1..].to_vec())
}

/// PKCS#8 PrivateKeyInfo { 0, algId, OCTET STRING { ECPrivateKey { 1, d, [0] params?, [1] pub? } } } -> (d, optional public bytes)
pub fn pkcs8_decode(b: &[u8]) -> Option<(Vec<u8>, Option<Vec<u8>>)> {
    let (seq, rest) = read_tlv(b)?;
    if seq.tag != 0x30 || !rest.is_empty() {
        return None;
    }
    let c = children(seq.val)?;
    if c.len() < 3 || c[0].tag != 0x02 || c[1].tag != 0x30 || c[2].tag != 0x04 {
        return None;
    }
    let a = children(c[1].val)?;
    if a.len() != 2 || a[0].val != OID_EC_PUBLIC_KEY || a[1].val != OID_SM2 {
        return None;
    }
    sec1_decode(c[2].val)
}

pub fn sec1_decode(b: &[u8]) -> Option<(Vec<u8>, Option<Vec<u8>>)> {
    let (seq, rest) = read_tlv(b)?;
    if seq.tag != 0x30 || !rest.is_empty() {
        return None;
    }
    let c = children(seq.val)?;
    if c.len() < 2 || c[0].tag != 0x02 || c[0].val != [1] || c[1].tag != 0x04 {
        return None;
    }
    let d = c[1].val.to_vec();
    let mut public = None;
    for t in &c[2..] {
        if t.tag == 0xa1 {
            let (bs, r) = read_tlv(t.val)?;
            if bs.tag != 0x03 || !r.is_empty() || bs.val.is_empty() || bs.val[0] != 0 {
                return None;
            }
            public = Some(bs.val[1..].to_vec());
        }
    }
    Some((d, public))
}

pub fn pkcs8_encode(d32: &[u8], point65: Option<&[u8]>) -> Vec<u8> {
    let mut ec = tlv(0x02, &[1]);
    ec.extend_from_slice(&tlv(0x04, d32));
    if let Some(p) = point65 {
        let mut bits = vec![0u8];
        bits.extend_from_slice(p);
        ec.extend_from_slice(&tlv(0xa1, &tlv(0x03, &bits)));
    }
    let ec = tlv(0x30, &ec);
    let mut body = tlv(0x02, &[0]);
    body.extend_from_slice(&alg_id());
    body.extend_from_slice(&tlv(0x04, &ec));
    tlv(0x30, &body)
}

pub fn pem(label: &str, der: &[u8]) -> String {
    const T: &[u8; 64] = b"ABCDEFGHIJKLMNOPQRSTUVWXYZabcdefghijklmnopqrstuvwxyz0123456789+/";
    let mut b64 = String::new();
    for ch in der.chunks(3) {
        let n = (ch[0] as u32) << 16 | (*ch.get(1).unwrap_or(&0) as u32) << 8 | *ch.get(2).unwrap_or(&0) as u32;
        b64.push(T[(n >> 18) as usize & 63] as char);
        b64.push(T[(n >> 12) as usize & 63] as char);
        b64.push(if ch.len() > 1 { T[(n >> 6) as usize & 63] as char } else { '=' });
        b64.push(if ch.len() > 2 { T[n as usize & 63] as char } else { '=' });
    }
    let mut out = format!("-----BEGIN {}-----\n", label);
    for line in b64.as_bytes().chunks(64) {
        out.push_str(std::str::from_utf8(line).unwrap());
        out.push('\n');
    }
    out.push_str(&format!("-----END {}-----\n", label));
    out
}
