//! gmverif: runtime monitors for the gm-rs properties C01..C20.
//! One process = one shard of one property's workload; the python driver (../check) builds,
//! shards, watches, merges and writes the evidence.
mod corpus;
mod mon;
mod props;
mod refs;
mod sm2x;
mod sm9x;

use mon::Ctx;
use std::time::Instant;

fn usage() -> ! {
    eprintln!("usage: gmverif <C01..C20> --tier quick|thorough --seed N --shard i/n --profile NAME --out FILE [--journal FILE]");
    std::process::exit(64);
}

fn main() {
    let args: Vec<String> = std::env::args().collect();
    if args.len() < 2 {
        usage();
    }
    if args[1] == "tool" {
        mon::install_panic_hook();
        props::tool(&args[2..]);
        return;
    }
    let prop = args[1].to_uppercase();
    let mut tier = "quick".to_string();
    let mut seed = 1u64;
    let mut shard = 0usize;
    let mut nshards = 1usize;
    let mut profile = "unknown".to_string();
    let mut out: Option<String> = None;
    let mut journal: Option<String> = None;
    let mut extra: Vec<String> = vec![];
    let mut i = 2;
    while i < args.len() {
        let a = args[i].as_str();
        let v = args.get(i + 1).cloned();
        match a {
            "--tier" => tier = v.unwrap_or_else(|| usage()),
            "--seed" => seed = v.unwrap_or_else(|| usage()).parse().unwrap_or_else(|_| usage()),
            "--shard" => {
                let s = v.unwrap_or_else(|| usage());
                let mut it = s.split('/');
                shard = it.next().unwrap().parse().unwrap();
                nshards = it.next().unwrap().parse().unwrap();
            }
            "--profile" => profile = v.unwrap_or_else(|| usage()),
            "--out" => out = v,
            "--journal" => journal = v,
            _ => {
                extra.push(args[i].clone());
                i += 1;
                continue;
            }
        }
        i += 2;
    }
    mon::install_panic_hook();
    let t0 = Instant::now();
    let mut ctx = Ctx::new(&prop, &tier, seed, shard, nshards, &profile, journal.as_deref());
    let known = props::run(&prop, &mut ctx, &extra);
    if !known {
        eprintln!("unknown property {}", prop);
        std::process::exit(64);
    }
    let j = ctx.to_json(t0.elapsed().as_secs_f64());
    let s = serde_json::to_string(&j).unwrap();
    match out {
        Some(p) => std::fs::write(p, s).expect("write out"),
        None => println!("{}", s),
    }
}
