//! Library-side helpers for the SM9 workloads.
use crate::mon::Prng;
use crate::refs::sm9 as r9;
use gm_sm9::key::{Sm9EncKey, Sm9EncMasterKey, Sm9SignKey, Sm9SignMasterKey};
use gm_sm9::points::{Point, TwistPoint};
use gm_sm9::verif_hooks as hk;
use num_bigint::BigUint;
use num_traits::One;

pub fn rand_scalar(p: &mut Prng, modulus: &BigUint) -> BigUint {
    let b = p.bytes(40);
    (BigUint::from_bytes_be(&b) % (modulus - 1u32)) + 1u32
}

pub fn edge_scalars() -> Vec<BigUint> {
    let n = &r9::params().n;
    let r: BigUint = (BigUint::one() << 256) % n;
    let rinv = r.modinv(n).unwrap();
    vec![
        BigUint::one(),
        BigUint::from(2u32),
        BigUint::from(3u32),
        n - 2u32,
        n - 3u32,
        (n - 1u32) >> 1,
        BigUint::one() << 64,
        (BigUint::one() << 128) - 1u32,
        BigUint::one() << 255,
        // carry chains
        r9::hexn("0000000000000000FFFFFFFFFFFFFFFFFFFFFFFFFFFFFFFF0000000000000000"),
        (BigUint::one() << 192) - 1u32,
        r9::hexn("00000000000000010000000000000000FFFFFFFFFFFFFFFF0000000000000000"),
        r9::hexn("7FFFFFFFFFFFFFFFFFFFFFFFFFFFFFFFFFFFFFFFFFFFFFFFFFFFFFFFFFFFFFFFFF"),
        n - (BigUint::one() << 128),
        // boundary words as Montgomery representation mod N: k = w R^-1 and k = w R^-1 - 1, and R mod N itself
        rinv.clone(),
        (&rinv + n - 1u32) % n,
        (&rinv * 2u32) % n,
        r.clone(),
        &r - 1u32,
    ]
    .into_iter()
    .filter(|k| k < &(n - 1u32))
    .collect()
}

pub fn scalar_for(p: &mut Prng, i: u64) -> BigUint {
    let e = edge_scalars();
    if (i as usize) < e.len() {
        e[i as usize].clone()
    } else {
        rand_scalar(p, &(&r9::params().n - 1u32))
    }
}

pub fn limbs(x: &BigUint) -> [u64; 4] {
    r9::to_limbs(x)
}

/// affine G1 point -> library Point with Z = 1 (Montgomery one)
pub fn lib_g1_affine(pt: &(BigUint, BigUint)) -> Point {
    r9::lib_g1(pt, &BigUint::one())
}

pub fn lib_g2_affine(pt: &(r9::F2, r9::F2)) -> TwistPoint {
    r9::lib_g2(pt, &(BigUint::one(), BigUint::from(0u32)))
}

/// master keys whose public part comes from the reference group law (not from the library's own g_mul)
pub fn sign_master(ks: &BigUint) -> Sm9SignMasterKey {
    let ppubs = r9::g2_mul(ks, &r9::g2_gen()).unwrap();
    Sm9SignMasterKey { ks: limbs(ks), ppubs: lib_g2_affine(&ppubs) }
}

pub fn enc_master(ke: &BigUint) -> Sm9EncMasterKey {
    let ppube = r9::g1_mul(ke, &r9::g1_gen()).unwrap();
    Sm9EncMasterKey { ke: limbs(ke), ppube: lib_g1_affine(&ppube) }
}

pub fn sign_key_from_ref(ks: &BigUint, id: &[u8]) -> Option<Sm9SignKey> {
    let ppubs = r9::g2_mul(ks, &r9::g2_gen())?;
    let ds = r9::extract_sign_key(ks, id)?;
    Some(Sm9SignKey { ppubs: lib_g2_affine(&ppubs), ds: lib_g1_affine(&ds) })
}

pub fn enc_key_from_ref(ke: &BigUint, id: &[u8], hid: u8) -> Option<Sm9EncKey> {
    let ppube = r9::g1_mul(ke, &r9::g1_gen())?;
    let de = r9::extract_enc_key(ke, id, hid)?;
    Some(Sm9EncKey { ppube: lib_g1_affine(&ppube), de: lib_g2_affine(&de) })
}

pub fn rng_prepare(inject: &[&BigUint]) {
    hk::rng_reset(0);
    for k in inject {
        hk::rng_inject(r9::b32(k));
    }
}

pub struct RngSeen {
    pub candidates: Vec<BigUint>,
    pub injected: Vec<bool>,
    pub accepted: Vec<BigUint>,
    pub pending: usize,
}

pub fn rng_seen() -> RngSeen {
    let pending = hk::rng_pending();
    let l = hk::rng_take_log();
    RngSeen {
        candidates: l.candidates.iter().map(|c| BigUint::from_bytes_be(c)).collect(),
        injected: l.injected,
        accepted: l.accepted.iter().map(r9::from_limbs).collect(),
        pending,
    }
}

pub fn g1_hex(p: &(BigUint, BigUint)) -> String {
    format!("({},{})", hex::encode(r9::b32(&p.0)), hex::encode(r9::b32(&p.1)))
}

/// Scalars with zero 64-bit limbs in every pattern (bit i of `mask` set = limb i forced to zero), the other limbs
/// random; reduced into [1, order-1]. Word-skipping "optimisations" of multiplication/exponentiation loops fail on these.
pub fn sparse_scalar(p: &mut Prng, mask: u64) -> BigUint {
    let order = &r9::params().n;
    let mut l = p.limbs();
    for i in 0..4 {
        if mask >> i & 1 == 1 {
            l[i] = 0;
        } else if l[i] == 0 {
            l[i] = 1;
        }
    }
    let mut v = BigUint::from(0u32);
    for i in (0..4).rev() {
        v = (v << 64) + l[i];
    }
    let v = v % order;
    if v == BigUint::from(0u32) {
        BigUint::from(1u32) << 64
    } else {
        v
    }
}

/// All 81 limb-wise comparison patterns against `m`: limb i of the value is equal to, below or above limb i of `m`
/// (pattern string lists limbs 3..0). A comparison ladder that slips one limb index is wrong only for values whose
/// upper limbs EQUAL those of the modulus, which random values never do.
pub fn ladder_values(m: &BigUint, p: &mut Prng) -> Vec<(String, BigUint)> {
    let ml = r9::to_limbs(m);
    let mut out = vec![];
    for code in 0..81u32 {
        let mut v = [0u64; 4];
        let mut pat = String::new();
        let mut ok = true;
        let mut c = code;
        let mut rel = [0u32; 4];
        for i in 0..4 {
            rel[i] = c % 3;
            c /= 3;
        }
        for i in (0..4).rev() {
            match rel[i] {
                0 => {
                    v[i] = ml[i];
                    pat.push('=');
                }
                1 => {
                    if ml[i] == 0 {
                        ok = false;
                        break;
                    }
                    v[i] = ml[i] - 1 - p.below(ml[i]);
                    pat.push('<');
                }
                _ => {
                    if ml[i] == u64::MAX {
                        ok = false;
                        break;
                    }
                    v[i] = ml[i] + 1 + p.below(u64::MAX - ml[i]);
                    pat.push('>');
                }
            }
        }
        if ok {
            out.push((pat, r9::from_limbs(&v)));
        }
    }
    out
}

/// Valid G1 points crafted so that the addition `x^3 + 5` of the on-curve test, in the library's stored (Montgomery)
/// representation, lands on a reduction or carry boundary (same idea as sm2x::crafted_points).
pub fn crafted_g1_points(p: &mut Prng, per_class: usize, shard: u64, shards: u64) -> Vec<(String, (BigUint, BigUint))> {
    let pr = r9::params();
    let two256: BigUint = BigUint::one() << 256;
    let cl = r9::to_mont(&BigUint::from(5u32));
    let cb = r9::from_limbs(&cl);
    let width = &two256 - &pr.p;
    let mut pats: Vec<(String, Box<dyn Fn(u64, &mut Prng) -> Option<BigUint>>)> = vec![];
    {
        let (cb1, pp, w) = (cb.clone(), pr.p.clone(), width.clone());
        pats.push(("x^3+5:stored_sum_in_[p,2^256)".into(), Box::new(move |_, q| {
            let lim = if cb1 < w { cb1.clone() } else { w.clone() };
            let t = BigUint::from_bytes_be(&q.bytes(40)) % &lim;
            Some(&pp - &cb1 + t)
        })));
        let (cb1, pp) = (cb.clone(), pr.p.clone());
        pats.push(("x^3+5:stored_sum=p+j".into(), Box::new(move |j, _| Some(&pp - &cb1 + j))));
        let (cb1, pp) = (cb.clone(), pr.p.clone());
        pats.push(("x^3+5:stored_sum=p-1-j".into(), Box::new(move |j, _| Some(&pp - 1u32 - j - &cb1))));
        let (cb1, t) = (cb.clone(), two256.clone());
        pats.push(("x^3+5:stored_sum=2^256-1-j".into(), Box::new(move |j, _| Some(&t - 1u32 - j - &cb1))));
        let (cb1, t) = (cb.clone(), two256.clone());
        pats.push(("x^3+5:stored_sum=2^256+j".into(), Box::new(move |j, _| Some(&t + j - &cb1))));
    }
    for i in 1..4usize {
        for run in 1..=(4 - i) {
            let Some(k) = (0..i).rev().find(|&k| cl[k] != 0) else { continue };
            for (mode, fname) in [(0u8, "sum_all_ones"), (1, "operand_all_ones"), (2, "operand_zero")] {
                pats.push((format!("x^3+5:limbs{}..{}_{}_carry_in", i, i + run - 1, fname), Box::new(move |_, q| {
                    let mut v = q.limbs();
                    for j in (k + 1)..i {
                        v[j] = !cl[j];
                    }
                    for j in i..(i + run) {
                        v[j] = match mode {
                            0 => !cl[j],
                            1 => u64::MAX,
                            _ => 0,
                        };
                    }
                    v[k] = 0u64.wrapping_sub(cl[k]).wrapping_add(q.below(cl[k]));
                    if i + run == 3 {
                        v[3] %= 0xB640_0000_02A3_A6F1;
                    }
                    Some(r9::from_limbs(&v))
                })));
            }
        }
    }
    let mut out = vec![];
    let mut class_idx = 0u64;
    for (name, f) in pats {
        class_idx += 1;
        let sub = p.next();
        if class_idx % shards != shard % shards {
            continue;
        }
        let q = &mut Prng::new(sub, "cls");
        let mut found = 0;
        for j in 0..160u64 {
            let Some(v) = f(j, q) else { continue };
            if v >= pr.p {
                continue;
            }
            if let Some(pt) = r9::g1_point_with_mont_x3(&r9::to_limbs(&v)) {
                out.push((name.clone(), pt));
                found += 1;
                if found >= per_class {
                    break;
                }
            }
        }
    }
    out
}
